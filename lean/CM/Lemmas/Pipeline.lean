import CM.Model.Pipeline
set_option linter.unusedSimpArgs false
/-! Helper lemmas about the pipeline model (worlds, writes, accumulators). -/
namespace CM.Pipeline

theorem get_set_same (w : World) (p : Path) (c : Content) : (w.set p c).get p = some c := by
  induction w with
  | nil => simp [World.set, World.get]
  | cons h t ih =>
    obtain ⟨q, d⟩ := h
    simp only [World.set]
    by_cases hq : q = p
    · subst hq; simp [World.get]
    · have : (q == p) = false := by simpa using hq
      have hp : (p == q) = false := by simpa using fun e : p = q => hq e.symm
      simp only [this, Bool.false_eq_true, if_false, World.get, List.lookup_cons, hp]
      exact ih

theorem get_set_other (w : World) (p q : Path) (c : Content) (h : q ≠ p) : (w.set p c).get q = w.get q := by
  induction w with
  | nil =>
    have : (q == p) = false := by simpa using h
    simp [World.set, World.get, this]
  | cons hd t ih =>
    obtain ⟨r, d⟩ := hd
    simp only [World.set]
    by_cases hr : r = p
    · subst hr
      have : (q == r) = false := by simpa using h
      simp [World.get, List.lookup_cons, this]
    · have hrp : (r == p) = false := by simpa using hr
      simp only [hrp, Bool.false_eq_true, if_false, World.get, List.lookup_cons]
      by_cases hqr : q = r
      · subst hqr; simp
      · have : (q == r) = false := by simpa using hqr
        simp only [this]
        exact ih

theorem commit_dry (cfg : Cfg) (h : cfg.dry = true) (w : World) (p : Path) (c : Content) : commit cfg w p c = w := by
  simp [commit, h]

theorem get_commit_other (cfg : Cfg) (w : World) (p q : Path) (c : Content) (h : q ≠ p) :
    (commit cfg w p c).get q = w.get q := by
  unfold commit; split
  · rfl
  · exact get_set_other w p q c h

theorem get_writeOf_other (cfg : Cfg) (w : World) (p q : Path) (r : FileRes) (h : q ≠ p) :
    (writeOf cfg w p r).get q = w.get q := by
  unfold writeOf; split
  · exact get_commit_other cfg w p q _ h
  · rfl

/-- content of `p` after its own job's write -/
def after1 (cfg : Cfg) (old : Option Content) (r : FileRes) : Option Content :=
  match r.write with
  | some c => if cfg.dry then old else some c
  | none => old

theorem get_writeOf_same (cfg : Cfg) (w : World) (p : Path) (r : FileRes) :
    (writeOf cfg w p r).get p = after1 cfg (w.get p) r := by
  unfold writeOf after1 commit
  cases r.write with
  | none => rfl
  | some c =>
    by_cases hd : cfg.dry = true
    · simp [hd]
    · simp [hd, get_set_same]

theorem writeOf_dry (cfg : Cfg) (h : cfg.dry = true) (w : World) (p : Path) (r : FileRes) : writeOf cfg w p r = w := by
  unfold writeOf; split <;> simp [commit_dry cfg h]

theorem applyWrites_dry (cfg : Cfg) (h : cfg.dry = true) (w : World) (rs : List (Path × FileRes)) :
    applyWrites cfg w rs = w := by
  induction rs generalizing w with
  | nil => rfl
  | cons hd t ih => simp [applyWrites, List.foldl_cons, writeOf_dry cfg h] at *; exact ih w

theorem mem_keys_of_lookup {β} (t : List (String × β)) (q : String) (v : β) (h : t.lookup q = some v) :
    q ∈ t.map (·.1) := by
  induction t with
  | nil => simp at h
  | cons hd tl ih =>
    obtain ⟨k, b⟩ := hd
    simp only [List.lookup_cons] at h
    by_cases hk : q = k
    · subst hk; simp
    · have : (q == k) = false := by simpa using hk
      simp only [this] at h
      simp [ih h]

/-- **pointwise effect of a codemod's writes**: with distinct paths, the content of `q` after all
jobs is determined by `q`'s own job alone. -/
theorem applyWrites_get (cfg : Cfg) (w : World) (rs : List (Path × FileRes)) (hn : (rs.map (·.1)).Nodup) (q : Path) :
    (applyWrites cfg w rs).get q =
      match rs.lookup q with
      | some r => after1 cfg (w.get q) r
      | none => w.get q := by
  induction rs generalizing w with
  | nil => simp [applyWrites]
  | cons hd t ih =>
    obtain ⟨p, r⟩ := hd
    simp only [List.map_cons, List.nodup_cons] at hn
    simp only [applyWrites, List.foldl_cons]
    have := ih (writeOf cfg w p r) hn.2
    simp only [applyWrites] at this
    rw [this]
    by_cases hqp : q = p
    · subst hqp
      have hnone : t.lookup q = none := by
        cases hl : t.lookup q with
        | none => rfl
        | some v =>
          exfalso; apply hn.1
          exact mem_keys_of_lookup t q v hl
      simp [hnone, List.lookup_cons, get_writeOf_same]
    · have hb : (q == p) = false := by simpa using hqp
      simp only [List.lookup_cons, hb, get_writeOf_other cfg w p q r hqp]

theorem getAcc_setAcc_same (accs : List (String × Acc)) (id : String) (a : Acc) : getAcc (setAcc accs id a) id = a := by
  induction accs with
  | nil => simp [setAcc, getAcc]
  | cons h t ih =>
    obtain ⟨k, b⟩ := h
    simp only [setAcc]
    by_cases hk : k = id
    · subst hk; simp [getAcc]
    · have h1 : (k == id) = false := by simpa using hk
      have h2 : (id == k) = false := by simpa using fun e : id = k => hk e.symm
      simp only [h1, Bool.false_eq_true, if_false, getAcc, List.lookup_cons, h2]
      exact ih

theorem getAcc_setAcc_other (accs : List (String × Acc)) (id id' : String) (a : Acc) (h : id' ≠ id) :
    getAcc (setAcc accs id a) id' = getAcc accs id' := by
  induction accs with
  | nil =>
    have : (id' == id) = false := by simpa using h
    simp [setAcc, getAcc, List.lookup_cons, this]
  | cons hd t ih =>
    obtain ⟨k, b⟩ := hd
    simp only [setAcc]
    by_cases hk : k = id
    · subst hk
      have : (id' == k) = false := by simpa using h
      simp [getAcc, List.lookup_cons, this]
    · have h1 : (k == id) = false := by simpa using hk
      simp only [h1, Bool.false_eq_true, if_false, getAcc, List.lookup_cons]
      by_cases hq : id' = k
      · subst hq; simp
      · have : (id' == k) = false := by simpa using hq
        simp only [this]
        exact ih

end CM.Pipeline
