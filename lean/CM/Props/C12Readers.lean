import CM.Model.Readers
import CM.Props.C12
/-!
# C12 — readers: "parsed findings == reference extraction"
-/
set_option linter.unusedSimpArgs false
namespace CM.RS

theorem lookup_set {α} (l : AL α) (k k' : String) (v : α) :
    (set l k v).lookup k' = if k' = k then some v else l.lookup k' := by
  induction l with
  | nil =>
    simp only [set, List.lookup_cons, List.lookup_nil]
    by_cases h : k' = k
    · subst h; simp
    · have : (k' == k) = false := by simpa using h
      simp [this, h]
  | cons p t ih =>
    obtain ⟨a, b⟩ := p
    simp only [set]
    by_cases hak : a = k
    · subst hak
      simp only [BEq.rfl, if_true, List.lookup_cons]
      by_cases h : k' = a
      · subst h; simp
      · have : (k' == a) = false := by simpa using h
        simp [this, h]
    · have hak' : (a == k) = false := by simpa using hak
      simp only [hak', Bool.false_eq_true, if_false, List.lookup_cons]
      by_cases h : k' = a
      · subst h
        have : ¬ k' = k := hak
        simp [this]
      · have : (k' == a) = false := by simpa using h
        simp [this, ih]

theorem getD_set {α} (l : AL α) (k k' : String) (v d : α) :
    getD (set l k v) k' d = if k' = k then v else getD l k' d := by
  unfold getD
  rw [lookup_set]
  by_cases h : k' = k <;> simp [h]

theorem get_addAt {ρ} (rs : RSet ρ) (r f r' f' : String) (x : ρ) :
    get (addAt rs r f x) r' f' = get rs r' f' ++ (if r' = r ∧ f' = f then [x] else []) := by
  unfold get addAt
  rw [getD_set]
  by_cases hr : r' = r
  · subst hr
    simp only [if_true, true_and]
    rw [getD_set]
    by_cases hf : f' = f
    · subst hf; simp
    · simp [hf]
  · simp [hr]

theorem get_addResult {ρ} (rs : RSet ρ) (r : String) (files : List String) (x : ρ) (r' f' : String) :
    get (addResult rs r files x) r' f'
      = get rs r' f' ++ (if r' = r then (files.filter (· = f')).map (fun _ => x) else []) := by
  unfold addResult
  induction files generalizing rs with
  | nil => simp
  | cons f t ih =>
    simp only [List.foldl_cons]
    rw [ih, get_addAt]
    by_cases hr : r' = r
    · subst hr
      by_cases hf : f' = f
      · subst hf; simp [List.filter_cons]
      · have : ¬ f = f' := fun h => hf h.symm
        simp [hf, this, List.filter_cons]
    · simp [hr]

end CM.RS

namespace CM.Readers
open CM.RS

/-- the findings a codemod must see for `(rule, file)`: one copy of the finding per location in
that file, in document order -/
def reference (xs : List Payload) (rule file : String) : List Payload :=
  xs.flatMap fun x =>
    if rule = x.ruleId then ((x.locs.map (·.file)).filter (· = file)).map (fun _ => x) else []

theorem get_readAll_aux (xs : List Payload) (acc : RSet Payload) (r f : String) :
    get (xs.foldl (fun acc x => addResult acc x.ruleId (x.locs.map (·.file)) x) acc) r f
      = get acc r f ++ reference xs r f := by
  induction xs generalizing acc with
  | nil => simp [reference]
  | cons x t ih =>
    simp only [List.foldl_cons]
    rw [ih, get_addResult]
    simp [reference, List.append_assoc]

/-- **C12.** For every list of findings, what `results_for_rule_and_file` returns after reading is
exactly the reference extraction: every finding with a location in that file, with its rule id,
file and identity intact, once per location, in order; nothing else. -/
theorem C12_read_all (xs : List Payload) (r f : String) :
    get (readAll xs) r f = reference xs r f := by
  unfold readAll
  rw [get_readAll_aux]
  simp [get_nil]

/-- **C12 (Sonar).** issues *and* hotspots are read (in that order), and only open ones. -/
theorem C12_sonar_reader (doc : SonarDoc) (xs : List (Option Payload))
    (h : (doc.issues ++ doc.hotspots).mapM sonarEntry = .ok xs) (r f : String) :
    get (sonarRead doc) r f = reference (xs.filterMap id) r f := by
  unfold sonarRead sonarPayloads
  rw [h]
  exact C12_read_all _ r f

/-- **C12 (Sonar).** a closed / resolved entry never yields a finding. -/
theorem C12_sonar_open_only (e : SonarEntry) (p : Payload) (h : sonarEntry e = .ok (some p)) :
    ∃ st, e.status = some st ∧ isOpen st = true := by
  unfold sonarEntry at h
  cases hs : e.status with
  | none => simp [hs] at h
  | some st =>
    refine ⟨st, rfl, ?_⟩
    cases ho : isOpen st with
    | true => rfl
    | false => simp [hs, ho] at h

/-- **C12 (Sonar).** an open entry with a rule id of the form `repo:Sxxx` and a text range is
delivered with its rule, file, line/offset range and key intact. -/
theorem C12_sonar_entry_intact (e : SonarEntry) (st rule c : String) (tr : TextRange)
    (hs : e.status = some st) (ho : isOpen st = true) (hr : e.rule = some rule) (hne : rule.isEmpty = false)
    (hcol : 2 ≤ (rule.toList.splitOn ':').length) (ht : e.textRange = some tr) (hc : e.component = some c) :
    sonarEntry e = .ok (some { ruleId := rule, findingId := (e.key.getD rule), locs := [{ file := (lastSegment c ':'), sl := tr.sl, sc := tr.so, el := tr.el, ec := tr.eo }] }) := by
  unfold sonarEntry
  have : ¬ (rule.toList.splitOn ':').length < 2 := by omega
  simp [hs, ho, hr, truthy, hne, ht, hc, this]

/-- **C12 (SARIF).** every result of every run is read, each with all its locations. -/
theorem C12_semgrep_reader (runs : List SRun) (t : Bool) (xs : List Payload)
    (h : semgrepPayloads runs t = .ok xs) (r f : String) :
    get (readAll xs) r f = reference xs r f ∧
    xs.length = (runs.map (·.results.length)).sum := by
  refine ⟨C12_read_all xs r f, ?_⟩
  unfold semgrepPayloads at h
  have hl : ∀ (l : List (Except Err Payload)) (ys : List Payload), l.mapM id = .ok ys → ys.length = l.length := by
    intro l
    induction l with
    | nil => intro ys h; simp [List.mapM_nil, pure, Except.pure] at h; subst h; rfl
    | cons a t ih =>
      intro ys h
      rw [List.mapM_cons] at h
      cases a with
      | error e => simp [bind, Except.bind] at h
      | ok v =>
        cases ht : t.mapM id with
        | error e => simp [bind, Except.bind, ht] at h
        | ok zs =>
          simp [bind, Except.bind, ht, pure, Except.pure] at h
          subst h
          simp [ih zs ht]
  rw [hl _ _ h]
  induction runs with
  | nil => rfl
  | cons a t ih => simp [List.flatMap_cons, ih]

/-- **C12 (DefectDojo).** one finding per entry with id, title, file and line intact. -/
theorem C12_dd_reader (es : List DDEntry) (r f : String) :
    get (readAll (ddPayloads es)) r f
      = (es.filter (fun e => e.title = r ∧ e.filePath = f)).map
          (fun e => { ruleId := e.title, findingId := toString e.id, locs := [{ file := e.filePath, sl := e.line, sc := -1, el := e.line, ec := -1 }] }) := by
  rw [C12_read_all]
  unfold reference ddPayloads
  induction es with
  | nil => rfl
  | cons e t ih =>
    simp only [List.map_cons, List.flatMap_cons, List.filter_cons]
    rw [ih]
    by_cases h1 : r = e.title <;> by_cases h2 : e.filePath = f <;> simp [h1, h2, eq_comm]

-- non-vacuity
example : sonarPayloads { issues := [⟨some "python:S1", none, some "OPEN", some ⟨1, 2, 1, 5⟩, some "proj:a.py", some "K1"⟩],
                          hotspots := [⟨none, some "python:S2", some "TO_REVIEW", some ⟨3, 0, 3, 4⟩, some "proj:b.py", some "K2"⟩,
                                       ⟨none, some "python:S2", some "REVIEWED", some ⟨4, 0, 4, 4⟩, some "proj:b.py", some "K3"⟩] }
    = [⟨"python:S1", "K1", [⟨"a.py", 1, 2, 1, 5⟩]⟩, ⟨"python:S2", "K2", [⟨"b.py", 3, 0, 3, 4⟩]⟩] := by decide

end CM.Readers
