import CM.Model.Prec
import CM.Props.Prec
/-!
# C08 — what `combine` does to the *value* of a boolean expression

`CM.Prec` says where parentheses go; here the boolean fragment of the trees (names, `startswith`
calls, `not`, `and`, `or`, `if`–`else`) gets a value, and the bottom-up pass of
`leave_BooleanOperation` is shown to keep it **unless it folds through an `and`** — the one shape in
which `A or (B and c)` becomes `(A∪B) and c` (the recorded finding). `andFolds` says whether the pass
meets that shape on a given tree; it is computed along the pass, because an inner fold can create the
call that makes the outer shape match.
-/
namespace CM.Prec
open E

theorem mem_dedup (x : String) : ∀ l : List String, x ∈ dedup l ↔ x ∈ l
  | [] => by simp [dedup]
  | y :: t => by
    simp only [dedup, List.mem_cons, List.mem_filter, mem_dedup x t]
    constructor
    · rintro (h | ⟨h, _⟩)
      · exact Or.inl h
      · exact Or.inr h
    · rintro (h | h)
      · exact Or.inl h
      · by_cases hx : x = y
        · exact Or.inl hx
        · exact Or.inr ⟨h, by simp [hx]⟩

theorem startsAny_dedup (s : List Char) (ps : List String) : startsAny s (dedup ps) = startsAny s ps := by
  unfold startsAny
  rw [Bool.eq_iff_iff]
  simp only [List.any_eq_true]
  constructor
  · rintro ⟨p, hp, h⟩; exact ⟨p, (mem_dedup p ps).mp hp, h⟩
  · rintro ⟨p, hp, h⟩; exact ⟨p, (mem_dedup p ps).mpr hp, h⟩

theorem startsAny_append (s : List Char) (a b : List String) : startsAny s (a ++ b) = (startsAny s a || startsAny s b) := by
  simp [startsAny, List.any_append]

theorem evalB_combineCalls (env : Env) (r : String) (p₁ p₂ : List String) :
    evalB env (combineCalls r p₁ p₂) = some (startsAny (env.recv r) p₁ || startsAny (env.recv r) p₂) := by
  simp [combineCalls, evalB, startsAny_dedup, startsAny_append]

/-- **one node.** away from the `and`-fold the rewritten node has the value of the node it replaces -/
theorem combineStep_evalB (env : Env) (e : E) (h : andFoldHere e = false) :
    evalB env (combineStep true e) = evalB env e := by
  unfold combineStep
  split
  · rename_i l r p
    split
    · -- call or call
      rename_i r₁ p₁ q₁ r₂ p₂ q₂
      split
      · rename_i hr; subst hr
        simp [evalB_combineCalls, evalB, bind, Option.bind, pure]
      · rfl
    · -- call or (call k rr)
      rename_i r₁ p₁ q₁ k r₂ p₂ q₂ rr q
      split
      · rename_i hc
        simp only [Bool.and_eq_true, decide_eq_true_eq] at hc
        obtain ⟨hk, hr⟩ := hc; subst hr
        cases k with
        | arith => simp [isBoolOp] at hk
        | and => simp [andFoldHere] at h
        | or =>
          simp only [evalB, evalB_combineCalls, bind, Option.bind, pure]
          cases evalB env rr <;> simp [Bool.or_assoc]
      · rfl
    · -- (ll k call) or call
      rename_i k ll r₁ p₁ q₁ q r₂ p₂ q₂
      split
      · rename_i hc
        simp only [Bool.and_eq_true, decide_eq_true_eq] at hc
        obtain ⟨hk, hr⟩ := hc; subst hr
        cases k with
        | arith => simp [isBoolOp] at hk
        | and => simp [andFoldHere] at h
        | or =>
          simp only [evalB, evalB_combineCalls, bind, Option.bind, pure]
          cases evalB env ll <;> simp [Bool.or_assoc]
      · rfl
    · rfl
  · rfl

/-- **C08 (combine-calls keeps the value away from the `and`-fold).** for every environment and every
tree on which the pass never folds through an `and`, the rewritten tree has the same value. -/
theorem C08_combine_preserves_value (env : Env) : ∀ e : E, andFolds e = false → evalB env (combine true e) = evalB env e := by
  intro e
  induction e with
  | atom n p => intro _; rfl
  | call r ps p => intro _; rfl
  | neg x p ih => intro _; rfl
  | lnot x p ih => intro h; simp only [andFolds] at h; simp [combine, evalB, ih h]
  | bin k l r p ihl ihr =>
    intro h
    simp only [andFolds, Bool.or_eq_false_iff] at h
    obtain ⟨⟨hl, hr⟩, hh⟩ := h
    simp only [combine]
    rw [combineStep_evalB env _ hh]
    cases k <;> simp [evalB, ihl hl, ihr hr]
  | cmp o l r p ihl ihr => intro _; rfl
  | chain l a x c r p ihl ihx ihr => intro _; rfl
  | ifx t c f p iht ihc ihf =>
    intro h
    simp only [andFolds, Bool.or_eq_false_iff] at h
    simp [combine, evalB, iht h.1.1, ihc h.1.2, ihf h.2]
  | named n v p ih => intro _; rfl
  | tup a b p iha ihb => intro _; rfl

/-- **the recorded finding, on trees.** `s.startswith('x') or s.startswith('q') and c` with `s = "xy"`,
`c = False`: the pass folds through the `and` and the value flips from `True` to `False`. -/
theorem C08_combine_and_fold_changes_value :
    let e := bin .or (call "s" ["x"] false) (bin .and (call "s" ["q"] false) (atom "c" false) false) false
    let env : Env := { name := fun _ => false, recv := fun _ => "xy".toList }
    andFolds e = true ∧ evalB env e = some true ∧ evalB env (combine true e) = some false := by
  decide

-- non-vacuity: a tree with two folds, none through an `and`
example : andFolds (bin .or (bin .or (atom "flag" false) (call "s" ["a"] false) false) (call "s" ["b"] false) true) = false := by decide

end CM.Prec
