import CM.Model.BoolRw
import CM.Props.C08
import CM.Props.Prec
import CM.Generated.TablesEq
/-!
# C08 — the inversion table as it stands in the source

`CM.Generated.gen_inv` is regenerated on every run from the `match` statement of
`_invert_comparisons`; `gen_inv_eq` (kernel-checked on every run) says it is the model's `inv`.
Here the value-level theorems of `CM.BoolRw` and the syntax-level theorems of `CM.Prec` are restated
about that translated table, so that a changed table entry breaks an obligation.
-/
namespace CM.Prec
open CM.Generated

/-- the six ordering / equality operators of the value model, as operators of the syntax model -/
def ofOp : CM.BoolRw.Op → Cop
  | .eq => .eq | .ne => .ne | .lt => .lt | .le => .le | .gt => .gt | .ge => .ge

/-- the value model and the source agree on the table -/
theorem C08_inv_table_from_source (o : CM.BoolRw.Op) : ofOp (CM.BoolRw.inv o) = gen_inv (ofOp o) := by
  cases o <;> rfl

/-- the table in the source is an involution that never maps an operator to itself: inverting twice
gives the comparison back, and no comparison is "inverted" into itself -/
theorem C08_inv_source_involutive (o : Cop) : gen_inv (gen_inv o) = o ∧ gen_inv o ≠ o := by
  cases o <;> exact ⟨rfl, by decide⟩

/-- **C08 (invert, total orders) for the table in the source.** on integers, the comparison with the
operator the *source* table gives equals the negated comparison. -/
theorem C08_invert_source_total (op : CM.BoolRw.Op) (a b : Int) :
    (∃ op', ofOp op' = gen_inv (ofOp op) ∧
      CM.BoolRw.cmp op' (.int a) (.int b) = (CM.BoolRw.cmp op (.int a) (.int b)).map (!·)) := by
  refine ⟨CM.BoolRw.inv op, C08_inv_table_from_source op, ?_⟩
  have h := CM.BoolRw.C08_invert_single_total op a b
  rw [CM.BoolRw.notChain_single] at h
  simpa [CM.BoolRw.invertRewrite] using h

end CM.Prec
