import CM.Model.Diff
import CM.Props.Pipeline
set_option linter.unusedSimpArgs false
/-!
# C03 — the diff in the report is exactly the change made on disk

Script level: for every edit script `s` (what `SequenceMatcher.get_opcodes` describes for `a = src s`,
`b = dst s`) and every context width `n`, applying the hunks that `get_grouped_opcodes(n)` forms to
`a` yields `b` (`C03_patch_group`). The rendering of the hunks as text and its parser are executable
and compared with difflib / patch(1) on every correspondence case (not proved).
-/
namespace CM.Diff

theorem srcI_append (a b : List Item) : srcI (a ++ b) = srcI a ++ srcI b := by
  induction a with
  | nil => rfl
  | cons h t ih => cases h <;> simp [srcI, ih]

theorem dstI_append (a b : List Item) : dstI (a ++ b) = dstI a ++ dstI b := by
  induction a with
  | nil => rfl
  | cons h t ih => cases h <;> simp [dstI, ih]

theorem srcI_ctx (ls : List Line) : srcI (ls.map .ctx) = ls := by
  induction ls with
  | nil => rfl
  | cons h t ih => simp [srcI, ih]

theorem dstI_ctx (ls : List Line) : dstI (ls.map .ctx) = ls := by
  induction ls with
  | nil => rfl
  | cons h t ih => simp [dstI, ih]

theorem srcI_chg (d a : List Line) : srcI (chgItems d a) = d := by
  unfold chgItems
  rw [srcI_append]
  have h1 : srcI (d.map .del) = d := by
    induction d with
    | nil => rfl
    | cons h t ih => simp [srcI, ih]
  have h2 : srcI (a.map .ins) = [] := by
    induction a with
    | nil => rfl
    | cons h t ih => simp [srcI, ih]
  simp [h1, h2]

theorem dstI_chg (d a : List Line) : dstI (chgItems d a) = a := by
  unfold chgItems
  rw [dstI_append]
  have h1 : dstI (d.map .del) = [] := by
    induction d with
    | nil => rfl
    | cons h t ih => simp [dstI, ih]
  have h2 : dstI (a.map .ins) = a := by
    induction a with
    | nil => rfl
    | cons h t ih => simp [dstI, ih]
  simp [h1, h2]

/-- a hunk body applied to its own source part -/
theorem applyItems_self (its : List Item) (r : List Line) :
    applyItems its (srcI its ++ r) = some (dstI its, r) := by
  induction its with
  | nil => rfl
  | cons h t ih =>
    cases h with
    | ctx l => simp [applyItems, srcI, dstI, ih]
    | del l => simp [applyItems, srcI, dstI, ih]
    | ins l => simp [applyItems, srcI, dstI, ih]

/-- the hunks of an open group start at the group's start -/
theorem group_head (n i st : Nat) (its : List Item) (s : List Seg) :
    ∃ its' tl, group n i (some (st, its)) s = ⟨st, its'⟩ :: tl := by
  induction s generalizing i its with
  | nil => exact ⟨its, [], rfl⟩
  | cons h t ih =>
    cases h with
    | chg d a => simp only [group]; exact ih _ _
    | eq ls =>
      cases t with
      | nil => exact ⟨_, [], rfl⟩
      | cons h2 t2 =>
        simp only [group]
        split
        · exact ⟨_, _, rfl⟩
        · exact ih _ _

/-- skipping an untouched prefix -/
theorem applyHunks_skip (hs : List Hunk) (pos : Nat) (pre s : List Line)
    (h : ∀ hd ∈ hs.head?, pos + pre.length ≤ hd.start) :
    applyHunks hs pos (pre ++ s) = (applyHunks hs (pos + pre.length) s).map (pre ++ ·) := by
  cases hs with
  | nil => simp [applyHunks]
  | cons hd tl =>
    have hle : pos + pre.length ≤ hd.start := h hd (by simp)
    simp only [applyHunks]
    have h1 : ¬ hd.start < pos := by omega
    have h2 : ¬ hd.start < pos + pre.length := by omega
    simp only [h1, h2, if_false]
    have e : hd.start - pos = pre.length + (hd.start - (pos + pre.length)) := by omega
    by_cases h3 : s.length < hd.start - (pos + pre.length)
    · have : (pre ++ s).length < hd.start - pos := by simp; omega
      simp only [h3, this, if_true, Option.map_none]
    · have : ¬ (pre ++ s).length < hd.start - pos := by simp; omega
      simp only [h3, this, if_false]
      rw [e, List.drop_append, List.take_append]
      simp only [List.drop_eq_nil_of_le (Nat.le_add_right _ _), List.nil_append, Nat.add_sub_cancel_left,
        List.take_of_length_le (Nat.le_add_right _ _)]
      cases applyItems hd.items (s.drop (hd.start - (pos + pre.length))) with
      | none => rfl
      | some p =>
        obtain ⟨out, rest⟩ := p
        simp only
        cases applyHunks tl (hd.start + (srcI hd.items).length) rest with
        | none => rfl
        | some r => simp [List.append_assoc]

/-- **main invariant**: with an open group `(st, its)` whose source part ends at index `i`, the
hunks formed from the remaining script reproduce the destination from `st` on -/
theorem applyHunks_group_open (n : Nat) (s : List Seg) (i st : Nat) (its : List Item)
    (hi : i = st + (srcI its).length) :
    applyHunks (group n i (some (st, its)) s) st (srcI its ++ src s) = some (dstI its ++ dst s) := by
  induction s generalizing i st its with
  | nil =>
    have := applyItems_self its []
    simp only [List.append_nil] at this
    simp [group, applyHunks, src, dst, this]
  | cons h t ih =>
    cases h with
    | chg d a =>
      simp only [group, src, dst]
      have := ih (i + d.length) st (its ++ chgItems d a) (by rw [srcI_append, srcI_chg]; simp; omega)
      rw [srcI_append, dstI_append, srcI_chg, dstI_chg, List.append_assoc, List.append_assoc] at this
      exact this
    | eq ls =>
      cases t with
      | nil =>
        simp only [group, src, dst, List.append_nil, applyHunks, Nat.lt_irrefl, if_false, Nat.sub_self, Nat.not_lt_zero, List.drop_zero, List.take_zero, List.nil_append]
        have hsplit : srcI its ++ ls = srcI (its ++ (ls.take n).map .ctx) ++ ls.drop n := by
          rw [srcI_append, srcI_ctx, List.append_assoc, List.take_append_drop]
        rw [hsplit, applyItems_self]
        simp only [applyHunks, Option.map_some, dstI_append, dstI_ctx, List.append_assoc, List.take_append_drop]
      | cons h2 t2 =>
        simp only [group]
        by_cases hbig : 2 * n < ls.length
        · simp only [hbig, if_true, src, dst, applyHunks, Nat.lt_irrefl, if_false, Nat.sub_self, Nat.not_lt_zero, List.drop_zero, List.take_zero, List.nil_append]
          -- first hunk: its ++ first n context lines
          have hsplit : srcI its ++ (ls ++ src (h2 :: t2))
              = srcI (its ++ (ls.take n).map .ctx) ++ (ls.drop n ++ src (h2 :: t2)) := by
            rw [srcI_append, srcI_ctx]
            simp only [List.append_assoc]
            rw [← List.append_assoc (ls.take n), List.take_append_drop]
          rw [hsplit, applyItems_self]
          simp only
          -- the rest: skip the middle of the equal run, then the next open group
          have hn : n ≤ ls.length := by omega
          have hmid : ls.drop n = (ls.drop n).take (ls.length - 2 * n) ++ ls.drop (ls.length - n) := by
            have : ls.drop (ls.length - n) = (ls.drop n).drop (ls.length - 2 * n) := by
              rw [List.drop_drop]; congr 1; omega
            rw [this, List.take_append_drop]
          obtain ⟨its', tl, hg⟩ := group_head n (i + ls.length) (i + ls.length - n) ((ls.drop (ls.length - n)).map .ctx) (h2 :: t2)
          have hlen : ((ls.drop n).take (ls.length - 2 * n)).length = ls.length - 2 * n := by
            simp; omega
          have hsrc1 : (srcI (its ++ (ls.take n).map .ctx)).length = (srcI its).length + n := by
            rw [srcI_append, srcI_ctx]; simp; omega
          rw [hmid, List.append_assoc, applyHunks_skip _ _ _ _ (by
            rw [hg]; intro hd hhd; simp at hhd; subst hhd; simp only [hlen, hsrc1]; omega)]
          have hpos : st + (srcI (its ++ (ls.take n).map .ctx)).length + ((ls.drop n).take (ls.length - 2 * n)).length
              = i + ls.length - n := by rw [hlen, hsrc1]; omega
          rw [hpos]
          have hih := ih (i + ls.length) (i + ls.length - n) ((ls.drop (ls.length - n)).map .ctx) (by
            rw [srcI_ctx]; simp; omega)
          rw [srcI_ctx, dstI_ctx] at hih
          rw [hih]
          simp only [Option.map_some, dstI_append, dstI_ctx, List.append_assoc]
          congr 2
          rw [← List.append_assoc ((ls.drop n).take _), ← hmid, ← List.append_assoc, List.take_append_drop]
        · simp only [hbig, if_false, src, dst]
          have := ih (i + ls.length) st (its ++ ls.map .ctx) (by rw [srcI_append, srcI_ctx]; simp; omega)
          rw [srcI_append, dstI_append, srcI_ctx, dstI_ctx, List.append_assoc, List.append_assoc] at this
          exact this

/-- **C03 (script level).** For every context width `n` and every edit script, the grouped hunks
applied to the source of the script yield its destination: the diff reproduces the content after
from the content before. -/
theorem C03_patch_group (n : Nat) (s : List Seg) : applyHunks (hunks n s) 0 (src s) = some (dst s) := by
  unfold hunks
  cases s with
  | nil => rfl
  | cons h t =>
    cases h with
    | chg d a =>
      simp only [group, src, dst, Nat.zero_add]
      have := applyHunks_group_open n t d.length 0 (chgItems d a) (by rw [srcI_chg]; simp)
      rwa [srcI_chg, dstI_chg] at this
    | eq ls =>
      cases t with
      | nil => simp [group, applyHunks, src, dst]
      | cons h2 t2 =>
        simp only [group, src, dst, Nat.zero_add]
        have hsplit : ls ++ src (h2 :: t2) = ls.take (ls.length - n) ++ (ls.drop (ls.length - n) ++ src (h2 :: t2)) := by
          rw [← List.append_assoc, List.take_append_drop]
        obtain ⟨its', tl, hg⟩ := group_head n ls.length (ls.length - n) ((ls.drop (ls.length - n)).map .ctx) (h2 :: t2)
        have hlen : (ls.take (ls.length - n)).length = ls.length - n := by simp
        rw [hsplit, applyHunks_skip _ _ _ _ (by rw [hg]; intro hd hhd; simp at hhd; subst hhd; simp [hlen])]
        simp only [Nat.zero_add, hlen]
        have hih := applyHunks_group_open n (h2 :: t2) ls.length (ls.length - n) ((ls.drop (ls.length - n)).map .ctx) (by
          rw [srcI_ctx]; simp)
        rw [srcI_ctx, dstI_ctx] at hih
        rw [hih]
        simp only [Option.map_some]
        rw [← List.append_assoc, List.take_append_drop]

/-- **C03.** no hunks at all iff the script changes nothing ("no code diff ⇒ no changeset") -/
theorem C03_no_hunks_of_equal (n : Nat) (ls : List Line) : hunks n [.eq ls] = [] := by
  simp [hunks, group]

theorem C03_hunks_nonempty_of_change (n : Nat) (s : List Seg) (h : ∃ d a, Seg.chg d a ∈ s) : hunks n s ≠ [] := by
  obtain ⟨d, a, hm⟩ := h
  have key : ∀ (s : List Seg) (i : Nat) (cur : Option (Nat × List Item)), cur.isSome ∨ (∃ d a, Seg.chg d a ∈ s) → group n i cur s ≠ [] := by
    intro s
    induction s with
    | nil =>
      intro i cur h
      rcases h with h | ⟨d, a, hm⟩
      · cases cur with
        | none => simp at h
        | some p => simp [group]
      · simp at hm
    | cons hd t ih =>
      intro i cur h
      cases hd with
      | chg d a =>
        cases cur with
        | none => simp only [group]; exact ih _ _ (Or.inl rfl)
        | some p => obtain ⟨st, its⟩ := p; simp only [group]; exact ih _ _ (Or.inl rfl)
      | eq ls =>
        have ht : cur.isSome ∨ ∃ d a, Seg.chg d a ∈ t := by
          rcases h with h | ⟨d, a, hm⟩
          · exact Or.inl h
          · simp at hm; exact Or.inr ⟨d, a, hm⟩
        cases cur with
        | none =>
          cases t with
          | nil => rcases ht with h | ⟨d, a, hm⟩ <;> simp at *
          | cons h2 t2 => simp only [group]; exact ih _ _ (Or.inl rfl)
        | some p =>
          obtain ⟨st, its⟩ := p
          cases t with
          | nil => simp [group]
          | cons h2 t2 =>
            simp only [group]
            split
            · simp
            · exact ih _ _ (Or.inl rfl)
  exact key s 0 none (Or.inr ⟨d, a, hm⟩)

-- non-vacuity: two changes 8 equal lines apart are split into two hunks with n = 3, and patching works
example : (hunks 3 [.eq ["a\n"], .chg ["x\n"] ["y\n"], .eq ["1\n","2\n","3\n","4\n","5\n","6\n","7\n","8\n"], .chg [] ["z\n"]]).length = 2 := by decide
example : applyHunks (hunks 1 [.eq ["a\n","b\n"], .chg ["x\n"] ["y\n"], .eq ["c\n"]]) 0 ["a\n","b\n","x\n","c\n"]
    = some ["a\n","b\n","y\n","c\n"] := by decide

end CM.Diff
