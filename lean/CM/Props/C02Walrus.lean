import CM.Props.C02Scope
/-!
# C02 — use-walrus-if may inline the value when the name has a single access (scope model)

`n = value` directly followed by `if n:`; the codemod removes the assignment and puts the value into the
test when `_single_access` holds: the accesses of the name at its level together with the references
libcst attributes to its assignments from enclosed scopes are exactly one (the test itself). Then no
read anywhere in the function refers to this level's `n` any more, so dropping the assignment leaves no
name unresolved that was resolved before.
-/
namespace CM.Scope

def Body.append : Body → Body → Body
  | .nil, b => b
  | .cons s t, b => .cons s (t.append b)

theorem assigns_append : ∀ (a b : Body), (a.append b).assigns = a.assigns ++ b.assigns
  | .nil, b => by simp [Body.append, Body.assigns]
  | .cons (.assign n e) t, b => by simp [Body.append, Body.assigns, assigns_append t b]
  | .cons (.read r) t, b => by simp [Body.append, Body.assigns, assigns_append t b]
  | .cons (.scope c) t, b => by simp [Body.append, Body.assigns, assigns_append t b]

theorem refs_append (n : String) : ∀ (a b : Body), (a.append b).refs n = a.refs n + b.refs n
  | .nil, b => by simp [Body.append, Body.refs]
  | .cons s t, b => by simp only [Body.append, Body.refs, refs_append n t b]; omega

theorem unresolvedGo_append (B : List String) : ∀ (a b : Body),
    (a.append b).unresolvedGo B = a.unresolvedGo B ++ b.unresolvedGo B
  | .nil, b => by simp [Body.append, Body.unresolvedGo]
  | .cons s t, b => by simp [Body.append, Body.unresolvedGo, unresolvedGo_append B t b]

mutual
/-- a name nothing refers to may leave the bound names: no read becomes unresolved -/
theorem unresolvedGo_drop_bound (Bo Bn : List String) (hsub : ∀ y ∈ Bn, y ∈ Bo) :
    ∀ t : Body, (∀ y ∈ Bo, y ∉ Bn → t.refs y = 0) → ∀ x ∈ t.unresolvedGo Bn, x ∈ t.unresolvedGo Bo
  | .nil, _, x, hx => by simp [Body.unresolvedGo] at hx
  | .cons s t, h, x, hx => by
    have hs : ∀ y ∈ Bo, y ∉ Bn → s.refs y = 0 := fun y hy hn => by
      have := h y hy hn; simp only [Body.refs] at this; omega
    have ht : ∀ y ∈ Bo, y ∉ Bn → t.refs y = 0 := fun y hy hn => by
      have := h y hy hn; simp only [Body.refs] at this; omega
    simp only [Body.unresolvedGo, List.mem_append] at hx ⊢
    rcases hx with hx | hx
    · exact Or.inl (unresolvedGoS_drop_bound Bo Bn hsub s hs x hx)
    · exact Or.inr (unresolvedGo_drop_bound Bo Bn hsub t ht x hx)
theorem unresolvedGoS_drop_bound (Bo Bn : List String) (hsub : ∀ y ∈ Bn, y ∈ Bo) :
    ∀ s : Stmt, (∀ y ∈ Bo, y ∉ Bn → s.refs y = 0) → ∀ x ∈ s.unresolvedGo Bn, x ∈ s.unresolvedGo Bo
  | .assign n e, _, x, hx => by simp [Stmt.unresolvedGo] at hx
  | .read r, h, x, hx => by
    simp only [Stmt.unresolvedGo] at hx ⊢
    by_cases hr : r ∈ Bn
    · simp [hr] at hx
    · simp only [hr, if_false, List.mem_singleton] at hx
      subst hx
      by_cases hb : x ∈ Bo
      · have := h x hb hr; simp [Stmt.refs] at this
      · simp [hb]
  | .scope b, h, x, hx => by
    simp only [Stmt.unresolvedGo] at hx ⊢
    refine unresolvedGo_drop_bound (b.assigns ++ Bo) (b.assigns ++ Bn) ?_ b ?_ x hx
    · intro y hy
      simp only [List.mem_append] at hy ⊢
      exact hy.elim Or.inl fun h' => Or.inr (hsub y h')
    · intro y hy hn
      simp only [List.mem_append, not_or] at hy hn
      rcases hy with hy | hy
      · exact absurd hy hn.1
      · have := h y hy hn.2
        simpa [Stmt.refs, hn.1] using this
end

/-- the function body around the pattern: `pre`, `n = value`, `if n:` (a read of `n`), `post` -/
def walrusSite (pre post : Body) (n : String) (e : Bool) : Body :=
  pre.append (.cons (.assign n e) (.cons (.read n) post))

/-- the body after the value has been inlined into the test -/
def walrusInlined (pre post : Body) : Body := pre.append post

/-- **C02 (use-walrus-if, value inlined).** If the test is the only access of the name that libcst sees
(`_single_access`: accesses at the level + references from enclosed scopes = 1), the function reads no
name after the rewrite that it could resolve before and cannot resolve now. -/
theorem C02_walrus_inline_scope_safe (pre post : Body) (n : String) (e : Bool) (outer : List String)
    (h1 : (walrusSite pre post n e).alive .libcst n = 1) :
    ∀ x ∈ (walrusInlined pre post).unresolved outer, x ∈ (walrusSite pre post n e).unresolved outer := by
  intro x hx
  -- Python's references to this level's `n` are among what libcst counts: at most one, and the test is one
  have hle := refs_le_libcst n (walrusSite pre post n e)
  simp only [Body.alive] at h1
  have hrefs : (walrusSite pre post n e).refs n ≤ 1 := by omega
  have hsplit : (walrusSite pre post n e).refs n = pre.refs n + (1 + post.refs n) := by
    simp [walrusSite, refs_append, Body.refs, Stmt.refs]
  have hpre : pre.refs n = 0 := by omega
  have hpost : post.refs n = 0 := by omega
  unfold Body.unresolved at hx ⊢
  -- bound names after: assigns(pre) ++ assigns(post) ++ outer; before: the same plus `n`
  have hassB : (walrusSite pre post n e).assigns = pre.assigns ++ (n :: post.assigns) := by
    simp [walrusSite, assigns_append, Body.assigns]
  have hassA : (walrusInlined pre post).assigns = pre.assigns ++ post.assigns := by
    simp [walrusInlined, assigns_append]
  rw [hassA] at hx
  rw [hassB]
  simp only [walrusInlined, unresolvedGo_append, List.mem_append] at hx
  simp only [walrusSite, unresolvedGo_append, Body.unresolvedGo, Stmt.unresolvedGo, List.mem_append, List.nil_append]
  have hsub : ∀ y ∈ pre.assigns ++ post.assigns ++ outer, y ∈ pre.assigns ++ (n :: post.assigns) ++ outer := by
    intro y hy; simp only [List.mem_append, List.mem_cons] at hy ⊢
    rcases hy with (hy | hy) | hy
    · exact Or.inl (Or.inl hy)
    · exact Or.inl (Or.inr (Or.inr hy))
    · exact Or.inr hy
  have hdiff : ∀ (t : Body), t.refs n = 0 →
      ∀ y ∈ pre.assigns ++ (n :: post.assigns) ++ outer, y ∉ pre.assigns ++ post.assigns ++ outer → t.refs y = 0 := by
    intro t ht y hy hn
    simp only [List.mem_append, List.mem_cons, not_or] at hy hn
    have : y = n := by
      rcases hy with (hy | hy | hy) | hy
      · exact absurd hy hn.1.1
      · exact hy
      · exact absurd hy hn.1.2
      · exact absurd hy hn.2
    rw [this]; exact ht
  rcases hx with hx | hx
  · exact Or.inl (unresolvedGo_drop_bound _ _ hsub pre (hdiff pre hpre) x hx)
  · refine Or.inr (Or.inr ?_)
    exact unresolvedGo_drop_bound _ _ hsub post (hdiff post hpost) x hx

/-- the code before the fix counted the accesses at the level only: `val = f()` / `if val:` / `return lambda: val` -/
theorem C02_walrus_old_inline_unbinds_closure :
    let post : Body := .cons (.scope (.cons (.read "val") .nil)) .nil
    (walrusSite .nil post "val" true).alive .ownOnly "val" = 1 ∧ (walrusSite .nil post "val" true).alive .libcst "val" = 2 ∧
    (walrusSite .nil post "val" true).unresolved [] = [] ∧ (walrusInlined .nil post).unresolved [] = ["val"] := by
  decide

-- non-vacuity: a site the rule accepts
example : (walrusSite (.cons (.assign "a" false) .nil) (.cons (.read "a") .nil) "val" true).alive .libcst "val" = 1 := by decide

end CM.Scope
