import CM.Props.C16
/-!
# C07 — the argument editor is a fixed point on its own output, for any specification list
(calls with pairwise different keywords, specifications with pairwise different names)
-/
namespace CM.Args

theorem getD_not_mem_eraseIdx (info : List NewArg) (hn : (names info).Nodup) (i : Nat) (hi : i < info.length) :
    info.getD i ⟨"", "", false⟩ ∉ info.eraseIdx i := by
  induction info generalizing i with
  | nil => simp at hi
  | cons x t ih =>
    simp only [names, List.map_cons, List.nodup_cons, List.mem_map, not_exists, not_and] at hn
    cases i with
    | zero =>
      simp only [List.getD_cons_zero, List.eraseIdx_cons_zero]
      intro h; exact hn.1 x h rfl
    | succ j =>
      simp only [List.getD_cons_succ, List.eraseIdx_cons_succ, List.mem_cons, not_or]
      have hj : j < t.length := by simpa using hi
      refine ⟨?_, ih (by simpa [names] using hn.2) j hj⟩
      intro h
      exact hn.1 _ (getD_mem _ t j hj) (by rw [h])

/-- a criterion for "the editor changes nothing": every argument that carries a specified keyword is the
plain keyword argument the specification asks for, and every specification that is to be added is there -/
theorem replaceArgs_fixed : ∀ (R : List Arg) (info : List NewArg), (names info).Nodup →
    (∀ a ∈ R, ∀ n ∈ info, a.kw = some n.name → a = mkKw n.name n.value) →
    (∀ n ∈ info, n.addIfMissing = true → ∃ a ∈ R, a.kw = some n.name) →
    replaceArgs R info = R := by
  intro R
  induction R with
  | nil =>
    intro info _ _ h2
    simp only [replaceArgs, List.map_eq_nil_iff, List.filter_eq_nil_iff]
    intro n hn hadd
    obtain ⟨a, ha, _⟩ := h2 n hn hadd
    simp at ha
  | cons b t ih =>
    intro info hn h1 h2
    simp only [replaceArgs]
    cases hmi : matchIdx b info with
    | none =>
      simp only
      congr 1
      refine ih info hn (fun a ha => h1 a (List.mem_cons_of_mem _ ha)) ?_
      intro n hnm hadd
      obtain ⟨a, ha, hk⟩ := h2 n hnm hadd
      rcases List.mem_cons.mp ha with rfl | ha
      · exact absurd hk ((matchIdx_none_iff _ info).mp hmi n hnm)
      · exact ⟨a, ha, hk⟩
    | some i =>
      have hi := matchIdx_some b info i hmi
      have hmem : info.getD i ⟨"", "", false⟩ ∈ info := getD_mem _ info i hi.1
      simp only
      have hb := h1 b (List.mem_cons_self ..) _ hmem hi.2
      rw [← hb]
      congr 1
      refine ih _ (names_eraseIdx_nodup info i hn) (fun a ha n hnm => h1 a (List.mem_cons_of_mem _ ha) n (List.mem_of_mem_eraseIdx hnm)) ?_
      intro n hnm hadd
      obtain ⟨a, ha, hk⟩ := h2 n (List.mem_of_mem_eraseIdx hnm) hadd
      rcases List.mem_cons.mp ha with rfl | ha
      · -- the head carries the keyword of the specification it consumed, which is no longer in the list
        exfalso
        have hname : n.name = (info.getD i ⟨"", "", false⟩).name := by
          have := hi.2; rw [hk] at this; exact Option.some.inj this
        have := eq_of_name_eq info hn n (List.mem_of_mem_eraseIdx hnm) _ hmem hname
        exact getD_not_mem_eraseIdx info hn i hi.1 (this ▸ hnm)
      · exact ⟨a, ha, hk⟩

/-- where the arguments of the edited call come from, for calls with pairwise different keywords: an
argument no specification names, or a specified keyword argument -/
theorem mem_replaceArgs_origin' : ∀ (args : List Arg) (info : List NewArg), kwNodup args → (names info).Nodup →
    ∀ a ∈ replaceArgs args info, (a ∈ args ∧ ∀ n ∈ info, a.kw ≠ some n.name) ∨ ∃ m ∈ info, a = mkKw m.name m.value := by
  intro args
  induction args with
  | nil =>
    intro info _ _ a ha
    simp only [replaceArgs, List.mem_map, List.mem_filter] at ha
    obtain ⟨m, ⟨hm, _⟩, rfl⟩ := ha
    exact Or.inr ⟨m, hm, rfl⟩
  | cons b t ih =>
    intro info hd hn a ha
    simp only [replaceArgs] at ha
    cases hmi : matchIdx b info with
    | none =>
      simp only [hmi, List.mem_cons] at ha
      rcases ha with rfl | ha
      · exact Or.inl ⟨List.mem_cons_self .., (matchIdx_none_iff _ info).mp hmi⟩
      · rcases ih info (kwNodup_tail hd) hn a ha with ⟨h, hk⟩ | h
        · exact Or.inl ⟨List.mem_cons_of_mem _ h, hk⟩
        · exact Or.inr h
    | some i =>
      simp only [hmi, List.mem_cons] at ha
      have hi := matchIdx_some b info i hmi
      have hmem : info.getD i ⟨"", "", false⟩ ∈ info := getD_mem _ info i hi.1
      rcases ha with rfl | ha
      · exact Or.inr ⟨_, hmem, rfl⟩
      · rcases ih _ (kwNodup_tail hd) (names_eraseIdx_nodup info i hn) a ha with ⟨h, hk⟩ | ⟨m, hm, rfl⟩
        · refine Or.inl ⟨List.mem_cons_of_mem _ h, ?_⟩
          intro n hnm
          rcases mem_eraseIdx_or_eq ⟨"", "", false⟩ info i n hnm with h' | h'
          · exact hk n h'
          · -- the keyword of the head: no argument of the tail carries it
            intro hkn
            unfold kwNodup at hd
            simp only [List.filterMap_cons, hi.2, List.nodup_cons, List.mem_filterMap] at hd
            exact hd.1 ⟨a, h, by rw [hkn, h']⟩
        · exact Or.inr ⟨m, List.mem_of_mem_eraseIdx hm, rfl⟩

/-- every specification that is to be added is there after the edit -/
theorem replaceArgs_present : ∀ (args : List Arg) (info : List NewArg), ∀ n ∈ info, n.addIfMissing = true →
    ∃ a ∈ replaceArgs args info, a.kw = some n.name := by
  intro args
  induction args with
  | nil =>
    intro info n hn hadd
    exact ⟨mkKw n.name n.value, by simp only [replaceArgs, List.mem_map, List.mem_filter]; exact ⟨n, ⟨hn, hadd⟩, rfl⟩, rfl⟩
  | cons b t ih =>
    intro info n hn hadd
    simp only [replaceArgs]
    cases hmi : matchIdx b info with
    | none =>
      obtain ⟨a, ha, hk⟩ := ih info n hn hadd
      exact ⟨a, List.mem_cons_of_mem _ ha, hk⟩
    | some i =>
      rcases mem_eraseIdx_or_eq ⟨"", "", false⟩ info i n hn with h | h
      · obtain ⟨a, ha, hk⟩ := ih _ n h hadd
        exact ⟨a, List.mem_cons_of_mem _ ha, hk⟩
      · exact ⟨_, List.mem_cons_self .., by rw [h]; rfl⟩

/-- **C07 (argument editor, any specification list).** -/
theorem C07_replaceArgs_idem (args : List Arg) (info : List NewArg) (hd : kwNodup args) (hn : (names info).Nodup) :
    replaceArgs (replaceArgs args info) info = replaceArgs args info := by
  refine replaceArgs_fixed _ info hn ?_ (fun n hnm hadd => replaceArgs_present args info n hnm hadd)
  intro a ha n hnm hk
  rcases mem_replaceArgs_origin' args info hd hn a ha with ⟨_, hno⟩ | ⟨m, hm, rfl⟩
  · exact absurd hk (hno n hnm)
  · simp only [mkKw, Option.some.injEq] at hk
    rw [eq_of_name_eq info hn m hm n hnm hk]

-- non-vacuity: the three specifications of secure-flask-cookie on a call that spells two of them
example : kwNodup [⟨none, .none, "\"c\"", false⟩, ⟨some "secure", .none, "False", false⟩, ⟨some "httponly", .none, "False", false⟩] ∧
    (names [⟨"secure", "True", true⟩, ⟨"httponly", "True", true⟩, ⟨"samesite", "'Lax'", true⟩]).Nodup := by
  refine ⟨by unfold kwNodup; decide, by decide⟩

end CM.Args
