import CM.Model.Readers
import CM.Props.C12
/-!
# C12 — `detect_sarif_tools`: which result file is read for which tool

The three nested loops (files, detectors, runs) are one left fold over the events
`(file, tool, does this detector recognise this run)`. For that fold:
* it succeeds exactly when no tool is recognised twice (in two files, or in two runs of one file);
* when it succeeds, every recognised (tool, file) pair is in the result, in the order met, and nothing else.
-/
namespace CM.Readers
open CM.RS

/-- one event of the triple loop -/
abbrev Ev := String × String × Bool     -- file, tool name, hit

def stepEv (acc : AL (List String)) (e : Ev) : Except DetErr (AL (List String)) := detectStep e.1 acc e.2.1 e.2.2

/-- the events in loop order -/
def events (files : List (String × List (Option String))) : List Ev :=
  files.flatMap fun (fname, runs) => detectors.flatMap fun (name, det) => runs.map fun run => (fname, name, det run)

theorem foldlM_map_except {α β γ ε} (f : γ → β → Except ε γ) (g : α → β) (l : List α) (a : γ) :
    (l.map g).foldlM f a = l.foldlM (fun acc x => f acc (g x)) a := by
  induction l generalizing a with
  | nil => rfl
  | cons x t ih => simp only [List.map_cons, List.foldlM_cons]; cases f a (g x) <;> simp [bind, Except.bind, ih]

theorem foldlM_flatMap_except {α β γ ε} (f : γ → β → Except ε γ) (g : α → List β) (l : List α) (a : γ) :
    (l.flatMap g).foldlM f a = l.foldlM (fun acc x => (g x).foldlM f acc) a := by
  induction l generalizing a with
  | nil => rfl
  | cons x t ih =>
    simp only [List.flatMap_cons, List.foldlM_append, List.foldlM_cons]
    cases (g x).foldlM f a <;> simp [bind, Except.bind, ih]

/-- the nested loops are one fold over the events -/
theorem detectTools_eq_fold (files : List (String × List (Option String))) :
    detectTools files = (events files).foldlM stepEv [] := by
  unfold detectTools events
  rw [foldlM_flatMap_except]
  congr 1; funext acc x; obtain ⟨fname, runs⟩ := x
  simp only []
  rw [foldlM_flatMap_except]
  congr 1; funext acc2 y; obtain ⟨name, det⟩ := y
  simp only []
  rw [foldlM_map_except]
  rfl

/-- the (tool, file) pairs recognised, in loop order -/
def hits (evs : List Ev) : List (String × String) := (evs.filter (·.2.2)).map fun e => (e.2.1, e.1)

/-- the result for a duplicate-free list of hits: one entry per tool, holding its file -/
def asMap (hs : List (String × String)) : AL (List String) := hs.map fun (n, f) => (n, [f])

theorem keys_asMap (hs : List (String × String)) : keys (asMap hs) = hs.map (·.1) := by
  simp [keys, asMap, List.map_map, Function.comp_def]

theorem set_fresh {α} (l : AL α) (k : String) (v : α) (h : k ∉ keys l) : CM.RS.set l k v = l ++ [(k, v)] := by
  induction l with
  | nil => rfl
  | cons p t ih =>
    obtain ⟨k', v'⟩ := p
    simp only [keys, List.map_cons, List.mem_cons, not_or] at h
    have hne : (k' == k) = false := by simpa [beq_eq_false_iff_ne] using fun e => h.1 e.symm
    simp only [CM.RS.set, hne, Bool.false_eq_true, if_false, List.cons_append]
    exact congrArg _ (ih (by simpa [keys] using h.2))

/-- the fold from any duplicate-free intermediate state, when the remaining hits stay duplicate-free -/
theorem fold_from (evs : List Ev) (done : List (String × String))
    (hn : ((done ++ hits evs).map (·.1)).Nodup) :
    evs.foldlM stepEv (asMap done) = .ok (asMap (done ++ hits evs)) := by
  induction evs generalizing done with
  | nil => simp [hits, pure, Except.pure]
  | cons e t ih =>
    obtain ⟨f, n, hit⟩ := e
    simp only [List.foldlM_cons, stepEv, detectStep]
    cases hit with
    | false =>
      simp only [Bool.false_eq_true, if_false, bind, Except.bind]
      have : hits ((f, n, false) :: t) = hits t := by simp [hits]
      rw [this] at hn ⊢
      exact ih done hn
    | true =>
      have hh : hits ((f, n, true) :: t) = (n, f) :: hits t := by simp [hits]
      rw [hh] at hn ⊢
      have hfresh : n ∉ done.map (·.1) := by
        intro hm
        simp only [List.map_append, List.map_cons] at hn
        exact (List.nodup_append.mp hn).2.2 n hm n (by simp) rfl
      have hc : (keys (asMap done)).contains n = false := by
        rw [keys_asMap]; simpa using hfresh
      simp only [if_true, hc, Bool.false_eq_true, if_false, bind, Except.bind]
      have hg : getD (asMap done) n [] = [] := getD_none _ _ _ (by rw [keys_asMap]; exact hfresh)
      rw [hg, List.nil_append, set_fresh _ _ _ (by rw [keys_asMap]; exact hfresh)]
      have hdone' : asMap done ++ [(n, [f])] = asMap (done ++ [(n, f)]) := by simp [asMap]
      rw [hdone']
      have hn' : (((done ++ [(n, f)]) ++ hits t).map (·.1)).Nodup := by simpa [List.append_assoc] using hn
      have := ih (done ++ [(n, f)]) hn'
      simpa [List.append_assoc] using this

/-- a tool recognised a second time stops the fold with the duplicate-tool error -/
theorem fold_dup (evs : List Ev) (done : List (String × String)) (f n : String)
    (hmem : n ∈ done.map (·.1)) :
    ((f, n, true) :: evs).foldlM stepEv (asMap done) = .error (.duplicateTool n) := by
  have hc : n ∈ keys (asMap done) := by rw [keys_asMap]; exact hmem
  simp [List.foldlM_cons, stepEv, detectStep, hc, bind, Except.bind]

/-- as soon as some tool is recognised twice, the fold ends with the duplicate-tool error -/
theorem fold_error (evs : List Ev) (done : List (String × String))
    (hd : (done.map (·.1)).Nodup) (hnd : ¬ ((done ++ hits evs).map (·.1)).Nodup) :
    ∃ n, evs.foldlM stepEv (asMap done) = .error (.duplicateTool n) := by
  induction evs generalizing done with
  | nil => simp [hits] at hnd; exact absurd hd hnd
  | cons e t ih =>
    obtain ⟨f, n, hit⟩ := e
    cases hit with
    | false =>
      have : hits ((f, n, false) :: t) = hits t := by simp [hits]
      rw [this] at hnd
      simp only [List.foldlM_cons, stepEv, detectStep, Bool.false_eq_true, if_false, bind, Except.bind]
      exact ih done hd hnd
    | true =>
      by_cases hmem : n ∈ done.map (·.1)
      · exact ⟨n, fold_dup t done f n hmem⟩
      · have hh : hits ((f, n, true) :: t) = (n, f) :: hits t := by simp [hits]
        rw [hh] at hnd
        have hc : n ∉ keys (asMap done) := by rw [keys_asMap]; exact hmem
        have hg : getD (asMap done) n [] = [] := getD_none _ _ _ hc
        have hd' : ((done ++ [(n, f)]).map (·.1)).Nodup := by
          simp only [List.map_append, List.map_cons, List.map_nil]
          exact List.nodup_append.mpr ⟨hd, by simp, by intro a ha b hb; simp at hb; subst hb; exact fun e => hmem (e ▸ ha)⟩
        have hnd' : ¬ (((done ++ [(n, f)]) ++ hits t).map (·.1)).Nodup := by simpa [List.append_assoc] using hnd
        obtain ⟨m, hm⟩ := ih (done ++ [(n, f)]) hd' hnd'
        refine ⟨m, ?_⟩
        have hcb : (keys (asMap done)).contains n = false := by simpa using hc
        simp only [List.foldlM_cons, stepEv, detectStep, if_true, hcb, Bool.false_eq_true, if_false, bind, Except.bind]
        rw [hg, List.nil_append, set_fresh _ _ _ hc]
        have hdone' : asMap done ++ [(n, [f])] = asMap (done ++ [(n, f)]) := by simp [asMap]
        rw [hdone']; exact hm

/-- **C12 (SARIF files are attributed to their tools).** when no tool is recognised twice the files
are all read: the result lists every recognised (tool, file) pair, in loop order, and nothing else. -/
theorem C12_detect_reads_all (files : List (String × List (Option String)))
    (h : ((hits (events files)).map (·.1)).Nodup) :
    detectTools files = .ok (asMap (hits (events files))) := by
  rw [detectTools_eq_fold]
  have := fold_from (events files) [] (by simpa using h)
  simpa [asMap] using this

/-- every file in which a detector recognises a run is in the result, under that tool -/
theorem C12_detect_complete (files : List (String × List (Option String))) (m : AL (List String))
    (hok : detectTools files = .ok m)
    (h : ((hits (events files)).map (·.1)).Nodup)
    (fname name : String) (hhit : (fname, name, true) ∈ events files) :
    (name, [fname]) ∈ m := by
  rw [C12_detect_reads_all files h] at hok
  cases hok
  simp only [asMap, hits, List.mem_map, List.mem_filter]
  exact ⟨(name, fname), ⟨(fname, name, true), ⟨hhit, rfl⟩, rfl⟩, rfl⟩

/-- **C12 (a second result for a tool is refused).** the result is the duplicate-tool error exactly
when some tool is recognised by two runs (of one file or of two files). -/
theorem C12_detect_duplicate_iff (files : List (String × List (Option String))) :
    (∃ n, detectTools files = .error (.duplicateTool n)) ↔ ¬ ((hits (events files)).map (·.1)).Nodup := by
  constructor
  · rintro ⟨n, hn⟩ hnd
    rw [C12_detect_reads_all files hnd] at hn
    cases hn
  · intro hnd
    rw [detectTools_eq_fold]
    have := fold_error (events files) [] (by simp) (by simpa using hnd)
    simpa [asMap] using this

-- non-vacuity: a CodeQL file and a Semgrep file, each with a foreign run next to the recognised one
example : detectTools [("a.sarif", [some "Snyk", some "CodeQL"]), ("b.sarif", [none, some "Semgrep OSS"])]
    = .ok [("codeql", ["a.sarif"]), ("semgrep", ["b.sarif"])] := by rfl
example : detectTools [("a.sarif", [some "CodeQL"]), ("b.sarif", [some "Semgrep OSS"]), ("c.sarif", [some "CodeQL"])]
    = .error (.duplicateTool "codeql") := by rfl

end CM.Readers
