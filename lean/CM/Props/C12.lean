import CM.Model.ResultSet
/-!
# C12 — no finding is lost or altered between the result files and the codemods (merging part)

"None is dropped, duplicated or overwritten when files are combined, in whatever order they are
given" — `merge(R1..Rm) == multiset union, for both | and |= forms`.
-/
namespace CM.RS

theorem lookup_map_key {α} (ks : List String) (g : String → α) (k : String) :
    (ks.map fun k => (k, g k)).lookup k = if k ∈ ks then some (g k) else none := by
  induction ks with
  | nil => simp
  | cons h t ih =>
    simp only [List.map_cons, List.lookup_cons, List.mem_cons]
    by_cases hk : k = h
    · subst hk; simp
    · have : (k == h) = false := by simpa using hk
      simp [this, hk, ih]

theorem mem_keysUnion (a b : List String) (k : String) :
    k ∈ keysUnion a b ↔ (k ∈ a ∨ k ∈ b) := by
  simp only [keysUnion, List.contains_eq_mem, List.mem_append, List.mem_filter]
  by_cases ha : k ∈ a <;> by_cases hb : k ∈ b <;> simp [ha, hb]

theorem lookup_none_of_not_mem {α} (l : AL α) (k : String) (h : k ∉ keys l) :
    l.lookup k = none := by
  induction l with
  | nil => rfl
  | cons p t ih =>
    obtain ⟨k', v⟩ := p
    simp only [keys, List.map_cons, List.mem_cons, not_or] at h
    simp only [List.lookup_cons]
    have h1 : (k == k') = false := by simpa using h.1
    simp only [h1]
    exact ih (by simpa [keys] using h.2)

theorem getD_none {α} (l : AL α) (k : String) (d : α) (h : k ∉ keys l) : getD l k d = d := by
  simp [getD, lookup_none_of_not_mem l k h]

theorem getD_listDictOr {ρ} (d o : AL (List ρ)) (f : String) :
    getD (listDictOr d o) f [] = getD d f [] ++ getD o f [] := by
  unfold listDictOr
  conv => lhs; unfold getD
  rw [lookup_map_key]
  by_cases h : f ∈ keysUnion (keys o) (keys d)
  · simp [h, getD]
  · have h' := h
    rw [mem_keysUnion] at h'
    simp only [not_or] at h'
    simp [h, getD_none _ _ _ h'.1, getD_none _ _ _ h'.2]

/-- **C12.** `(a | b)[rule][file] == a[rule][file] + b[rule][file]` for all result sets — overlapping
keys, disjoint keys, empty sets: nothing dropped, duplicated or overwritten, order kept. -/
theorem C12_get_merge {ρ} (a b : RSet ρ) (r f : String) :
    get (merge a b) r f = get a r f ++ get b r f := by
  unfold get merge
  conv => lhs; arg 1; unfold getD
  rw [lookup_map_key]
  by_cases h : r ∈ keysUnion (keys a) (keys b)
  · simp only [h, if_true, Option.getD_some, getD_listDictOr]
    rfl
  · have h' := h
    rw [mem_keysUnion] at h'
    simp only [not_or] at h'
    simp only [h, if_false, Option.getD_none, getD_none _ _ _ h'.1, getD_none _ _ _ h'.2]
    rfl

/-- **C12.** the in-place form `|=` computes the same set as `|`. -/
theorem C12_imerge_eq_merge {ρ} (a b : RSet ρ) : imerge a b = merge a b := by
  simp [imerge]

theorem get_nil {ρ} (r f : String) : get ([] : RSet ρ) r f = [] := by
  simp [get, getD]

theorem get_foldl {ρ} (sets : List (RSet ρ)) (acc : RSet ρ) (r f : String) :
    get (sets.foldl imerge acc) r f = get acc r f ++ (sets.map (get · r f)).flatten := by
  induction sets generalizing acc with
  | nil => simp
  | cons s t ih =>
    simp only [List.foldl_cons, List.map_cons, List.flatten_cons]
    rw [ih, C12_imerge_eq_merge, C12_get_merge, List.append_assoc]

/-- **C12.** combining any number of result files with `|=` yields, for every rule and file, the
concatenation of the per-file findings in the order the files were given. -/
theorem C12_fold {ρ} (sets : List (RSet ρ)) (r f : String) :
    get (fold sets) r f = (sets.map (get · r f)).flatten := by
  simp [fold, get_foldl, get_nil]

/-- **C12.** "in whatever order they are given": permuting the files permutes the findings
(multiset union) — none lost, none duplicated. -/
theorem C12_perm {ρ} (s s' : List (RSet ρ)) (h : s.Perm s') (r f : String) :
    (get (fold s) r f).Perm (get (fold s') r f) := by
  rw [C12_fold, C12_fold]
  exact List.Perm.flatten (h.map _)

/-- **C12.** merging is associative on lookups. -/
theorem C12_merge_assoc {ρ} (a b c : RSet ρ) (r f : String) :
    get (merge (merge a b) c) r f = get (merge a (merge b c)) r f := by
  simp [C12_get_merge, List.append_assoc]

/-- the number of findings is additive (nothing duplicated or dropped) -/
theorem C12_length_merge {ρ} (a b : RSet ρ) (r f : String) :
    (get (merge a b) r f).length = (get a r f).length + (get b r f).length := by
  simp [C12_get_merge]

-- non-vacuity: overlapping and disjoint keys
example : get (merge [("r1", [("a.py", [1, 2])])] [("r1", [("a.py", [3]), ("b.py", [4])]), ("r2", [("a.py", [5])])])
    "r1" "a.py" = [1, 2, 3] := by decide
example : merge [("r1", [("a.py", [1])])] [("r2", [("b.py", [2])])]
    = [("r1", [("a.py", [1])]), ("r2", [("b.py", [2])])] := by decide

end CM.RS
