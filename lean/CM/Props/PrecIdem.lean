import CM.Model.Prec

/-!
# A second application is a no-op (C07) — the expression rewrites of `CM.Prec`

`combine` (combine-startswith-endswith / combine-isinstance-issubclass): for **every** tree the pass
reaches a normal form in one application (`C07_combine_idempotent`).

`invert` (invert-boolean-check): likewise for every tree (`C07_invert_idempotent`). Before the fix
`not (<comparison> is True)` became `not <comparison>`, which a second application flipped
(`C07_invert_old_second_pass_changes`); the step now negates the inner comparison itself.
-/
namespace CM.Prec
open E

/-! ## combine -/

theorem combineStep_of_not_folds (kp : Bool) (e : E) (h : foldsHere e = false) : combineStep kp e = e := by
  unfold combineStep
  unfold foldsHere at h
  split
  · split <;> simp_all
  · rfl

theorem NF_fixed (kp : Bool) : ∀ e, NF e = true → combine kp e = e := by
  intro e
  induction e with
  | atom | call => intro _; rfl
  | neg x p ih | lnot x p ih => intro h; simp [NF] at h; simp [combine, ih h]
  | bin k l r p ihl ihr =>
    intro h; simp [NF] at h
    simp only [combine, ihl h.1.1, ihr h.1.2]
    exact combineStep_of_not_folds kp _ h.2
  | cmp o l r p ihl ihr => intro h; simp [NF] at h; simp [combine, ihl h.1, ihr h.2]
  | chain l a x c r p ihl ihx ihr => intro h; simp [NF] at h; simp [combine, ihl h.1.1, ihx h.1.2, ihr h.2]
  | ifx t c f p iht ihc ihf => intro h; simp [NF] at h; simp [combine, iht h.1.1, ihc h.1.2, ihf h.2]
  | named n v p ih => intro h; simp [NF] at h; simp [combine, ih h]
  | tup a b p iha ihb => intro h; simp [NF] at h; simp [combine, iha h.1, ihb h.2]

theorem foldsHere_and (l r : E) (p : Bool) : foldsHere (bin .and l r p) = false := by simp [foldsHere]
theorem foldsHere_arith (l r : E) (p : Bool) : foldsHere (bin .arith l r p) = false := by simp [foldsHere]

/-- only the receiver of a call operand matters (left operand) -/
theorem foldsHere_callL (r : String) (a a' : List String) (q q' p p' : Bool) (x : E) :
    foldsHere (bin .or (call r a q) x p) = foldsHere (bin .or (call r a' q') x p') := by
  cases x with
  | bin k l rr pp => cases l <;> simp [foldsHere]
  | _ => simp [foldsHere]

/-- only the receiver of a call operand matters (right operand) -/
theorem foldsHere_callR (r : String) (a a' : List String) (q q' p p' : Bool) (x : E) :
    foldsHere (bin .or x (call r a q) p) = foldsHere (bin .or x (call r a' q') p') := by
  cases x with
  | bin k l rr pp => cases rr <;> simp [foldsHere]
  | _ => simp [foldsHere]

theorem NF_bin {k : BK} {l r : E} {p : Bool} (h : NF (bin k l r p) = true) :
    NF l = true ∧ NF r = true ∧ foldsHere (bin k l r p) = false := by
  simp [NF] at h; exact ⟨h.1.1, h.1.2, h.2⟩

theorem NF_bin_mk {k : BK} {l r : E} {p : Bool} (hl : NF l = true) (hr : NF r = true)
    (hf : foldsHere (bin k l r p) = false) : NF (bin k l r p) = true := by
  simp [NF, hl, hr, hf]

/-- the node the step writes is in normal form when the children are: the two folds put the combined
call where a call with the same receiver stood, so no new fold shape appears at the node itself -/
theorem combineStep_NF (kp : Bool) (k : BK) (l r : E) (p : Bool) (hl : NF l = true) (hr : NF r = true) :
    NF (combineStep kp (bin k l r p)) = true := by
  by_cases hf : foldsHere (bin k l r p) = false
  · rw [combineStep_of_not_folds kp _ hf]; exact NF_bin_mk hl hr hf
  · -- the node folds: one of the three shapes
    unfold combineStep
    split
    · rename_i l' r' p' heq
      cases heq
      split
      · split
        · simp [combineCalls, NF]
        · exact absurd (by simp_all [foldsHere]) hf
      · rename_i r₁ p₁ q₁ k' r₂ p₂ q₂ rr q₃
        split
        · rename_i hc
          simp at hc
          obtain ⟨_, hrr, hnf⟩ := NF_bin hr
          refine NF_bin_mk (by simp [combineCalls, NF]) hrr ?_
          cases k' with
          | and => exact foldsHere_and ..
          | arith => exact foldsHere_arith ..
          | or => rw [combineCalls, hc.2, foldsHere_callL r₂ _ p₂ false q₂ _ q₃]; exact hnf
        · exact absurd (by simp_all [foldsHere]) hf
      · rename_i k' ll r₁ p₁ q₁ q₃ r₂ p₂ q₂
        split
        · rename_i hc
          simp at hc
          obtain ⟨hll, _, hnf⟩ := NF_bin hl
          refine NF_bin_mk hll (by simp [combineCalls, NF]) ?_
          cases k' with
          | and => exact foldsHere_and ..
          | arith => exact foldsHere_arith ..
          | or => rw [combineCalls, foldsHere_callR r₁ _ p₁ false q₁ _ q₃]; exact hnf
        · exact absurd (by simp_all [foldsHere]) hf
      · rename_i h1 h2 h3
        exfalso
        unfold foldsHere at hf
        split at hf
        · rename_i heq; cases heq; apply h1 <;> rfl
        · rename_i heq; cases heq; apply h2 <;> rfl
        · rename_i heq; cases heq; apply h3 <;> rfl
        · exact hf rfl
    · rename_i h1
      exfalso
      cases k with
      | and => exact hf (foldsHere_and ..)
      | arith => exact hf (foldsHere_arith ..)
      | or => exact h1 _ _ _ rfl

theorem combine_NF (kp : Bool) : ∀ e, NF (combine kp e) = true := by
  intro e
  induction e with
  | atom | call => rfl
  | neg x p ih | lnot x p ih => simpa [combine, NF] using ih
  | bin k l r p ihl ihr => simpa [combine] using combineStep_NF kp k _ _ p ihl ihr
  | cmp o l r p ihl ihr => simp [combine, NF, ihl, ihr]
  | chain l a x c r p ihl ihx ihr => simp [combine, NF, ihl, ihx, ihr]
  | ifx t c f p iht ihc ihf => simp [combine, NF, iht, ihc, ihf]
  | named n v p ih => simpa [combine, NF] using ih
  | tup a b p iha ihb => simp [combine, NF, iha, ihb]

/-- C07 for the combine codemods, every tree: the second application changes nothing -/
theorem C07_combine_idempotent (kp : Bool) (e : E) : combine kp (combine kp e) = combine kp e :=
  NF_fixed kp _ (combine_NF kp e)

/-- non-vacuity: a tree on which the first application does fold (three calls, two folds) -/
example : combine true (bin .or (bin .or (call "a" ["x"] false) (call "a" ["y"] false) false) (call "a" ["z"] false) false)
    = call "a" ["x", "y", "z"] false := by decide

/-! ## invert -/

theorem invertStep_of_not_cmp (kp : Bool) (x : E) (p : Bool) (h : isCmp x = false) :
    invertStep kp (lnot x p) = lnot x p := by
  cases x <;> simp_all [invertStep, isCmp]

theorem NFi_fixed (kp : Bool) : ∀ e, NFi e = true → invert kp e = e := by
  intro e
  induction e with
  | atom | call => intro _; rfl
  | neg x p ih => intro h; simp [NFi] at h; simp [invert, ih h]
  | lnot x p ih =>
    intro h; simp [NFi] at h
    simp only [invert, ih h.1]
    exact invertStep_of_not_cmp kp x p h.2
  | bin k l r p ihl ihr => intro h; simp [NFi] at h; simp [invert, ihl h.1, ihr h.2]
  | cmp o l r p ihl ihr => intro h; simp [NFi] at h; simp [invert, ihl h.1, ihr h.2]
  | chain l a x c r p ihl ihx ihr => intro h; simp [NFi] at h; simp [invert, ihl h.1.1, ihx h.1.2, ihr h.2]
  | ifx t c f p iht ihc ihf => intro h; simp [NFi] at h; simp [invert, iht h.1.1, ihc h.1.2, ihf h.2]
  | named n v p ih => intro h; simp [NFi] at h; simp [invert, ih h]
  | tup a b p iha ihb => intro h; simp [NFi] at h; simp [invert, iha h.1, ihb h.2]

theorem NFi_setPar (b : Bool) : ∀ e, NFi (e.setPar b) = NFi e := by
  intro e; cases e <;> simp [setPar, NFi]

/-- the negation the step writes is in normal form when the operands are: `not (<comparison> is True)`
becomes the negated inner comparison, never `not <comparison>` -/
theorem newComparison_NFi : ∀ (l : E) (op : Cop) (r : E), NFi l = true → NFi r = true →
    NFi (newComparison op l r) = true := by
  intro l
  induction l with
  | cmp op' l' r' q ihl ihr =>
    intro op r hl hr
    unfold newComparison
    split
    · simp only [NFi, Bool.and_eq_true] at hl
      exact ihl op' r' hl.1 hl.2
    · exact hl
    · simp only [NFi, Bool.and_eq_true] at hl ⊢; exact ⟨hl, hr⟩
  | _ =>
    intro op r hl hr
    unfold newComparison
    split
    · simp_all [NFi, isCmp]
    · exact hl
    · simp_all [NFi]

theorem invertStep_NFi (x : E) (p : Bool) (hx : NFi x = true) : NFi (invertStep true (lnot x p)) = true := by
  cases x with
  | cmp op l r q =>
    simp only [NFi, Bool.and_eq_true] at hx
    simp only [invertStep, if_true, addPar, NFi_setPar]
    exact newComparison_NFi l op r hx.1 hx.2
  | _ => simp_all [invertStep, NFi, isCmp]

theorem invert_NFi : ∀ e, NFi (invert true e) = true := by
  intro e
  induction e with
  | atom | call => rfl
  | neg x p ih => simpa [invert, NFi] using ih
  | lnot x p ih => simp only [invert]; exact invertStep_NFi _ p ih
  | bin k l r p ihl ihr => simp [invert, NFi, ihl, ihr]
  | cmp o l r p ihl ihr => simp [invert, NFi, ihl, ihr]
  | chain l a x c r p ihl ihx ihr => simp [invert, NFi, ihl, ihx, ihr]
  | ifx t c f p iht ihc ihf => simp [invert, NFi, iht, ihc, ihf]
  | named n v p ih => simpa [invert, NFi] using ih
  | tup a b p iha ihb => simp [invert, NFi, iha, ihb]

/-- C07 for invert-boolean-check, every tree: the second application changes nothing -/
theorem C07_invert_idempotent (e : E) : invert true (invert true e) = invert true e :=
  NFi_fixed true _ (invert_NFi e)

/-- non-vacuity: a tree the first application does rewrite -/
example : invert true (lnot (lnot (cmp .eq (atom "a" false) (atom "b" false) true) true) false)
      = cmp .eq (atom "a" false) (atom "b" false) false := by decide

/-- **the code before the fix**, `not ((a == b) is True)`: the first application wrote `not (a == b)`,
the second `a != b`; now the first application writes `a != b` -/
theorem C07_invert_old_second_pass_changes :
    let e := lnot (cmp .is_ (cmp .eq (atom "a" false) (atom "b" false) true) (atom "True" false) true) false
    invertShallow e = lnot (cmp .eq (atom "a" false) (atom "b" false) true) false ∧
    invertShallow (invertShallow e) = cmp .ne (atom "a" false) (atom "b" false) false ∧
    invert true e = cmp .ne (atom "a" false) (atom "b" false) false := by decide

end CM.Prec
