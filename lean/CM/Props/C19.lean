import CM.Model.LinePipe
import CM.Model.XmlEv
set_option linter.unusedSimpArgs false
/-!
# C19 — regex and XML pipelines edit only their targets and preserve everything else
-/
namespace CM.LinePipe

/-- **C19 (regex).** the output has as many lines as the input and line `i` of the output is `sub` of
line `i` of the input: a line the pattern does not change is byte-identical. -/
theorem C19_regex_lines (sub : Line → Line) (rs : List Res) (lines : List Line) :
    (regexApply sub rs lines).2.length = lines.length ∧
    ∀ i : Nat, (regexApply sub rs lines).2[i]? = (lines[i]?).map sub := by
  simp [regexApply]

theorem C19_regex_other_lines (sub : Line → Line) (rs : List Res) (lines : List Line) (i : Nat) (l : Line)
    (h : lines[i]? = some l) (hs : sub l = l) : (regexApply sub rs lines).2[i]? = some l := by
  simp [regexApply, h, hs]

/-- **C19 (regex).** the changes are exactly the edited lines, numbered from 1, in order. -/
theorem C19_regex_changes_eq_edits (sub : Line → Line) (rs : List Res) (lines : List Line) :
    (regexApply sub rs lines).1.map (·.line)
      = (lines.zipIdx 1).filterMap fun (l, i) => if sub l ≠ l then some i else none := by
  simp only [regexApply, List.map_filterMap]
  congr 1
  funext ⟨l, i⟩
  by_cases h : sub l = l <;> simp [h]

/-- **C19 (regex).** every change carries exactly the findings whose range covers the changed
(1-based) line. -/
theorem C19_findings_at_line (sub : Line → Line) (rs : List Res) (lines : List Line) (c : Change)
    (h : c ∈ (regexApply sub rs lines).1) : c.findings = findingsFor rs c.line := by
  simp only [regexApply, List.mem_filterMap] at h
  obtain ⟨⟨l, i⟩, _, hc⟩ := h
  by_cases hs : sub l = l
  · simp [hs] at hc
  · simp only [ne_eq, hs, not_false_eq_true, if_true, Option.some.injEq] at hc
    subst hc; rfl

/-- **C19 (SAST-driven regex).** only lines on which a finding starts can differ from the input. -/
theorem C19_sast_only_finding_lines (sub : Line → Line) (rs : List Res) (hne : rs ≠ []) (lines : List Line) (i : Nat) (l : Line)
    (h : lines[i]? = some l) (hno : (i + 1) ∉ rs.flatMap (fun r => r.locs.map (·.1))) :
    (sastRegexApply sub (some rs) lines).2.1[i]? = some l := by
  cases rs with
  | nil => exact absurd rfl hne
  | cons r t =>
    simp only [sastRegexApply, Option.getD_some]
    rw [List.getElem?_map, List.getElem?_zipIdx, h]
    have : ((r :: t).flatMap fun r => r.locs.map (·.1)).contains (1 + i) = false := by
      simp only [List.contains_eq_mem, decide_eq_false_iff_not]
      rw [Nat.add_comm]; exact hno
    simp only [Option.map_some, this, Bool.false_eq_true, if_false]

/-- **C19 (SAST-driven regex).** changed and unfixed lines are disjoint, both are finding lines. -/
theorem C19_sast_changes_on_finding_lines (sub : Line → Line) (rs : Option (List Res)) (lines : List Line) (c : Change)
    (h : c ∈ (sastRegexApply sub rs lines).1) :
    c.line ∈ (rs.getD []).flatMap (fun r => r.locs.map (·.1)) ∧ c.findings = findingsFor (rs.getD []) c.line := by
  unfold sastRegexApply at h
  split at h
  · simp at h
  · simp only [List.mem_filterMap] at h
    obtain ⟨⟨l, i⟩, _, hc⟩ := h
    by_cases hm : ((rs.getD []).flatMap fun r => r.locs.map (·.1)).contains i = true
    · by_cases hs : sub l = l
      · simp only [hm, ne_eq, hs, not_true_eq_false, decide_false, Bool.and_false, Bool.false_eq_true, if_false] at hc
        exact absurd hc (by simp)
      · simp only [hm, ne_eq, hs, not_false_eq_true, decide_true, Bool.and_self, if_true, Option.some.injEq] at hc
        subst hc
        exact ⟨by simpa using hm, rfl⟩
    · simp only [hm, Bool.false_and, Bool.false_eq_true, if_false] at hc
      exact absurd hc (by simp)

/-- **C19 (dry-run, no-op).** nothing is written without a change, and nothing differs under dry-run. -/
theorem C19_pipe_write (dry : Bool) (changes : List Change) (upd orig : List Line) :
    (changes = [] → (pipeApply dry changes upd orig).1 = none) ∧
    (dry = true → ∀ w, (pipeApply dry changes upd orig).1 = some w → w = orig) := by
  constructor
  · intro h; simp [pipeApply, h]
  · intro h w hw
    unfold pipeApply at hw
    by_cases hc : changes.isEmpty = true
    · simp [hc] at hw
    · simp only [hc, Bool.false_eq_true, if_false, h, if_true, Option.some.injEq] at hw
      exact hw.symm

-- non-vacuity
example : regexApply (fun l => if l == "http://x\n" then "https://x\n" else l) [⟨some "F", [(2, 2)]⟩] ["a\n", "http://x\n", "b\n"]
    = ([⟨2, ["F"]⟩], ["a\n", "https://x\n", "b\n"]) := by decide

end CM.LinePipe

namespace CM.XmlEv

/-- what the attribute transformer does to one event -/
def attrMap1 (m : List (String × Attrs)) (rs : Option (List (List Loc))) (lo : Bool) : Ev → Ev
  | .startElem n attrs line col =>
    match (if matchResult rs lo line col then m.lookup n else none) with
    | some new => Ev.startElem n (mergeAttrs attrs new) line col
    | none => Ev.startElem n attrs line col
  | e => e

/-- **C19 (XML, attributes).** the attribute transformer is a pointwise map on the event stream: one
output event per input event; every event that is not the start tag of a targeted, matched element is
identical; a targeted start tag keeps its name and position and gets its attributes overridden. -/
theorem C19_xml_attr_events (m : List (String × Attrs)) (rs : Option (List (List Loc))) (lo : Bool) (evs : List Ev) :
    (attrTransform m rs lo evs).1 = evs.map (attrMap1 m rs lo) := by
  induction evs with
  | nil => rfl
  | cons e t ih =>
    cases e <;> simp only [attrTransform, List.map_cons, ih, attrMap1]
    rename_i n attrs line col
    cases (if matchResult rs lo line col = true then List.lookup n m else none) <;> simp [ih]

/-- an untargeted or unmatched event is untouched -/
theorem C19_xml_attr_other (m : List (String × Attrs)) (rs : Option (List (List Loc))) (lo : Bool) (e : Ev)
    (h : ∀ n attrs line col, e = .startElem n attrs line col → m.lookup n = none ∨ matchResult rs lo line col = false) :
    attrMap1 m rs lo e = e := by
  cases e <;> simp only [attrMap1]
  rename_i n attrs line col
  rcases h n attrs line col rfl with h1 | h1 <;> simp [h1]

/-- attributes not named in the map are kept, in order, with their values -/
theorem C19_mergeAttrs_keeps (a new : Attrs) (k v : String) (h : (k, v) ∈ a) (hk : new.lookup k = none) :
    (k, v) ∈ mergeAttrs a new := by
  simp only [mergeAttrs, List.mem_append, List.mem_map]
  left
  exact ⟨(k, v), h, by simp [hk]⟩

/-- **C19 (XML, new elements).** removing the inserted triples gives back the input: the new-element
transformer only inserts `<name attrs>content</name>` right before the end tag of a parent. -/
theorem C19_xml_newel_no_parent (news : List NewEl) (evs : List Ev)
    (h : ∀ e ∈ evs, ∀ n line, e = .endElem n line → ∀ x ∈ news, x.parent ≠ n) :
    newElTransform news evs = (evs, []) := by
  induction evs with
  | nil => rfl
  | cons e t ih =>
    have iht := ih (fun e' he' => h e' (List.mem_cons_of_mem _ he'))
    cases e <;> simp only [newElTransform, iht]
    rename_i n line
    have : news.filter (fun x => x.parent == n) = [] := by
      simp only [List.filter_eq_nil_iff, beq_iff_eq]
      intro x hx
      exact h (.endElem n line) (by simp) n line rfl x hx
    simp [this]

theorem unescapeL_cons_ne (c : Char) (t : List Char) (h : c ≠ '&') : unescapeL (c :: t) = c :: unescapeL t := by
  conv => lhs; unfold unescapeL
  split <;> simp_all

/-- **C19 (character data round trip).** what a parser reads back from the escaped text is the
original text, for every string: escaping loses nothing and adds nothing. -/
theorem C19_escape_roundtrip (l : List Char) : unescapeL (escapeL l) = l := by
  induction l with
  | nil => rfl
  | cons c t ih =>
    simp only [escapeL]
    by_cases h1 : c = '&'
    · subst h1; simp [unescapeL, ih]
    · by_cases h2 : c = '>'
      · subst h2; simp [unescapeL, ih]
      · by_cases h3 : c = '<'
        · subst h3; simp [unescapeL, ih]
        · simp only [h1, h2, h3, if_false, List.singleton_append]
          rw [unescapeL_cons_ne c _ h1, ih]

/-- **C19 (CDATA).** the content of a CDATA section is written back literally, for every content. -/
theorem C19_cdata_preserved (s : String) :
    ser [.startCDATA, .chars s, .endCDATA] = "<![CDATA[" ++ (s ++ ("]]>" ++ "")) := by
  simp [ser, serFrom, ser1]

/-- **C19 (DOCTYPE).** the declaration is re-emitted with exactly the identifiers it had. -/
theorem C19_dtd_forms (n p s' : String) :
    ser [.startDTD n none none] = "<!DOCTYPE " ++ n ++ "" ++ ">\n" ++ "" ∧
    ser [.startDTD n none (some s')] = "<!DOCTYPE " ++ n ++ (" SYSTEM \"" ++ s' ++ "\"") ++ ">\n" ++ "" ∧
    ser [.startDTD n (some p) (some s')] = "<!DOCTYPE " ++ n ++ (" PUBLIC \"" ++ p ++ "\" \"" ++ s' ++ "\"") ++ ">\n" ++ "" := by
  simp [ser, serFrom, ser1, optStr]

-- non-vacuity
example : (attrTransform [("b", [("x", "2"), ("z", "3")])] none false
    [.startDoc, .startElem "a" [] 1 0, .startElem "b" [("x", "1"), ("y", "q")] 2 2, .endElem "b" 2, .endElem "a" 3, .endDoc]).1
    = [.startDoc, .startElem "a" [] 1 0, .startElem "b" [("x", "2"), ("y", "q"), ("z", "3")] 2 2, .endElem "b" 2, .endElem "a" 3, .endDoc] := by decide

end CM.XmlEv
