import CM.Props.Pipeline
set_option linter.unusedSimpArgs false
/-!
# C09 — a multi-codemod run equals running the same codemods one at a time

The batch run is `ks.foldl (applyOne cfg ctxB)` where `ctxB.prefilter` was computed once, on the
initial world, with the rules of *all* semgrep-detected codemods of the run. Running the codemods one
at a time recomputes the prefilter for the single codemod on the world as it is then
(`ctxOf K w`). Everything else a codemod reads is its own accumulator entry and the world.
-/
namespace CM.Pipeline

/-- the context of a single-codemod invocation on world `w` -/
def ctxFor (ctx : Ctx) (K : Codemod) (w : World) : Ctx :=
  { ctx with prefilter := prefilterOf ctx.ffPaths [K] w }

/-- one at a time, on the evolving tree -/
def seqRun (cfg : Cfg) (ctx : Ctx) (ks : List Codemod) (st : St) : St :=
  ks.foldl (fun st K => applyOne cfg (ctxFor ctx K st.world) st K) st

/-- **C09.** detector-less and SAST-driven codemods do not look at the prefilter at all -/
theorem C09_plan_prefilter_irrelevant (ctx : Ctx) (pf : List (String × List Path)) (K : Codemod) (w : World)
    (h : K.det ≠ .semgrep) : plan { ctx with prefilter := pf } K w = plan ctx K w := by
  unfold plan
  cases hk : K.det with
  | semgrep => exact absurd hk h
  | none => rfl
  | sast => rfl

/-- a codemod's effect depends on the context only through its plan (and the diff function) -/
theorem C09_applyOne_congr (cfg : Cfg) (ctx ctx' : Ctx) (st : St) (K : Codemod)
    (hp : plan ctx K st.world = plan ctx' K st.world) (hd : ctx.diff = ctx'.diff) :
    applyOne cfg ctx st K = applyOne cfg ctx' st K := by
  unfold applyOne
  rw [hp]
  have : ∀ files, applyFiles cfg ctx K st files = applyFiles cfg ctx' K st files := by
    intro files
    unfold applyFiles fileResults
    have : ∀ p c fs, processFile ctx K p c fs = processFile ctx' K p c fs := by
      intro p c fs; unfold processFile; rw [hd]
    simp only [this]
  cases plan ctx' K st.world with
  | none => rfl
  | some files => simp only [this]

/-- "the analysis precomputed for the batch does not alter any codemod's plan", along the states the
batch run actually goes through -/
def StableAlong (cfg : Cfg) (ctx : Ctx) : List Codemod → St → Prop
  | [], _ => True
  | K :: t, st =>
    plan ctx K st.world = plan (ctxFor ctx K st.world) K st.world ∧ StableAlong cfg ctx t (applyOne cfg ctx st K)

/-- **C09 (partial: under prefilter stability).** If along the run no codemod's plan is altered by the
prefilter computed for the whole batch, then the batch run and the one-at-a-time run go through the
same states: same world, same per-codemod changes, failures, unfixed findings and dependency
updates. Missing for the full statement: `StableAlong` is not guaranteed by the code
(`C09_prefilter_full_fails`). -/
theorem C09_batch_eq_seq (cfg : Cfg) (ctx : Ctx) (ks : List Codemod) (st : St) (h : StableAlong cfg ctx ks st) :
    ks.foldl (applyOne cfg ctx) st = seqRun cfg ctx ks st := by
  unfold seqRun
  induction ks generalizing st with
  | nil => rfl
  | cons K t ih =>
    simp only [List.foldl_cons]
    obtain ⟨h1, h2⟩ := h
    have e : applyOne cfg ctx st K = applyOne cfg (ctxFor ctx K st.world) st K :=
      C09_applyOne_congr cfg ctx (ctxFor ctx K st.world) st K h1 rfl
    rw [← e]
    exact ih _ h2

/-- runs without semgrep-detected codemods are always stable -/
theorem C09_stable_of_no_semgrep (cfg : Cfg) (ctx : Ctx) (ks : List Codemod) (st : St)
    (h : ∀ K ∈ ks, K.det ≠ .semgrep) : StableAlong cfg ctx ks st := by
  induction ks generalizing st with
  | nil => trivial
  | cons K t ih =>
    refine ⟨?_, ih _ (fun K' hK' => h K' (List.mem_cons_of_mem _ hK'))⟩
    exact (C09_plan_prefilter_irrelevant ctx _ K st.world (h K (List.mem_cons_self))).symm

theorem getAcc_processDeps_other (cfg : Cfg) (id id' : String) (st : St) (h : id' ≠ id) :
    getAcc (processDeps cfg id st).accs id' = getAcc st.accs id' := by
  unfold processDeps
  simp only
  split
  · rfl
  · cases writeStores cfg st.world (getAcc st.accs id).deps st.stores with
    | mk s r =>
      cases r with
      | none => simp [getAcc_setAcc_other _ _ _ _ h]
      | some x => obtain ⟨w', cs, sp⟩ := x; simp [getAcc_setAcc_other _ _ _ _ h]

/-- **C09 (no state leaks between codemods).** A codemod reads and writes the per-codemod
dictionaries of the context only at its own id: every other codemod's changes, failures, unfixed
findings and dependency record are untouched. -/
theorem C09_accs_disjoint (cfg : Cfg) (ctx : Ctx) (st : St) (K : Codemod) (id' : String) (h : id' ≠ K.id) :
    getAcc (applyOne cfg ctx st K).accs id' = getAcc st.accs id' := by
  unfold applyOne
  rw [getAcc_processDeps_other cfg K.id id' _ h]
  split
  · rfl
  · simp [applyFiles, getAcc_setAcc_other _ _ _ _ h]

/-- **C09 (full statement, FALSE on the unchanged code).** Witness: A (no detector) rewrites "f" to
"g"; B's semgrep rule matches "g"; C's rule matches "c" (so the batch prefilter is not empty and
does not contain B). The batch run skips B; run one at a time, B rewrites the file A produced. -/
theorem C09_prefilter_full_fails :
    ∃ (cfg : Cfg) (ctx : Ctx) (ks : List Codemod) (st : St),
      (ks.foldl (applyOne cfg { ctx with prefilter := prefilterOf ctx.ffPaths ks st.world }) st).world
        ≠ (seqRun cfg ctx ks st).world := by
  let mk (id : String) (det : Det) (tok to : String) : Codemod :=
    { id := id, name := id, det := det, ext := fun _ => true,
      detect := fun _ c => if c == tok then [⟨id, id, 1⟩] else [],
      transform := fun _ c _ => if c == tok then .ran to [⟨1, "d", []⟩] [] else .ran c [] [] }
  refine ⟨⟨false⟩,
    { ffPaths := ["a.py", "c.py"], allFiles := ["a.py", "c.py"], sastFilter := id, prefilter := [],
      diff := fun a b => if a == b then "" else "D" },
    [mk "A" .none "f" "g", mk "B" .semgrep "g" "h", mk "C" .semgrep "c" "c"],
    { world := [("a.py", "f"), ("c.py", "c")], accs := [], stores := [] }, ?_⟩
  decide

-- non-vacuity of the stability hypothesis: two detector-less codemods
example : StableAlong ⟨false⟩
    { ffPaths := ["a.py"], allFiles := ["a.py"], sastFilter := id, prefilter := [], diff := fun a b => if a == b then "" else "D" }
    [{ id := "A", name := "A", det := .none, ext := fun _ => true, detect := fun _ _ => [], transform := fun _ c _ => .ran (c ++ "!") [⟨1, "d", []⟩] [] }]
    { world := [("a.py", "x")], accs := [], stores := [] } :=
  C09_stable_of_no_semgrep _ _ _ _ (by intro K hK; simp at hK; subst hK; simp)

end CM.Pipeline
