import CM.Model.Location
import CM.Model.Select
import CM.Generated.PredsEq
set_option linter.unusedSimpArgs false
/-!
# C13 — line-level include/exclude is honoured; C06 — position matching (selection core)

`permitted E I L` is the reading of the property: a line is permitted iff it is not excluded and,
when specific lines are included, it is one of them.
-/
namespace CM.Location

/-- the property's notion: line `L` may be rewritten -/
def permitted (E I : List Int) (L : Int) : Prop := L ∉ E ∧ (I = [] ∨ L ∈ I)

theorem any_matchLine_iff (p : Pos) (ls : List Int) :
    ls.any (matchLine p) = true ↔ p.sl = p.el ∧ p.sl ∈ ls := by
  simp only [List.any_eq_true, matchLine, Bool.and_eq_true, beq_iff_eq]
  constructor
  · rintro ⟨x, hx, h1, h2⟩; exact ⟨by omega, by rw [h1]; exact hx⟩
  · rintro ⟨h1, h2⟩; exact ⟨p.sl, h2, rfl, h1.symm⟩

/-- what the code computes, for every node position: with excludes present only the excludes count -/
theorem C13_filter_as_is (E I : List Int) (p : Pos) :
    lineFilter E I p = true ↔
      (E ≠ [] ∧ ¬ (E.any (matchLine p) = true)) ∨ (E = [] ∧ (I = [] ∨ I.any (matchLine p) = true)) := by
  unfold lineFilter
  cases E with
  | nil => cases I <;> simp
  | cons a t => simp

/-- **C13 (full statement, FALSE on the unchanged code).** The property demands: a single-line node
passes the filter iff its line is permitted (not excluded, and included when includes are given).
Witness: excludes {1}, includes {3}, a node on line 4 — not included, yet it passes the filter
(known finding, replayed on the implementation on every run). -/
theorem C13_permitted_spec_full_fails :
    ∃ (E I : List Int) (p : Pos) (L : Int), p.sl = L ∧ p.el = L ∧
      ¬ (lineFilter E I p = true ↔ permitted E I L) :=
  ⟨[1], [3], ⟨4, 0, 4, 5⟩, 4, rfl, rfl, by
    intro h
    have := (h.mp (by decide)).2
    simp at this⟩

/-- **C13 (partial).** When the file has line excludes only, or line includes only (or neither), a
single-line node passes the filter iff its line is permitted. Missing for the full statement: the
case where both kinds are given for the same file (the includes are then ignored). -/
theorem C13_single_line_partial (E I : List Int) (p : Pos) (L : Int) (h1 : p.sl = L) (h2 : p.el = L)
    (h : E = [] ∨ I = []) : lineFilter E I p = true ↔ permitted E I L := by
  rw [C13_filter_as_is, any_matchLine_iff, any_matchLine_iff]
  subst h1
  rcases h with rfl | rfl
  · simp [permitted, h2.symm]
  · cases E with
    | nil => simp [permitted]
    | cons a t => simp [permitted, h2.symm]

/-- **C13.** a node on an excluded line is never selected, whatever the results and the includes say. -/
theorem C13_excluded_not_selected (v : Variant) (t : Bool) (rs : Option (List (List Loc))) (E I : List Int)
    (p : Pos) (L : Int) (h1 : p.sl = L) (h2 : p.el = L) (hL : L ∈ E) :
    nodeIsSelected v t rs E I p = false := by
  have hf : lineFilter E I p = false := by
    cases h : lineFilter E I p with
    | false => rfl
    | true =>
      rw [C13_filter_as_is, any_matchLine_iff] at h
      subst h1
      rcases h with ⟨_, hn⟩ | ⟨he, _⟩
      · exact absurd ⟨h2.symm, hL⟩ hn
      · subst he; simp at hL
  simp [nodeIsSelected, hf]

/-- **C13 (partial).** with line includes and no line excludes, a node on a line that is not included
is never selected. -/
theorem C13_not_included_not_selected_partial (v : Variant) (t : Bool) (rs : Option (List (List Loc))) (I : List Int)
    (p : Pos) (L : Int) (h1 : p.sl = L) (h2 : p.el = L) (hI : I ≠ []) (hL : L ∉ I) :
    nodeIsSelected v t rs [] I p = false := by
  have hn : ¬ permitted [] I L := fun h => h.2.elim hI hL
  have hf : lineFilter [] I p = false := by
    cases h : lineFilter [] I p with
    | false => rfl
    | true => exact absurd ((C13_single_line_partial [] I p L h1 h2 (Or.inl rfl)).mp h) hn
  simp [nodeIsSelected, hf]

/-- with both kinds present the code only looks at the excludes (this is the known finding) -/
theorem C13_excludes_shadow_includes (E I : List Int) (p : Pos) (hE : E ≠ []) :
    lineFilter E I p = lineFilter E [] p := by
  cases E with
  | nil => exact absurd rfl hE
  | cons a t => simp [lineFilter]

/-- **C13.** permitted lines are still fixed: the filter never blocks a permitted single-line node
(detector-less codemod: `results = None`). -/
theorem C13_permitted_selected (v : Variant) (t : Bool) (E I : List Int) (p : Pos) (L : Int)
    (h1 : p.sl = L) (h2 : p.el = L) (hp : permitted E I L) :
    nodeIsSelected v t none E I p = true := by
  have : lineFilter E I p = true := by
    rw [C13_filter_as_is, any_matchLine_iff, any_matchLine_iff]
    subst h1
    by_cases hE : E = []
    · right; refine ⟨hE, ?_⟩
      rcases hp.2 with h | h
      · exact Or.inl h
      · exact Or.inr ⟨h2.symm, h⟩
    · left; exact ⟨hE, fun h => hp.1 h.2⟩
  simp [nodeIsSelected, filterByResult, this]

/-- **C13.** the change entry's line (`lineno_for_node` = start line) is the edited line for a
single-line node. -/
theorem C13_change_line (p : Pos) (L : Int) (h : matchLine p L = true) : p.sl = L := by
  simp only [matchLine, Bool.and_eq_true, beq_iff_eq] at h; exact h.1

/-- the code's filter (translated from the current source of `base_visitor.py`) obeys the spec -/
theorem C13_code_filter_spec_partial (E I : List Int) (p : Pos) (L : Int) (h1 : p.sl = L) (h2 : p.el = L)
    (h : E = [] ∨ I = []) :
    CM.Generated.gen_line_filter p E I = true ↔ permitted E I L := by
  rw [CM.Generated.gen_line_filter_eq]; exact C13_single_line_partial E I p L h1 h2 h

/-- **C13.** the duplicated filter in `remove_unused_imports.py` (translated from its current source)
is the same function. -/
theorem C13_dup_filter_eq (E I : List Int) (p : Pos) :
    CM.Generated.gen_line_filter_rui p E I = CM.Generated.gen_line_filter p E I := by
  rw [CM.Generated.gen_line_filter_rui_eq, CM.Generated.gen_line_filter_eq]

-- non-vacuity
example : lineFilter [] [3] ⟨3, 0, 3, 5⟩ = true ∧ lineFilter [] [3] ⟨4, 0, 4, 5⟩ = false
    ∧ lineFilter [1] [] ⟨1, 0, 1, 5⟩ = false ∧ lineFilter [] [] ⟨7, 0, 9, 5⟩ = true := by decide

end CM.Location

namespace CM.Select
open CM.Glob

/-- **C13.** `path:line` lookup: a pattern contributes its line iff its glob matches the absolute
path or the path relative to the target — so relative, globbed and absolute spellings of the same
file yield the same line list. -/
theorem C13_line_patterns_spellings (absP relP : String) (g1 g2 : String) (n : String)
    (h1 : fnm g1 absP = true ∨ fnm g1 relP = true) (h2 : fnm g2 absP = true ∨ fnm g2 relP = true)
    (hg1 : splitColon (g1 ++ ":" ++ n) = [g1, n]) (hg2 : splitColon (g2 ++ ":" ++ n) = [g2, n]) :
    fileLinePatterns absP (some relP) [g1 ++ ":" ++ n] = fileLinePatterns absP (some relP) [g2 ++ ":" ++ n] := by
  have e1 : (fnm g1 absP || fnm g1 relP) = true := by simpa using h1
  have e2 : (fnm g2 absP || fnm g2 relP) = true := by simpa using h2
  simp only [fileLinePatterns, List.filterMap_cons, List.filterMap_nil, hg1, hg2, matchesAny, e1, e2, if_true]

end CM.Select
