import CM.Model.Args
set_option linter.unusedSimpArgs false
/-!
# C16 — hardening codemods make only their documented edit (the shared argument editor);
# C07 / C01 mechanism theorems for the same editor
-/
namespace CM.Args

def names (info : List NewArg) : List String := info.map (·.name)

/-- an argument the edit specification does not name -/
def untouched (ns : List String) (a : Arg) : Bool :=
  match a.kw with
  | some k => !ns.contains k
  | none => true

theorem matchIdx_none_iff (a : Arg) (info : List NewArg) :
    matchIdx a info = none ↔ ∀ n ∈ info, a.kw ≠ some n.name := by
  induction info with
  | nil => simp [matchIdx]
  | cons n t ih =>
    simp only [matchIdx]
    by_cases h : a.kw = some n.name
    · simp [h]
    · simp [h, ih]

theorem matchIdx_some (a : Arg) (info : List NewArg) (i : Nat) (h : matchIdx a info = some i) :
    i < info.length ∧ a.kw = some (info.getD i ⟨"", "", false⟩).name := by
  induction info generalizing i with
  | nil => simp [matchIdx] at h
  | cons n t ih =>
    simp only [matchIdx] at h
    by_cases hk : a.kw = some n.name
    · simp only [hk, if_true, Option.some.injEq] at h
      subst h; simp [hk]
    · simp only [hk, if_false, Option.map_eq_some_iff] at h
      obtain ⟨j, hj, rfl⟩ := h
      have := ih j hj
      simp [this.1, this.2]

theorem names_eraseIdx_subset (info : List NewArg) (i : Nat) : ∀ x ∈ names (info.eraseIdx i), x ∈ names info := by
  intro x hx
  simp only [names, List.mem_map] at *
  obtain ⟨n, hn, rfl⟩ := hx
  exact ⟨n, List.mem_of_mem_eraseIdx hn, rfl⟩

/-- **C16.** every argument the specification does not name is preserved: same arguments, same order,
same text — whatever the arguments are (positional, keyword, `*`, `**`, duplicates) and whatever the
specification is. -/
theorem C16_replaceArgs_others (args : List Arg) (info : List NewArg) (ns : List String)
    (hns : ∀ x ∈ names info, x ∈ ns) :
    (replaceArgs args info).filter (untouched ns) = args.filter (untouched ns) := by
  induction args generalizing info with
  | nil =>
    simp only [replaceArgs, List.filter_nil, List.filter_eq_nil_iff, List.mem_map, List.mem_filter]
    rintro a ⟨n, ⟨hn, _⟩, rfl⟩
    have : n.name ∈ ns := hns _ (List.mem_map_of_mem hn)
    simp [untouched, mkKw, this]
  | cons a t ih =>
    simp only [replaceArgs]
    cases hm : matchIdx a info with
    | none =>
      simp only [List.filter_cons, ih info hns]
    | some i =>
      obtain ⟨hi, hk⟩ := matchIdx_some a info i hm
      have hin : (info.getD i ⟨"", "", false⟩).name ∈ ns := by
        apply hns
        simp only [names, List.mem_map]
        refine ⟨info.getD i ⟨"", "", false⟩, ?_, rfl⟩
        simp only [List.getD_eq_getElem?_getD, List.getElem?_eq_getElem hi, Option.getD_some]
        exact List.getElem_mem hi
      have h1 : untouched ns (mkKw (info.getD i ⟨"", "", false⟩).name (info.getD i ⟨"", "", false⟩).value) = false := by
        simp only [untouched, mkKw, List.contains_eq_mem, hin, decide_true, Bool.not_true]
      have h2 : untouched ns a = false := by
        simp only [untouched, hk, List.contains_eq_mem, hin, decide_true, Bool.not_true]
      simp only [List.filter_cons, h1, h2, Bool.false_eq_true, if_false]
      exact ih (info.eraseIdx i) (fun x hx => hns x (names_eraseIdx_subset info i x hx))

/-- **C16.** the edit never changes the number of arguments by more than the specifications that had
no matching argument -/
theorem C16_replaceArgs_length (args : List Arg) (info : List NewArg) :
    (replaceArgs args info).length ≤ args.length + info.length := by
  induction args generalizing info with
  | nil => simp only [replaceArgs, List.length_map, List.length_nil, Nat.zero_add]; exact List.length_filter_le _ _
  | cons a t ih =>
    simp only [replaceArgs]
    cases hm : matchIdx a info with
    | none => simp only [List.length_cons]; have := ih info; omega
    | some i =>
      obtain ⟨hi, _⟩ := matchIdx_some a info i hm
      simp only [List.length_cons]
      have := ih (info.eraseIdx i)
      rw [List.length_eraseIdx_of_lt hi] at this
      omega

/-- **C16.** `add_arg_to_call` appends exactly one keyword argument and keeps all the others. -/
theorem C16_addArg (args : List Arg) (k v : String) : addArg args k v = args ++ [mkKw k v] := rfl

theorem parenGens_of_no_gen (args : List Arg) (h : ∀ a ∈ args, a.gen = false) : parenGens args = args := by
  unfold parenGens
  split
  · rfl
  · conv => rhs; rw [← List.map_id args]
    exact List.map_congr_left fun a ha => by simp [h a ha]

/-- **C16.** swapping the callee keeps the arguments (unless the caller passes replacements): all of them,
in order; a bare generator argument gets parentheses when it is no longer alone. -/
theorem C16_callTarget_args (n : String) (args : List Arg) (tgt : String) (f : Option String) :
    (callTarget n args tgt f none).2 = parenGens args := rfl

theorem C16_callTarget_args_plain (n : String) (args : List Arg) (tgt : String) (f : Option String)
    (h : ∀ a ∈ args, a.gen = false) : (callTarget n args tgt f none).2 = args := by
  rw [C16_callTarget_args, parenGens_of_no_gen args h]

/-! ### C01: the edited call is still a well-formed call -/

theorem cls_mkKw (k v : String) : cls (mkKw k v) = .kw := rfl

theorem wfC_append_kws (a b : Bool) (cs : List Cls) (k : Nat) :
    wfC a b (cs ++ List.replicate k .kw) = wfC a b cs := by
  induction cs generalizing a b with
  | nil =>
    induction k generalizing a with
    | zero => rfl
    | succ n ih => simp only [List.nil_append, List.replicate_succ, wfC] at *; exact ih true
  | cons c t ih => cases c <;> simp [wfC, ih]

/-- the classes after `replace_args`: every argument keeps its class, keyword arguments are appended -/
theorem cls_replaceArgs (args : List Arg) (info : List NewArg)
    (hstar : ∀ a ∈ args, a.kw ≠ none → a.star = .none) :
    ∃ k, (replaceArgs args info).map cls = args.map cls ++ List.replicate k .kw := by
  induction args generalizing info with
  | nil =>
    refine ⟨(info.filter (·.addIfMissing)).length, ?_⟩
    simp only [replaceArgs, List.map_map, List.map_nil, List.nil_append]
    rw [List.eq_replicate_iff]
    exact ⟨by simp, by intro b hb; simp only [List.mem_map] at hb; obtain ⟨n, _, rfl⟩ := hb; rfl⟩
  | cons a t ih =>
    have ht : ∀ b ∈ t, b.kw ≠ none → b.star = .none := fun b hb => hstar b (List.mem_cons_of_mem _ hb)
    simp only [replaceArgs]
    cases hm : matchIdx a info with
    | none =>
      obtain ⟨k, hk⟩ := ih info ht
      exact ⟨k, by simp [hk]⟩
    | some i =>
      obtain ⟨_, hkw⟩ := matchIdx_some a info i hm
      obtain ⟨k, hk⟩ := ih (info.eraseIdx i) ht
      refine ⟨k, ?_⟩
      have hs : a.star = .none := hstar a (by simp) (by rw [hkw]; simp)
      have : cls a = .kw := by simp [cls, hs, hkw]
      simp [hk, this, cls_mkKw]

/-- **C01 (call arguments).** if the arguments of the original call obey Python's ordering rule (no
positional after a keyword or `**`, no `*` after `**`), so do the arguments after `replace_args` — for
every specification. (A keyword argument never carries a star: libcst's own node invariant.) -/
theorem C01_replaceArgs_wf (args : List Arg) (info : List NewArg)
    (hstar : ∀ a ∈ args, a.kw ≠ none → a.star = .none) (h : wf args = true) :
    wf (replaceArgs args info) = true := by
  obtain ⟨k, hk⟩ := cls_replaceArgs args info hstar
  simp only [wf, hk, wfC_append_kws]
  exact h

theorem C01_addArg_wf (args : List Arg) (k v : String) (h : wf args = true) : wf (addArg args k v) = true := by
  simp only [wf, addArg, List.map_append, List.map_cons, List.map_nil, cls_mkKw]
  have := wfC_append_kws false false (args.map cls) 1
  simp only [List.replicate_succ, List.replicate_zero] at this
  rw [this]; exact h

/-! ### C01: a generator argument keeps the call well formed when an argument is added -/

theorem cls_parenGens (args : List Arg) : (parenGens args).map cls = args.map cls := by
  unfold parenGens
  split
  · rfl
  · rw [List.map_map]
    apply List.map_congr_left
    intro a _
    simp only [Function.comp]
    split <;> simp [cls]

theorem length_parenGens (args : List Arg) : (parenGens args).length = args.length := by
  unfold parenGens; split <;> simp

/-- after the normalisation no generator is bare unless it is the only argument -/
theorem parenGens_wfGen (args : List Arg) (h : wf args = true) : wfGen (parenGens args) = true := by
  simp only [wfGen, Bool.and_eq_true, Bool.or_eq_true, decide_eq_true_eq]
  refine ⟨by simp only [wf, cls_parenGens]; exact h, ?_⟩
  by_cases hl : args.length < 2
  · left; rw [length_parenGens]; omega
  · right
    unfold parenGens
    simp only [hl, if_false, List.all_map, List.all_eq_true]
    intro a _
    simp only [Function.comp]
    split <;> simp_all

/-- arguments that are not bare generators are handed through untouched -/
theorem parenGens_others (args : List Arg) (a : Arg) (ha : a ∈ args) (hg : a.gen = false) : a ∈ parenGens args := by
  unfold parenGens
  split
  · exact ha
  · exact List.mem_map.mpr ⟨a, ha, by simp [hg]⟩

/-- **C01 (`add_arg_to_call`, as it is now).** adding a keyword argument to a well-formed call gives a
well-formed call, also when the call's only argument was a bare generator. -/
theorem C01_addArgToCall_wf (args : List Arg) (k v : String) (h : wf args = true) : wfGen (addArgToCall args k v) = true :=
  parenGens_wfGen _ (C01_addArg_wf args k v h)

/-- **C01 (`update_arg_target ∘ replace_args`, as the codemods use it).** -/
theorem C01_updateArgTarget_wf (args : List Arg) (info : List NewArg)
    (hstar : ∀ a ∈ args, a.kw ≠ none → a.star = .none) (h : wf args = true) :
    wfGen (updateArgTarget (replaceArgs args info)) = true :=
  parenGens_wfGen _ (C01_replaceArgs_wf args info hstar h)

/-- **the code before the fix.** `requests.get(u for u in urls)` + `timeout=60` -/
theorem C01_addArg_old_bare_generator :
    let args : List Arg := [{ kw := none, star := .none, val := "u for u in urls", gen := true }]
    wfGen args = true ∧ wfGen (addArg args "timeout" "60") = false ∧ wfGen (addArgToCall args "timeout" "60") = true ∧
    (addArgToCall args "timeout" "60").map (·.val) = ["(u for u in urls)", "60"] := by
  decide

/-- **C01 (update_call_target).** whatever list the new call is built from, if it obeys the ordering
rule the call written does too, and no generator in it is bare next to another argument -/
theorem C01_callTarget_wf (n : String) (args : List Arg) (tgt : String) (f : Option String) (r : Option (List Arg))
    (h : wf (callTargetArgs args r) = true) : wfGen (callTarget n args tgt f r).2 = true :=
  parenGens_wfGen _ h

/-- the code before the fix: `subprocess.run(a for a in args)` became `safe_command.run(subprocess.run, a for a in args)` -/
theorem C01_callTarget_old_bare_generator :
    let g : Arg := { kw := none, star := .none, val := "a for a in args", gen := true }
    let f : Arg := { kw := none, star := .none, val := "subprocess.run" }
    wfGen [g] = true ∧ wfGen (callTarget "run" [g] "safe_command" none (some [f, g]) false).2 = false ∧
    (callTarget "run" [g] "safe_command" none (some [f, g])).2.map (·.val) = ["subprocess.run", "(a for a in args)"] := by
  decide

/-! ### C07: the editor is a fixed point on its own output -/

/-- after the edit every specified name that is to be present *is* present with the specified value at
its first occurrence: a second application changes nothing. Stated for the common shape of the
hardening codemods: one specification `(name, value, add_if_missing = true)`. -/
theorem C07_replaceArgs_idem_single (args : List Arg) (n : NewArg) (hadd : n.addIfMissing = true) :
    replaceArgs (replaceArgs args [n]) [n] = replaceArgs args [n] := by
  induction args with
  | nil => simp [replaceArgs, hadd, matchIdx, mkKw]
  | cons a t ih =>
    by_cases hk : a.kw = some n.name
    · -- matched: replaced in place, the rest is copied (empty spec list afterwards)
      have hcopy : ∀ l : List Arg, replaceArgs l [] = l := by
        intro l; induction l with
        | nil => rfl
        | cons b u ihu => simp [replaceArgs, matchIdx, ihu]
      simp [replaceArgs, matchIdx, hk, mkKw, hcopy]
    · simp only [replaceArgs, matchIdx, hk, if_false, Option.map_none]
      exact congrArg (a :: ·) ih

/-! ### C18 / C07: the edit falsifies a detector that looks at the value of the named keyword -/

theorem replaceArgs_nil_info : ∀ l : List Arg, replaceArgs l [] = l := by
  intro l; induction l with
  | nil => rfl
  | cons b u ihu => simp [replaceArgs, matchIdx, ihu]

/-- keywords of a call are pairwise different (CPython rejects `f(k=1, k=2)`) -/
def kwNodup (args : List Arg) : Prop := (args.filterMap (·.kw)).Nodup

/-- after the edit every argument carrying the specified keyword has the specified value -/
theorem C18_replaceArgs_sets (args : List Arg) (n : NewArg) (hd : kwNodup args) :
    ∀ a ∈ replaceArgs args [n], a.kw = some n.name → a.val = n.value := by
  induction args with
  | nil =>
    intro a ha hk
    by_cases hadd : n.addIfMissing = true
    · simp [replaceArgs, hadd, mkKw] at ha; subst ha; rfl
    · simp [replaceArgs, hadd] at ha
  | cons b t ih =>
    intro a ha hk
    by_cases hb : b.kw = some n.name
    · simp only [replaceArgs, matchIdx, hb, if_true, List.getD_cons_zero, List.eraseIdx_cons_zero, replaceArgs_nil_info,
        List.mem_cons] at ha
      rcases ha with ha | ha
      · subst ha; rfl
      · -- an argument of the tail with the same keyword: excluded by `kwNodup`
        exfalso
        unfold kwNodup at hd
        simp only [List.filterMap_cons, hb, List.nodup_cons, List.mem_filterMap] at hd
        exact hd.1 ⟨a, ha, hk⟩
    · simp only [replaceArgs, matchIdx, hb, if_false, Option.map_none, List.mem_cons] at ha
      have hd' : kwNodup t := by
        unfold kwNodup at hd ⊢
        cases hbk : b.kw with
        | none => simpa [List.filterMap_cons, hbk] using hd
        | some k => simp only [List.filterMap_cons, hbk, List.nodup_cons] at hd; exact hd.2
      rcases ha with ha | ha
      · subst ha; exact absurd hk hb
      · exact ih hd' a ha hk

/-- a detector that flags a call for the value of one keyword (`verify=False`, `shell=True`, …) -/
def flagged (k : String) (bad : String → Bool) (args : List Arg) : Bool :=
  args.any fun a => a.kw == some k && bad a.val

/-- **C18 / C07 (argument editor).** If the value the edit writes is not one the detector flags, the
edited call is not flagged any more — whatever else the call contains. -/
theorem C18_replaceArgs_not_flagged (args : List Arg) (n : NewArg) (bad : String → Bool)
    (hd : kwNodup args) (hv : bad n.value = false) : flagged n.name bad (replaceArgs args [n]) = false := by
  unfold flagged
  rw [List.any_eq_false]
  intro a ha
  by_cases hk : a.kw = some n.name
  · simp [hk, C18_replaceArgs_sets args n hd a ha hk, hv]
  · simp [hk]

/-! the same for a specification list of any length (secure-flask-cookie passes three, the lxml parser
defaults three): names pairwise different -/

theorem getD_mem {α} (d : α) : ∀ (l : List α) (i : Nat), i < l.length → l.getD i d ∈ l
  | [], i, h => by simp at h
  | x :: t, 0, _ => by simp
  | x :: t, i + 1, h => by
    have := getD_mem d t i (by simpa using h)
    simp only [List.getD_cons_succ]; exact List.mem_cons_of_mem _ this

theorem mem_eraseIdx_or_eq {α} (d : α) : ∀ (l : List α) (i : Nat) (n : α), n ∈ l → n ∈ l.eraseIdx i ∨ n = l.getD i d
  | [], _, n, h => by simp at h
  | x :: t, 0, n, h => by
    simp only [List.mem_cons] at h
    rcases h with rfl | h
    · exact Or.inr (by simp)
    · exact Or.inl (by simpa using h)
  | x :: t, i + 1, n, h => by
    simp only [List.mem_cons] at h
    rcases h with rfl | h
    · exact Or.inl (by simp)
    · rcases mem_eraseIdx_or_eq d t i n h with h' | h'
      · exact Or.inl (by simp [h'])
      · exact Or.inr (by simpa using h')

theorem eq_of_name_eq : ∀ (info : List NewArg), (names info).Nodup → ∀ m ∈ info, ∀ n ∈ info, m.name = n.name → m = n := by
  intro info
  induction info with
  | nil => intro _ m hm; simp at hm
  | cons x t ih =>
    intro hnd m hm n hn h
    simp only [names, List.map_cons, List.nodup_cons, List.mem_map, not_exists, not_and] at hnd
    simp only [List.mem_cons] at hm hn
    rcases hm with rfl | hm <;> rcases hn with rfl | hn
    · rfl
    · exact absurd h.symm (hnd.1 n hn)
    · exact absurd h (hnd.1 m hm)
    · exact ih (by simpa [names] using hnd.2) m hm n hn h

/-- where the arguments of the edited call come from -/
theorem mem_replaceArgs_origin : ∀ (args : List Arg) (info : List NewArg) (a : Arg),
    a ∈ replaceArgs args info → a ∈ args ∨ ∃ m ∈ info, a = mkKw m.name m.value := by
  intro args
  induction args with
  | nil =>
    intro info a ha
    simp only [replaceArgs, List.mem_map, List.mem_filter] at ha
    obtain ⟨m, ⟨hm, _⟩, rfl⟩ := ha
    exact Or.inr ⟨m, hm, rfl⟩
  | cons b t ih =>
    intro info a ha
    simp only [replaceArgs] at ha
    cases hmi : matchIdx b info with
    | none =>
      simp only [hmi, List.mem_cons] at ha
      rcases ha with rfl | ha
      · exact Or.inl (List.mem_cons_self ..)
      · rcases ih info a ha with h | h
        · exact Or.inl (List.mem_cons_of_mem _ h)
        · exact Or.inr h
    | some i =>
      simp only [hmi, List.mem_cons] at ha
      have hi := matchIdx_some b info i hmi
      rcases ha with rfl | ha
      · refine Or.inr ⟨info.getD i ⟨"", "", false⟩, ?_, rfl⟩
        exact getD_mem _ info i hi.1
      · rcases ih _ a ha with h | ⟨m, hm, rfl⟩
        · exact Or.inl (List.mem_cons_of_mem _ h)
        · exact Or.inr ⟨m, List.mem_of_mem_eraseIdx hm, rfl⟩

theorem kwNodup_tail {b : Arg} {t : List Arg} (hd : kwNodup (b :: t)) : kwNodup t := by
  unfold kwNodup at hd ⊢
  cases hbk : b.kw with
  | none => simpa [List.filterMap_cons, hbk] using hd
  | some k => simp only [List.filterMap_cons, hbk, List.nodup_cons] at hd; exact hd.2

theorem names_eraseIdx_nodup (info : List NewArg) (i : Nat) (h : (names info).Nodup) : (names (info.eraseIdx i)).Nodup := by
  unfold names at *
  exact List.Nodup.sublist ((List.eraseIdx_sublist info i).map _) h

/-- **C18 (argument editor, any specification list).** -/
theorem C18_replaceArgs_sets_all : ∀ (args : List Arg) (info : List NewArg), kwNodup args → (names info).Nodup →
    ∀ n ∈ info, ∀ a ∈ replaceArgs args info, a.kw = some n.name → a.val = n.value := by
  intro args
  induction args with
  | nil =>
    intro info _ hn n hnm a ha hk
    simp only [replaceArgs, List.mem_map, List.mem_filter] at ha
    obtain ⟨m, ⟨hm, _⟩, rfl⟩ := ha
    simp only [mkKw, Option.some.injEq] at hk
    rw [eq_of_name_eq info hn m hm n hnm hk]; rfl
  | cons b t ih =>
    intro info hd hn n hnm a ha hk
    simp only [replaceArgs] at ha
    cases hmi : matchIdx b info with
    | none =>
      simp only [hmi, List.mem_cons] at ha
      rcases ha with rfl | ha
      · exact absurd hk ((matchIdx_none_iff _ info).mp hmi n hnm)
      · exact ih info (kwNodup_tail hd) hn n hnm a ha hk
    | some i =>
      simp only [hmi, List.mem_cons] at ha
      have hi := matchIdx_some b info i hmi
      have hmem : info.getD i ⟨"", "", false⟩ ∈ info := getD_mem _ info i hi.1
      rcases ha with rfl | ha
      · simp only [mkKw, Option.some.injEq] at hk
        rw [← eq_of_name_eq info hn _ hmem n hnm hk]; rfl
      · by_cases hne : n ∈ info.eraseIdx i
        · exact ih _ (kwNodup_tail hd) (names_eraseIdx_nodup info i hn) n hne a ha hk
        · -- `n` is the specification the head consumed: nothing in the tail carries its keyword
          exfalso
          have hni : n = info.getD i ⟨"", "", false⟩ := by
            rcases mem_eraseIdx_or_eq ⟨"", "", false⟩ info i n hnm with h | h
            · exact absurd h hne
            · exact h
          rcases mem_replaceArgs_origin t _ a ha with h | ⟨m, hm, rfl⟩
          · -- an argument of the tail with the keyword of the head
            unfold kwNodup at hd
            rw [hni] at hk
            simp only [List.filterMap_cons, hi.2, List.nodup_cons, List.mem_filterMap] at hd
            exact hd.1 ⟨a, h, hk⟩
          · simp only [mkKw, Option.some.injEq] at hk
            have := eq_of_name_eq info hn m (List.mem_of_mem_eraseIdx hm) n hnm hk
            exact hne (this ▸ hm)

theorem C18_replaceArgs_not_flagged_all (args : List Arg) (info : List NewArg) (bad : String → Bool)
    (hd : kwNodup args) (hn : (names info).Nodup) (n : NewArg) (hnm : n ∈ info) (hv : bad n.value = false) :
    flagged n.name bad (replaceArgs args info) = false := by
  unfold flagged
  rw [List.any_eq_false]
  intro a ha
  by_cases hk : a.kw = some n.name
  · simp [hk, C18_replaceArgs_sets_all args info hd hn n hnm a ha hk, hv]
  · simp [hk]

-- non-vacuity: `resp.set_cookie("c", "3", secure=False, httponly=False)` with the three specifications of secure-flask-cookie
example : replaceArgs [⟨none, .none, "\"c\"", false⟩, ⟨none, .none, "\"3\"", false⟩, ⟨some "secure", .none, "False", false⟩, ⟨some "httponly", .none, "False", false⟩]
      [⟨"secure", "True", true⟩, ⟨"httponly", "True", true⟩, ⟨"samesite", "'Lax'", true⟩]
    = [⟨none, .none, "\"c\"", false⟩, ⟨none, .none, "\"3\"", false⟩, ⟨some "secure", .none, "True", false⟩, ⟨some "httponly", .none, "True", false⟩,
       ⟨some "samesite", .none, "'Lax'", false⟩] := by decide

-- non-vacuity: flagged before, not after
example : flagged "verify" (· == "False") [⟨none, .none, "url", false⟩, ⟨some "verify", .none, "False", false⟩] = true ∧
    flagged "verify" (· == "False") (replaceArgs [⟨none, .none, "url", false⟩, ⟨some "verify", .none, "False", false⟩] [⟨"verify", "True", true⟩]) = false := by decide

-- non-vacuity: `requests.get(url, verify=False, **kw)` with spec verify=True
example : replaceArgs [⟨none, .none, "url", false⟩, ⟨some "verify", .none, "False", false⟩, ⟨none, .two, "kw", false⟩] [⟨"verify", "True", true⟩]
    = [⟨none, .none, "url", false⟩, ⟨some "verify", .none, "True", false⟩, ⟨none, .two, "kw", false⟩] := by decide
example : replaceArgs [⟨none, .none, "url", false⟩, ⟨none, .two, "kw", false⟩] [⟨"timeout", "60", true⟩]
    = [⟨none, .none, "url", false⟩, ⟨none, .two, "kw", false⟩, ⟨some "timeout", .none, "60", false⟩] := by decide
example : wf [⟨none, .none, "url", false⟩, ⟨none, .two, "kw", false⟩, ⟨some "timeout", .none, "60", false⟩] = true := by decide

end CM.Args
