import CM.Model.Registry
set_option linter.unusedSimpArgs false
/-!
# C17 — exactly the requested codemods run, once each, in the requested order

`refInclude` / `refExclude` are the reference selection read off the property text; the theorems
say that `match_codemods` (as modelled) computes exactly that, for all registries (with unique
ids), all include / exclude lists and both eligibility modes.
-/
namespace CM.Registry

theorem mem_tails {α} (t s : List α) : t ∈ tails s ↔ t <:+ s := by
  induction s with
  | nil => simp [tails]
  | cons a s ih =>
    simp only [tails, List.mem_cons, ih, List.suffix_cons_iff]

/-- keep the first occurrence of every id -/
def firstOcc : List Codemod → List Codemod
  | [] => []
  | c :: t => c :: (firstOcc t).filter (fun d => d.id != c.id)

/-- Reference for `--codemod-include`: the listed ids and wildcard matches (registry order within a
wildcard), in the order given, each at most once; unknown ids contribute nothing. -/
def refInclude (reg : List Codemod) (incl : List String) : List Codemod :=
  firstOcc (incl.flatMap fun name =>
    if hasStar name then reg.filter (fun c => glob name c.id) else reg.filter (fun c => c.id = name))

/-- Reference for `--codemod-exclude` / default: every eligible codemod, in registry order, except
those named or matched. -/
def refExclude (reg : List Codemod) (excl : List String) (sast : Bool) : List Codemod :=
  reg.filter fun c =>
    eligible sast c && !(excl.any fun e => if hasStar e then glob e c.id else e == c.id)

theorem dedupIds_spec (acc l : List Codemod) :
    dedupIds acc l = acc.reverse ++ (firstOcc l).filter (fun d => !acc.any (·.id == d.id)) := by
  induction l generalizing acc with
  | nil => simp [dedupIds, firstOcc]
  | cons c t ih =>
    simp only [dedupIds, firstOcc]
    by_cases h : acc.any (·.id == c.id) = true
    · simp only [h, if_true, ih, List.filter_cons, Bool.not_true, Bool.false_eq_true, if_false]
      congr 1
      rw [List.filter_filter]
      apply List.filter_congr
      intro d _
      by_cases hd : d.id = c.id
      · have : acc.any (·.id == d.id) = true := by rw [hd]; exact h
        simp [this]
      · simp [hd]
    · have h' : acc.any (·.id == c.id) = false := by simpa using h
      simp only [h', Bool.false_eq_true, if_false, ih, List.filter_cons, Bool.not_false, if_true,
        List.reverse_cons, List.append_assoc, List.singleton_append]
      congr 2
      rw [List.filter_filter]
      apply List.filter_congr
      intro d _
      simp only [List.any_cons]
      by_cases hd : d.id = c.id
      · simp [hd]
      · have : (c.id == d.id) = false := by
          simp only [beq_eq_false_iff_ne, ne_eq]; exact fun e => hd e.symm
        simp [hd, this]

theorem dedupIds_nil (l : List Codemod) : dedupIds [] l = firstOcc l := by
  rw [dedupIds_spec]; simp

theorem lookupId_eq_filter (reg : List Codemod) (hn : (reg.map (·.id)).Nodup) (name : String) :
    (match lookupId reg name with | some c => [c] | none => []) = reg.filter (fun c => c.id = name) := by
  induction reg with
  | nil => simp [lookupId]
  | cons c t ih =>
    simp only [List.map_cons, List.nodup_cons] at hn
    simp only [lookupId, List.find?_cons, List.filter_cons]
    by_cases h : c.id = name
    · subst h
      have : t.filter (fun d => decide (d.id = c.id)) = [] := by
        simp only [List.filter_eq_nil_iff, decide_eq_true_eq]
        intro d hd he
        exact hn.1 (by rw [← he]; exact List.mem_map_of_mem hd)
      simp [this]
    · have hb : (c.id == name) = false := by simpa using h
      simp only [hb, h, decide_false, Bool.false_eq_true, if_false]
      exact ih hn.2

/-- **C17 (include).** For every registry with unique ids and every non-empty include list, the
selected sequence is the reference selection: listed ids and wildcard matches, in the order
given, registry order inside a wildcard, each at most once, unknown ids ignored — whatever the
exclude list and the eligibility mode. -/
theorem C17_include_eq_ref (reg : List Codemod) (hn : (reg.map (·.id)).Nodup) (dflt incl excl : List String)
    (sast : Bool) (hi : incl ≠ []) :
    matchCodemods reg dflt incl excl sast = refInclude reg incl := by
  have : incl.isEmpty = false := by cases incl <;> simp_all
  simp only [matchCodemods, this, Bool.false_eq_true, if_false, dedupIds_nil, refInclude]
  congr 1
  have hfun : (includeMatches reg) = (fun name =>
      if hasStar name then reg.filter (fun c => glob name c.id) else reg.filter (fun c => decide (c.id = name))) := by
    funext name
    simp only [includeMatches]
    by_cases hs : hasStar name = true
    · simp [hs]
    · simp only [hs, Bool.false_eq_true, if_false]
      exact lookupId_eq_filter reg hn name
  rw [hfun]

/-- **C17 (exclude / default).** With no include list, every eligible codemod runs, in registry
order, except those named or matched by the exclude list (the default list when none is given). -/
theorem C17_exclude_eq_ref (reg : List Codemod) (dflt excl : List String) (sast : Bool) :
    matchCodemods reg dflt [] excl sast = refExclude reg (if excl.isEmpty then dflt else excl) sast := by
  simp only [matchCodemods, List.isEmpty_nil, if_true, refExclude]
  apply List.filter_congr
  intro c _
  generalize (if excl.isEmpty then dflt else excl) = ex
  have : (ex.any fun e => if hasStar e then glob e c.id else e == c.id)
       = ((ex.filter (fun e => !hasStar e)).contains c.id || (ex.filter hasStar).any (fun p => glob p c.id)) := by
    induction ex with
    | nil => simp
    | cons e t ih =>
      simp only [List.any_cons, List.filter_cons, ih]
      by_cases hs : hasStar e = true
      · simp only [hs, if_true, Bool.not_true, Bool.false_eq_true, if_false, List.any_cons]
        cases glob e c.id <;> simp [Bool.or_comm, Bool.or_assoc, Bool.or_left_comm]
      · have hs' : hasStar e = false := by simpa using hs
        simp only [hs', Bool.false_eq_true, if_false, Bool.not_false, if_true, List.contains_cons]
        rw [show (c.id == e) = (e == c.id) from by simp [eq_comm, BEq.comm]]
        simp [Bool.or_assoc]
  rw [this, Bool.and_comm]

theorem firstOcc_ids_nodup (l : List Codemod) : ((firstOcc l).map (·.id)).Nodup := by
  induction l with
  | nil => simp [firstOcc]
  | cons c t ih =>
    simp only [firstOcc, List.map_cons, List.nodup_cons]
    constructor
    · intro h
      rcases List.mem_map.mp h with ⟨d, hd, he⟩
      have := (List.mem_filter.mp hd).2
      simp [he] at this
    · exact (ih.sublist ((List.filter_sublist).map _))

/-- **C17.** no codemod is selected twice. -/
theorem C17_nodup (reg : List Codemod) (hn : (reg.map (·.id)).Nodup) (dflt incl excl : List String) (sast : Bool) :
    ((matchCodemods reg dflt incl excl sast).map (·.id)).Nodup := by
  by_cases hi : incl = []
  · subst hi
    rw [C17_exclude_eq_ref]
    exact hn.sublist ((List.filter_sublist).map _)
  · rw [C17_include_eq_ref reg hn dflt incl excl sast hi]
    exact firstOcc_ids_nodup _

/-- **C17.** an unknown literal id changes nothing (it is ignored, with a warning). -/
theorem C17_unknown_ignored (reg : List Codemod) (a b : List String) (u : String)
    (hu : ∀ c ∈ reg, c.id ≠ u) (hs : hasStar u = false) :
    refInclude reg (a ++ u :: b) = refInclude reg (a ++ b) := by
  have : reg.filter (fun c => decide (c.id = u)) = [] := by
    simp only [List.filter_eq_nil_iff, decide_eq_true_eq]
    exact fun c hc => hu c hc
  simp [refInclude, List.flatMap_append, List.flatMap_cons, hs, this]

/-- **C17.** in exclude/default mode only eligible codemods run: find-and-fix (`pixee`) ones without
SAST input, tool-specific ones with it. -/
theorem C17_eligibility (reg : List Codemod) (dflt excl : List String) (sast : Bool) (c : Codemod)
    (h : c ∈ matchCodemods reg dflt [] excl sast) :
    c ∈ reg ∧ (sast = true ↔ c.origin ≠ "pixee") := by
  rw [C17_exclude_eq_ref, refExclude] at h
  have ⟨hm, hp⟩ := List.mem_filter.mp h
  refine ⟨hm, ?_⟩
  simp only [Bool.and_eq_true, eligible] at hp
  have he := hp.1
  cases sast <;> simp_all

/-- glob: a pattern without `*` matches exactly itself -/
theorem C17_glob_literal (p s : List Char) (h : '*' ∉ p) : globMatch p s = true ↔ p = s := by
  induction p generalizing s with
  | nil => cases s <;> simp [globMatch]
  | cons a p ih =>
    have ha : a ≠ '*' := fun e => h (by simp [e])
    have hp : '*' ∉ p := fun e => h (by simp [e])
    cases s with
    | nil => simp [globMatch]
    | cons c s =>
      rw [globMatch]
      · simp [ih s hp]
      · exact fun e => ha e

/-- glob: a trailing `*` matches any (possibly empty) rest; the head stays anchored. -/
theorem C17_glob_star_all (s : List Char) : globMatch ['*'] s = true := by
  simp only [globMatch, List.any_eq_true]
  refine ⟨[], ?_, by simp [globMatch]⟩
  simp [mem_tails]

/-- glob: `*tail` requires the id to *end* with `tail` (the match is anchored on the right). -/
theorem C17_glob_suffix (p s : List Char) (h : '*' ∉ p) :
    globMatch ('*' :: p) s = true ↔ p <:+ s := by
  simp only [globMatch, List.any_eq_true, mem_tails]
  constructor
  · rintro ⟨t, ht, hm⟩
    rw [C17_glob_literal p t h] at hm
    subst hm; exact ht
  · intro hs
    exact ⟨p, hs, (C17_glob_literal p p h).mpr rfl⟩

theorem dedupStr_nodup (acc l : List String) (h : acc.Nodup) : (dedupStr acc l).Nodup := by
  induction l generalizing acc with
  | nil => simpa [dedupStr] using (List.reverse_perm acc).nodup_iff.mpr h
  | cons s t ih =>
    simp only [dedupStr]
    by_cases hc : acc.contains s = true
    · simp only [hc, if_true]; exact ih acc h
    · have : s ∉ acc := by simpa using hc
      simp only [hc, Bool.false_eq_true, if_false]
      exact ih (s :: acc) (List.nodup_cons.mpr ⟨this, h⟩)

/-- **C17.** the comma-separated option value never yields the same id twice. -/
theorem C17_csv_nodup (v : String) : (csvList v).Nodup := dedupStr_nodup [] _ List.nodup_nil

-- non-vacuity
example : matchCodemods [⟨"pixee:python/secure-random", "pixee"⟩, ⟨"pixee:python/secure-cookie", "pixee"⟩,
    ⟨"sonar:python/x", "sonar"⟩] ["pixee:python/order-imports"]
    ["pixee:python/secure-*", "pixee:python/secure-random", "nope"] [] false
    = [⟨"pixee:python/secure-random", "pixee"⟩, ⟨"pixee:python/secure-cookie", "pixee"⟩] := by decide
example : glob "*cookie" "pixee:python/django-session-cookie-secure-off" = false := by decide
example : glob "*cookie" "pixee:python/secure-flask-cookie" = true := by decide

end CM.Registry
