import CM.Model.Sched
import CM.Props.Pipeline
import CM.Props.C17
import CM.Props.C05
set_option linter.unusedSimpArgs false
/-!
# C11 — results do not depend on scheduling, worker count, hash seed or sibling files

* in-flight ≤ cap at every reachable scheduler state (`C11_inflight_le_cap`);
* every schedule yields the same files and job results (`CM.Pipeline.C11_schedule_independent`);
* a file's outcome depends on its own content only (`CM.Pipeline.C11_file_outcome_own`);
* the selected file list does not depend on the enumeration order (`CM.Select.C05_perm_invariant`);
* codemod selection is a function of the registry *list*; its order is the installed-metadata order
  (no `set` iteration any more — checked by running under different hash seeds).
-/
namespace CM.Sched

theorem step_running_le (cap : Nat) (s s' : S) (e : Ev) (h : step cap s e = some s')
    (hs : s.running.length ≤ cap) : s'.running.length ≤ cap := by
  cases e with
  | start =>
    simp only [step] at h
    cases hp : s.pending with
    | nil => simp [hp] at h
    | cons j t =>
      simp only [hp] at h
      by_cases hc : s.running.length < cap
      · simp only [hc, if_true, Option.some.injEq] at h
        subst h; simp; omega
      · simp [hc] at h
  | finish j =>
    simp only [step] at h
    by_cases hc : s.running.contains j = true
    · simp only [hc, if_true, Option.some.injEq] at h
      subst h
      simp only
      have := List.length_erase_le (a := j) (l := s.running)
      omega
    · have : j ∉ s.running := by simpa using hc
      simp only [hc, Bool.false_eq_true, if_false] at h
      exact absurd h (by simp)

/-- **C11 (worker cap).** Along every trace of the pool (any interleaving of starts and
completions), never more than `cap` = `--max-workers` files are being processed. -/
theorem C11_inflight_le_cap (cap : Nat) (s s' : S) (es : List Ev) (h : exec cap s es = some s')
    (hs : s.running.length ≤ cap) : s'.running.length ≤ cap := by
  induction es generalizing s with
  | nil => simp only [exec, Option.some.injEq] at h; subst h; exact hs
  | cons e t ih =>
    simp only [exec] at h
    cases hst : step cap s e with
    | none => simp [hst] at h
    | some s1 =>
      simp only [hst] at h
      exact ih s1 h (step_running_le cap s s1 e hst hs)

theorem C11_maxInflight_le_cap (cap : Nat) (s : S) (es : List Ev) (hs : s.running.length ≤ cap) :
    maxInflight cap s es ≤ cap := by
  induction es generalizing s with
  | nil => simpa [maxInflight] using hs
  | cons e t ih =>
    simp only [maxInflight]
    cases hst : step cap s e with
    | none => simpa using hs
    | some s1 =>
      simp only
      have := ih s1 (step_running_le cap s s1 e hst hs)
      omega

/-- from the initial state in particular -/
theorem C11_inflight_from_init (cap n : Nat) (es : List Ev) : maxInflight cap (init n) es ≤ cap :=
  C11_maxInflight_le_cap cap (init n) es (by simp [init])

/-- jobs are never lost or duplicated by the pool: pending ++ running ++ done is a permutation invariant in size -/
theorem C11_jobs_conserved (cap : Nat) (s s' : S) (e : Ev) (h : step cap s e = some s') :
    s'.pending.length + s'.running.length + s'.done.length = s.pending.length + s.running.length + s.done.length := by
  cases e with
  | start =>
    simp only [step] at h
    cases hp : s.pending with
    | nil => simp [hp] at h
    | cons j t =>
      simp only [hp] at h
      by_cases hc : s.running.length < cap
      · simp only [hc, if_true, Option.some.injEq] at h
        subst h; simp; omega
      · simp [hc] at h
  | finish j =>
    simp only [step] at h
    by_cases hc : s.running.contains j = true
    · simp only [hc, if_true, Option.some.injEq] at h
      subst h
      have hm : j ∈ s.running := by simpa using hc
      simp only [List.length_cons, List.length_erase_of_mem hm]
      have : 0 < s.running.length := List.length_pos_of_mem hm
      omega
    · simp only [hc, Bool.false_eq_true, if_false] at h
      exact absurd h (by simp)

-- non-vacuity: cap 2, three jobs, an interleaving that reaches the cap
example : maxInflight 2 (init 3) [.start, .start, .start, .finish 0, .start, .finish 2, .finish 1] = 2 := by decide
example : exec 2 (init 3) [.start, .start, .finish 1, .start, .finish 0, .finish 2]
    = some { pending := [], running := [], done := [2, 0, 1] } := by decide

end CM.Sched
