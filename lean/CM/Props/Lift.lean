import CM.Props.Pipeline
set_option linter.unusedSimpArgs false
/-!
# Lifting per-codemod contracts to whole runs (C01, C02, C07, C08 clauses "alone or in sequence,
whatever the project")

`Preserves P K` is a *contract* on the abstract transformer of a codemod (validated against the real
transformers by the program-space search, never proved for them). The theorems below are the
universal part that is logic: if every codemod of a run meets the contract, every file of every
project still satisfies `P` after any sequence of codemods, whatever the detectors report, whichever
files fail, dry-run or not.
-/
namespace CM.Pipeline

/-- the contract: a transformation result that is written satisfies `P` whenever the input did -/
def Preserves (P : Path → Content → Prop) (K : Codemod) : Prop :=
  ∀ p c fs new ch deps, P p c → K.transform p c fs = .ran new ch deps → P p new

def Holds (P : Path → Content → Prop) (w : World) : Prop := ∀ p c, w.get p = some c → P p c

theorem holds_commit (P) (cfg : Cfg) (w : World) (p : Path) (c : Content) (hw : Holds P w) (hc : P p c) :
    Holds P (commit cfg w p c) := by
  intro q d hq
  unfold commit at hq
  by_cases hd : cfg.dry = true
  · simp only [hd, if_true] at hq; exact hw q d hq
  · simp only [hd, Bool.false_eq_true, if_false] at hq
    by_cases hqp : q = p
    · subst hqp
      rw [get_set_same] at hq
      cases hq; exact hc
    · rw [get_set_other _ _ _ _ hqp] at hq; exact hw q d hq

theorem processFile_write_preserves (P) (ctx : Ctx) (K : Codemod) (hK : Preserves P K) (p : Path) (c : Content)
    (fs : Option (List Finding)) (hc : P p c) (new : Content)
    (h : (processFile ctx K p (some c) fs).write = some new) : P p new := by
  unfold processFile at h
  cases fs with
  | none =>
    simp only at h
    cases ht : K.transform p c none with
    | raised b => simp [ht] at h
    | ran n ch deps =>
      simp only [ht] at h
      by_cases h1 : ch.isEmpty = true
      · simp [h1] at h
      · by_cases h2 : (ctx.diff c n == "") = true
        · simp [h1, h2] at h
        · simp only [h1, h2, Bool.false_eq_true, if_false, Option.some.injEq] at h
          subst h; exact hK p c none n ch deps hc ht
  | some l =>
    cases l with
    | nil => simp at h
    | cons a t =>
      simp only at h
      cases ht : K.transform p c (some (a :: t)) with
      | raised b => simp [ht] at h
      | ran n ch deps =>
        simp only [ht] at h
        by_cases h1 : ch.isEmpty = true
        · simp [h1] at h
        · by_cases h2 : (ctx.diff c n == "") = true
          · simp [h1, h2] at h
          · simp only [h1, h2, Bool.false_eq_true, if_false, Option.some.injEq] at h
            subst h; exact hK p c _ n ch deps hc ht

theorem processFile_none_no_write (ctx : Ctx) (K : Codemod) (p : Path) (fs : Option (List Finding)) :
    (processFile ctx K p none fs).write = none := by
  unfold processFile
  cases fs with
  | none => rfl
  | some l => cases l <;> rfl

theorem holds_applyWrites (P) (cfg : Cfg) (w : World) (rs : List (Path × FileRes)) (hw : Holds P w)
    (h : ∀ p r, (p, r) ∈ rs → ∀ c, r.write = some c → P p c) : Holds P (applyWrites cfg w rs) := by
  induction rs generalizing w with
  | nil => simpa [applyWrites] using hw
  | cons hd t ih =>
    obtain ⟨p, r⟩ := hd
    simp only [applyWrites, List.foldl_cons]
    apply ih
    · unfold writeOf
      cases hwr : r.write with
      | none => exact hw
      | some c => exact holds_commit P cfg w p c hw (h p r (by simp) c hwr)
    · intro p' r' hm; exact h p' r' (List.mem_cons_of_mem _ hm)

theorem holds_applyFiles (P) (cfg : Cfg) (ctx : Ctx) (K : Codemod) (hK : Preserves P K) (st : St) (files)
    (hw : Holds P st.world) : Holds P (applyFiles cfg ctx K st files).world := by
  simp only [applyFiles]
  apply holds_applyWrites P cfg st.world _ hw
  intro p r hm c hc
  simp only [fileResults, List.mem_map] at hm
  obtain ⟨⟨q, fs⟩, _, heq⟩ := hm
  simp only [Prod.mk.injEq] at heq
  obtain ⟨rfl, rfl⟩ := heq
  cases hg : st.world.get q with
  | none => rw [hg, processFile_none_no_write] at hc; simp at hc
  | some c0 =>
    rw [hg] at hc
    exact processFile_write_preserves P ctx K hK q c0 fs (hw q c0 hg) c hc

/-- manifest writers keep `P` too (for `P` = "parses", "no new unbound names" this is vacuous for
non-Python manifests; for `setup.py` it is the writer's contract) -/
def StoresPreserve (P : Path → Content → Prop) (stores : List Store) : Prop :=
  ∀ s ∈ stores, ∀ txt new txt' cs, P s.path txt → s.addToFile txt new = some (txt', cs) → P s.path txt'

theorem storeWrite_props (cfg : Cfg) (w : World) (s : Store) (deps : List String) :
    (storeWrite cfg w s deps).1.path = s.path ∧ (storeWrite cfg w s deps).1.addToFile = s.addToFile := by
  unfold storeWrite
  simp only
  split
  · exact ⟨rfl, rfl⟩
  · split
    · exact ⟨rfl, rfl⟩
    · split <;> exact ⟨rfl, rfl⟩

theorem holds_writeStores (P) (cfg : Cfg) (w : World) (deps : List String) (stores : List Store)
    (hs : StoresPreserve P stores) (hw : Holds P w) :
    StoresPreserve P (writeStores cfg w deps stores).1 ∧
    ∀ w' cs sp, (writeStores cfg w deps stores).2 = some (w', cs, sp) → Holds P w' := by
  induction stores with
  | nil => exact ⟨by intro s hs'; simp [writeStores] at hs', by intro w' cs sp h; simp [writeStores] at h⟩
  | cons s rest ih =>
    have hrest : StoresPreserve P rest := fun x hx => hs x (List.mem_cons_of_mem _ hx)
    have hprops := storeWrite_props cfg w s deps
    have hs1 : ∀ txt new txt' cs, P (storeWrite cfg w s deps).1.path txt → (storeWrite cfg w s deps).1.addToFile txt new = some (txt', cs)
        → P (storeWrite cfg w s deps).1.path txt' := by
      rw [hprops.1, hprops.2]; exact hs s (by simp)
    simp only [writeStores]
    cases hsw : storeWrite cfg w s deps with
    | mk s' r =>
      rw [hsw] at hs1
      cases r with
      | some wc =>
        obtain ⟨w1, cs1⟩ := wc
        simp only
        refine ⟨?_, ?_⟩
        · intro x hx
          rcases List.mem_cons.mp hx with rfl | hx
          · exact hs1
          · exact hrest x hx
        · intro w' cs sp h
          simp only [Option.some.injEq, Prod.mk.injEq] at h
          obtain ⟨rfl, _, _⟩ := h
          -- w1 = commit cfg w s.path txt' with P from the store contract
          unfold storeWrite at hsw
          simp only at hsw
          split at hsw
          · simp at hsw
          · split at hsw
            · simp at hsw
            · rename_i txt hget
              split at hsw
              · simp at hsw
              · rename_i txt' cs' hadd
                simp only [Prod.mk.injEq, Option.some.injEq] at hsw
                rw [← hsw.2.1]
                exact holds_commit P cfg w s.path txt' hw (hs s (by simp) txt _ txt' cs' (hw s.path txt hget) hadd)
      | none =>
        simp only
        obtain ⟨ih1, ih2⟩ := ih hrest
        refine ⟨?_, ?_⟩
        · intro x hx
          rcases List.mem_cons.mp hx with rfl | hx
          · exact hs1
          · exact ih1 x hx
        · intro w' cs sp h; exact ih2 w' cs sp h

theorem holds_processDeps (P) (cfg : Cfg) (id : String) (st : St) (hs : StoresPreserve P st.stores) (hw : Holds P st.world) :
    Holds P (processDeps cfg id st).world ∧ StoresPreserve P (processDeps cfg id st).stores := by
  unfold processDeps
  simp only
  split
  · exact ⟨hw, hs⟩
  · have := holds_writeStores P cfg st.world (getAcc st.accs id).deps st.stores hs hw
    cases hr : writeStores cfg st.world (getAcc st.accs id).deps st.stores with
    | mk stores' r =>
      rw [hr] at this
      cases r with
      | none => exact ⟨hw, this.1⟩
      | some x =>
        obtain ⟨w', cs, sp⟩ := x
        exact ⟨this.2 w' cs sp rfl, this.1⟩

theorem holds_applyOne (P) (cfg : Cfg) (ctx : Ctx) (st : St) (K : Codemod) (hK : Preserves P K)
    (hs : StoresPreserve P st.stores) (hw : Holds P st.world) :
    Holds P (applyOne cfg ctx st K).world ∧ StoresPreserve P (applyOne cfg ctx st K).stores := by
  unfold applyOne
  apply holds_processDeps
  · split
    · exact hs
    · simpa [applyFiles] using hs
  · split
    · exact hw
    · exact holds_applyFiles P cfg ctx K hK st _ hw

/-- **Lifting theorem.** If every codemod of the run meets the contract `Preserves P` (and the manifest
writers do), then after the run — any number of codemods in any order, any detector results, any
failures, any path options, dry or real — every file that satisfied `P` still does. -/
theorem run_preserves (P : Path → Content → Prop) (cfg : Cfg) (ctx : Ctx) (ks : List Codemod) (stores : List Store) (w : World)
    (hks : ∀ K ∈ ks, Preserves P K) (hs : StoresPreserve P stores) (hw : Holds P w) :
    Holds P (run cfg ctx ks stores w).1.world := by
  unfold run applyCodemods
  simp only
  split
  · exact hw
  · generalize hst : ({ world := w, accs := [], stores := stores } : St) = st
    have h1 : Holds P st.world := by rw [← hst]; exact hw
    have h2 : StoresPreserve P st.stores := by rw [← hst]; exact hs
    clear hst
    induction ks generalizing st with
    | nil => simpa using h1
    | cons K t ih =>
      simp only [List.foldl_cons]
      have := holds_applyOne P cfg ctx st K (hks K (by simp)) h2 h1
      exact ih (fun K' hK' => hks K' (List.mem_cons_of_mem _ hK')) _ this.1 this.2

/-- **C01.** every file that parsed before the run parses after it (`parseOK` is a parameter: the
`compile` and the `ast.parse` variants are instances) -/
theorem C01_run_preserves_parse (parseOK : Content → Prop) (cfg ctx ks stores w)
    (hks : ∀ K ∈ ks, Preserves (fun _ c => parseOK c) K) (hs : StoresPreserve (fun _ c => parseOK c) stores)
    (hw : Holds (fun _ c => parseOK c) w) :
    ∀ p c, (run cfg ctx ks stores w).1.world.get p = some c → parseOK c :=
  run_preserves _ cfg ctx ks stores w hks hs hw

/-- **C01.** a file that does not parse is never written (its transformation raised). -/
theorem C01_unparseable_untouched (ctx : Ctx) (K : Codemod) (p : Path) (c : Content) (fs) (h : K.transform p c fs = .raised true) :
    (processFile ctx K p (some c) fs).write = none := by
  unfold processFile
  cases fs with
  | none => simp [h]
  | some l => cases l <;> simp [h]

/-- **C02.** no run introduces a name that resolves to nothing: with `unresolved` any function from file
text to a set of names and `U p` the names unresolved in the original file `p`. -/
theorem C02_run_scope_safe (unresolved : Content → List String) (U : Path → List String) (cfg ctx ks stores w)
    (hks : ∀ K ∈ ks, Preserves (fun p c => ∀ n ∈ unresolved c, n ∈ U p) K)
    (hs : StoresPreserve (fun p c => ∀ n ∈ unresolved c, n ∈ U p) stores)
    (hw : Holds (fun p c => ∀ n ∈ unresolved c, n ∈ U p) w) :
    ∀ p c, (run cfg ctx ks stores w).1.world.get p = some c → ∀ n ∈ unresolved c, n ∈ U p :=
  run_preserves _ cfg ctx ks stores w hks hs hw

/-- **C08.** if every codemod keeps the observation of each file (`observe` = output and raised exception
type of executing it), any sequence does: `O p` is the observation of the original file `p`. -/
theorem C08_run_equiv {Obs : Type} (observe : Content → Obs) (O : Path → Obs) (cfg ctx ks stores w)
    (hks : ∀ K ∈ ks, Preserves (fun p c => observe c = O p) K) (hs : StoresPreserve (fun p c => observe c = O p) stores)
    (hw : Holds (fun p c => observe c = O p) w) :
    ∀ p c, (run cfg ctx ks stores w).1.world.get p = some c → observe c = O p :=
  run_preserves _ cfg ctx ks stores w hks hs hw

/-- **C07 (fixed point, per file).** the contract `Idem K`: a codemod given its own output reports
nothing. Then a second application produces no changeset and writes nothing. -/
def Idem (K : Codemod) : Prop :=
  ∀ p c fs new ch deps, K.transform p c fs = .ran new ch deps → ch ≠ [] →
    ∀ fs', ∃ new' deps', K.transform p new fs' = .ran new' [] deps'

theorem C07_second_application_noop (ctx : Ctx) (K : Codemod) (hK : Idem K) (p : Path) (c : Content) (fs fs')
    (new : Content) (h : (processFile ctx K p (some c) fs).write = some new) :
    (processFile ctx K p (some new) fs').write = none ∧ (processFile ctx K p (some new) fs').changesets = [] := by
  -- the first application ran and reported changes
  have hran : ∃ ch deps, K.transform p c fs = .ran new ch deps ∧ ch ≠ [] := by
    unfold processFile at h
    cases fs with
    | none =>
      simp only at h
      cases ht : K.transform p c none with
      | raised b => simp [ht] at h
      | ran n ch deps =>
        simp only [ht] at h
        by_cases h1 : ch.isEmpty = true
        · simp [h1] at h
        · by_cases h2 : (ctx.diff c n == "") = true
          · simp [h1, h2] at h
          · simp only [h1, h2, Bool.false_eq_true, if_false, Option.some.injEq] at h
            subst h; exact ⟨ch, deps, rfl, by simpa using h1⟩
    | some l =>
      cases l with
      | nil => simp at h
      | cons a t =>
        simp only at h
        cases ht : K.transform p c (some (a :: t)) with
        | raised b => simp [ht] at h
        | ran n ch deps =>
          simp only [ht] at h
          by_cases h1 : ch.isEmpty = true
          · simp [h1] at h
          · by_cases h2 : (ctx.diff c n == "") = true
            · simp [h1, h2] at h
            · simp only [h1, h2, Bool.false_eq_true, if_false, Option.some.injEq] at h
              subst h; exact ⟨ch, deps, rfl, by simpa using h1⟩
  obtain ⟨ch, deps, ht, hne⟩ := hran
  unfold processFile
  cases fs' with
  | none =>
    obtain ⟨n', d', h2⟩ := hK p c fs new ch deps ht hne none
    simp [h2]
  | some l =>
    cases l with
    | nil => simp
    | cons a t =>
      obtain ⟨n', d', h2⟩ := hK p c fs new ch deps ht hne (some (a :: t))
      simp [h2]

end CM.Pipeline
