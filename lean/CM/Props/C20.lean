import CM.Model.Exit
/-!
# C20 — the exit status tells the caller what happened

Property text: "The process exits 0 for a completed run (and for --list, --describe, --version,
--help), 1 when the target directory or a supplied result file does not exist or two SARIF inputs
come from the same tool, 3 for invalid or conflicting arguments or an inconsistent AI-client
configuration, and 2 when the report cannot be written. A non-zero status is never returned for
a run whose report was written."  Quantifier: "exit status == documented status for the first
applicable condition".

`documented*` below is the reading of that text as a decision list ("first applicable
condition"); the model (`CM.Exit.status`) transcribes the early returns of the code.
-/
namespace CM.Exit

/-- Does scanning token `t` after the prefix `pre` end the process on the spot? -/
def decisive (pre : List Tok) (t : Tok) : Option Nat :=
  match t with
  | .help | .version | .list | .describe => some 0
  | .missingOperand | .badChoice | .badInt => some 3
  | .incl => if Tok.excl ∈ pre then some 3 else none
  | .excl => if Tok.incl ∈ pre then some 3 else none
  | _ => none

def firstDecisive : List Tok → List Tok → Option Nat
  | _, [] => none
  | pre, t :: ts =>
    match decisive pre t with
    | some n => some n
    | none => firstDecisive (pre ++ [t]) ts

/-- Documented outcome of the argument phase: the first decisive token decides; otherwise the
command line must have exactly one directory operand and no unknown option. -/
def documentedParse (ts : List Tok) : Parse :=
  match firstDecisive [] ts with
  | some n => .exit n
  | none => if ts.count .positional = 1 ∧ Tok.unknownOpt ∉ ts then .parsed else .exit 3

/-- Documented status table of the run phase, in order of applicability. -/
def table (c : Conds) : List (Bool × Nat) :=
  [ (!c.dirExists, 1), (c.sarif = .missing, 1), (c.sarif = .duplicateTool, 1),
    (c.resultFileMissing, 1), (c.aiMisconfigured, 3), (c.output = .unwritable, 2) ]

def documentedRun (c : Conds) : Nat :=
  match (table c).find? (·.1) with
  | some e => e.2
  | none => 0

def documented (ts : List Tok) (c : Conds) : Nat :=
  match documentedParse ts with
  | .exit n => n
  | .parsed => documentedRun c

/-- State reached by the scanner after the prefix `pre` (when no decisive token occurred). -/
def stateOf (pre : List Tok) : PState :=
  { dirs := if pre.count .positional = 0 then 0 else 1
    extras := decide (Tok.unknownOpt ∈ pre) || decide (2 ≤ pre.count .positional)
    seenIncl := decide (Tok.incl ∈ pre)
    seenExcl := decide (Tok.excl ∈ pre) }

theorem parseFrom_spec (pre ts : List Tok) :
    parseFrom (stateOf pre) ts =
      match firstDecisive pre ts with
      | some n => .exit n
      | none => if (pre ++ ts).count .positional = 1 ∧ Tok.unknownOpt ∉ (pre ++ ts)
                then .parsed else .exit 3 := by
  induction ts generalizing pre with
  | nil =>
    simp only [parseFrom, firstDecisive, stateOf, List.append_nil]
    by_cases h0 : pre.count Tok.positional = 0
    · simp [h0]
    · by_cases h1 : pre.count Tok.positional = 1
      · simp [h1]
      · have : 2 ≤ pre.count Tok.positional := by omega
        simp [h0, h1, this]
  | cons t ts ih =>
    have hnext : ∀ s, s = stateOf (pre ++ [t]) →
        parseFrom s ts =
          match firstDecisive (pre ++ [t]) ts with
          | some n => .exit n
          | none => if (pre ++ t :: ts).count .positional = 1 ∧ Tok.unknownOpt ∉ (pre ++ t :: ts)
                    then .parsed else .exit 3 := by
      intro s hs; subst hs
      have := ih (pre ++ [t])
      simpa [List.append_assoc] using this
    cases t <;> simp only [parseFrom, firstDecisive, decisive]
    case unknownOpt =>
      apply hnext; simp [stateOf, List.count_append]
    case okOpt =>
      apply hnext; simp [stateOf, List.count_append]
    case incl =>
      by_cases he : Tok.excl ∈ pre
      · simp [stateOf, he]
      · simp only [stateOf, he, decide_false, Bool.false_eq_true, if_false]
        apply hnext; simp [stateOf, List.count_append, he]
    case excl =>
      by_cases he : Tok.incl ∈ pre
      · simp [stateOf, he]
      · simp only [stateOf, he, decide_false, Bool.false_eq_true, if_false]
        apply hnext; simp [stateOf, List.count_append, he]
    case positional =>
      by_cases h0 : pre.count Tok.positional = 0
      · simp only [stateOf, h0, if_true]
        apply hnext; simp [stateOf, List.count_append, h0]
      · have : (1:Nat) ≠ 0 := by omega
        simp only [stateOf, h0, if_false, this]
        apply hnext
        simp [stateOf, List.count_append, h0]
        right
        exact List.count_pos_iff.mp (by omega)

/-- **C20 (argument phase).** For every argument vector, parsing ends as documented: the first
decisive token decides (0 for the informational actions, 3 for an invalid or conflicting
argument), otherwise 3 unless there is exactly one directory operand and no unknown option. -/
theorem C20_parse_spec (ts : List Tok) : parse ts = documentedParse ts := by
  have := parseFrom_spec [] ts
  simpa [parse, documentedParse, stateOf] using this

/-- **C20 (run phase).** The early returns of `run` implement the documented decision list. -/
theorem C20_run_spec (c : Conds) : runStatus c = documentedRun c := by
  rcases c with ⟨d, s, r, a, o⟩
  cases d <;> cases s <;> cases r <;> cases a <;> cases o <;> rfl

/-- **C20.** exit status = documented status of the first applicable condition, for all
argument vectors and all condition combinations. -/
theorem C20_status_spec (ts : List Tok) (c : Conds) : status ts c = documented ts c := by
  unfold status documented
  rw [C20_parse_spec]
  cases documentedParse ts with
  | exit n => rfl
  | parsed => exact C20_run_spec c

/-- **C20.** A non-zero status is never returned for a run whose report was written. -/
theorem C20_report_written_zero (ts : List Tok) (c : Conds) :
    written ts c = true → status ts c = 0 := by
  unfold written status
  cases parse ts with
  | exit n => simp
  | parsed =>
    rcases c with ⟨d, s, r, a, o⟩
    cases d <;> cases s <;> cases r <;> cases a <;> cases o <;> simp [reportWritten, runStatus]

theorem C20_nonzero_no_report (ts : List Tok) (c : Conds) :
    status ts c ≠ 0 → written ts c = false := by
  intro h
  cases hw : written ts c with
  | false => rfl
  | true => exact absurd (C20_report_written_zero ts c hw) h

/-- **C20.** An unwritable report is status 2 whenever the run got that far. -/
theorem C20_unwritable_is_2 (ts : List Tok) (c : Conds)
    (hp : parse ts = .parsed) (hd : c.dirExists = true) (hs : c.sarif = .ok)
    (hr : c.resultFileMissing = false) (ha : c.aiMisconfigured = false)
    (ho : c.output = .unwritable) : status ts c = 2 := by
  simp [status, hp, runStatus, hd, hs, hr, ha, ho]

-- non-vacuity: concrete command lines meeting the hypotheses
example : parse [.okOpt, .positional, .incl] = .parsed := by decide
example : status [.positional, .excl, .incl, .help] ⟨true, .ok, false, false, .none⟩ = 3 := by decide
example : status [.help, .badChoice] ⟨false, .missing, true, true, .unwritable⟩ = 0 := by decide
example : status [.positional] ⟨true, .ok, false, false, .unwritable⟩ = 2 ∧
          written [.positional] ⟨true, .ok, false, false, .unwritable⟩ = false := by decide
example : written [.positional] ⟨true, .ok, false, false, .writable⟩ = true := by decide

end CM.Exit
