import CM.Generated.Registry
import CM.Props.C17
/-!
# C17 — instance theorems over the live registry (regenerated from /repo on every run)
-/
namespace CM.Registry
open CM.Generated

/-- ids in the live registry are unique -/
theorem C17_live_ids_nodup : (registry.map (·.id)).Nodup := by decide +kernel

/-- every default-excluded id is registered -/
theorem C17_live_default_excluded_registered : ∀ e ∈ defaultExcluded, e ∈ registry.map (·.id) := by
  decide +kernel

/-- origins partition the registry into find-and-fix (`pixee`) and tool-specific codemods -/
theorem C17_live_origins : ∀ c ∈ registry, c.origin ∈ ["pixee", "sonar", "semgrep", "defectdojo"] := by
  decide +kernel

/-- **C17 on the live registry**: include selection = reference selection, for all lists. -/
theorem C17_live_include (incl excl : List String) (sast : Bool) (hi : incl ≠ []) :
    matchCodemods registry defaultExcluded incl excl sast = refInclude registry incl :=
  C17_include_eq_ref registry C17_live_ids_nodup defaultExcluded incl excl sast hi

theorem C17_live_nodup (incl excl : List String) (sast : Bool) :
    ((matchCodemods registry defaultExcluded incl excl sast).map (·.id)).Nodup :=
  C17_nodup registry C17_live_ids_nodup defaultExcluded incl excl sast

end CM.Registry
