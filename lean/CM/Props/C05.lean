import CM.Model.Select
set_option linter.unusedSimpArgs false
/-!
# C05 — exactly the files selected by the include/exclude patterns are touched (selection part)

"A find-and-fix codemod modifies a file only if its path relative to the target matches an include
pattern (default: Python files) and no file-level exclude pattern (default: test, build, virtualenv
and VCS directories) … SAST-driven codemods honour the user's patterns without the default
excludes. Patterns carrying a ':line' suffix never exclude a whole file."
-/
namespace CM.Select
open CM.Glob

theorem mem_filterFiles (names pats : List String) (ex : Bool) (n : String) :
    n ∈ filterFiles names pats ex ↔ n ∈ names ∧ ∃ p ∈ effPatterns pats ex, fnm p n = true := by
  simp only [filterFiles, List.mem_flatMap, List.mem_filter]
  constructor
  · rintro ⟨p, hp, hn, hm⟩; exact ⟨hn, p, hp, hm⟩
  · rintro ⟨hn, p, hp, hm⟩; exact ⟨p, hp, hn, hm⟩

theorem mem_dedup (l : List String) (a : String) : a ∈ dedup l ↔ a ∈ l := by
  induction l with
  | nil => simp [dedup]
  | cons b t ih =>
    simp only [dedup, List.mem_cons, List.mem_filter, ih]
    by_cases h : a = b <;> simp [h]

theorem dedup_nodup (l : List String) : (dedup l).Nodup := by
  induction l with
  | nil => simp [dedup]
  | cons b t ih =>
    simp only [dedup, List.nodup_cons, List.mem_filter]
    refine ⟨by simp, ih.sublist List.filter_sublist⟩

/-- the file-level selection predicate of the property -/
def selectedBy (incl excl : List String) (f : String) : Prop :=
  (∃ p ∈ incl, fnm (stripLine p) f = true) ∧ ¬ ∃ p ∈ excl, hasColon p = false ∧ fnm p f = true

/-- **C05.** membership characterisation of `match_files`: a path is selected iff it is one of the
input paths, matches some include pattern (its `:line` suffix stripped) and matches no exclude
pattern that has no `:line` suffix. -/
theorem C05_mem_matchFiles (le : String → String → Bool) (di de paths : List String)
    (excl incl : Option (List String)) (f : String) :
    f ∈ matchFiles le di de paths excl incl ↔
      f ∈ paths ∧ selectedBy (incl.getD di) (excl.getD de) f := by
  simp only [matchFiles, List.mem_mergeSort, mem_dedup, List.mem_filter, mem_filterFiles,
    Bool.not_eq_true', List.contains_eq_mem, decide_eq_false_iff_not, selectedBy, effPatterns,
    if_true, Bool.false_eq_true, if_false, List.mem_map, List.mem_filter, Bool.not_eq_true']
  constructor
  · rintro ⟨⟨hp, q, ⟨p, hpi, rfl⟩, hm⟩, hne⟩
    refine ⟨hp, ⟨p, hpi, hm⟩, ?_⟩
    rintro ⟨p', hp', hc, hm'⟩
    exact hne ⟨hp, p', ⟨hp', hc⟩, hm'⟩
  · rintro ⟨hp, ⟨p, hpi, hm⟩, hne⟩
    refine ⟨⟨hp, stripLine p, ⟨p, hpi, rfl⟩, hm⟩, ?_⟩
    rintro ⟨_, p', ⟨hp', hc⟩, hm'⟩
    exact hne ⟨p', hp', hc, hm'⟩

/-- **C05.** no path is returned twice. -/
theorem C05_nodup (le : String → String → Bool) (di de paths : List String) (excl incl : Option (List String)) :
    (matchFiles le di de paths excl incl).Nodup :=
  (List.mergeSort_perm _ _).nodup_iff.mpr (dedup_nodup _)

/-- **C05.** "Patterns carrying a ':line' suffix never exclude a whole file": adding such a pattern
to a list of exclude patterns changes nothing at file level. -/
theorem C05_line_exclude_keeps_file (le : String → String → Bool) (di de paths ex : List String)
    (incl : Option (List String)) (p : String) (hp : hasColon p = true) :
    matchFiles le di de paths (some (p :: ex)) incl = matchFiles le di de paths (some ex) incl := by
  simp [matchFiles, filterFiles, effPatterns, List.filter_cons, hp]

/-- **C05 (find-and-fix).** no user patterns ⇒ the default include and default exclude tables apply. -/
theorem C05_find_and_fix_defaults (le : String → String → Bool) (di de files : List String) (f : String) :
    f ∈ findAndFixPaths le di de files [] [] ↔ f ∈ files ∧ selectedBy di de f := by
  simp [findAndFixPaths, orNone, C05_mem_matchFiles]

/-- **C05 (SAST).** remediation codemods never apply the default excludes: with no user exclude
pattern every path that matches an include pattern is kept. -/
theorem C05_sast_no_default_excludes (le : String → String → Bool) (di de ri paths pathIncl : List String) (f : String) :
    f ∈ filterPaths le di de ri paths pathIncl [] ↔
      f ∈ paths ∧ ∃ p ∈ (if pathIncl.isEmpty then ri else pathIncl), fnm (stripLine p) f = true := by
  simp [filterPaths, C05_mem_matchFiles, selectedBy]

/-- **C05 / C11.** the result does not depend on the enumeration order of the files nor on the
order of the patterns (for any total, transitive, antisymmetric order used by `sorted`). -/
theorem C05_perm_invariant (le : String → String → Bool)
    (trans : ∀ a b c, le a b → le b c → le a c) (total : ∀ a b, le a b || le b a)
    (antisymm : ∀ a b, le a b → le b a → a = b)
    (di de paths paths' : List String) (excl incl excl' incl' : Option (List String))
    (hp : paths.Perm paths')
    (hi : (incl.getD di).Perm (incl'.getD di)) (he : (excl.getD de).Perm (excl'.getD de)) :
    matchFiles le di de paths excl incl = matchFiles le di de paths' excl' incl' := by
  apply List.Perm.eq_of_pairwise (le := fun a b => le a b = true)
  · intro a b _ _ h1 h2; exact antisymm a b h1 h2
  · exact List.pairwise_mergeSort trans total _
  · exact List.pairwise_mergeSort trans total _
  · rw [List.perm_ext_iff_of_nodup (C05_nodup ..) (C05_nodup ..)]
    intro a
    simp only [C05_mem_matchFiles, selectedBy, hp.mem_iff, hi.mem_iff, he.mem_iff]

-- non-vacuity (membership form: `mergeSort` is defined by well-founded recursion and does not reduce by `decide`)
example : "d/e.py" ∈ matchFiles (fun a b => decide (a ≤ b)) ["**.py", "**/*.py"] ["tests/**"]
    ["b.py", "tests/t.py", "a.py", "x.txt", "d/e.py"] none none := by
  rw [C05_mem_matchFiles]; unfold selectedBy; decide
example : "tests/t.py" ∉ matchFiles (fun a b => decide (a ≤ b)) ["**.py", "**/*.py"] ["tests/**"]
    ["b.py", "tests/t.py", "a.py", "x.txt", "d/e.py"] none none := by
  rw [C05_mem_matchFiles]; unfold selectedBy; decide
example : "tests/t.py" ∈ matchFiles (fun a b => decide (a ≤ b)) ["**.py"] ["tests/**"]
    ["b.py", "tests/t.py"] (some ["b.py:3"]) none := by
  rw [C05_mem_matchFiles]; unfold selectedBy; decide

end CM.Select
