import CM.Model.Scope
/-!
# C02 — removing an unused assignment binds no name looser (scope model)

`Body.clean m` is the clean-up pass of `RemoveUnusedVariables` with three ways of deciding "unused":
`.python` (no read refers to the assignment under Python's scoping rule), `.libcst` (the code as it is
now: reads at the same level, or a non-empty `references` set as libcst attributes it) and `.ownOnly`
(the code before the fix: reads at the same level only). For the first two no name becomes unresolved;
for the third: `tag = "a"; g = lambda: tag`.
-/
namespace CM.Scope

/-- an assignment of a name that is not dead stays -/
theorem mem_assigns_cleanGo (m : Mode) (g : Bool) (D : List String) (y : String) (hy : y ∉ D) :
    ∀ t : Body, y ∈ t.assigns → y ∈ (t.cleanGo m g D).assigns
  | .nil, h => by simp [Body.assigns] at h
  | .cons (.assign n e) t, h => by
    simp only [Body.assigns, List.mem_cons] at h
    simp only [Body.cleanGo]
    split
    · rename_i hd
      rcases h with h | h
      · exact absurd (h ▸ hd.1) hy
      · exact mem_assigns_cleanGo m g D y hy t h
    · simp only [Body.assigns, List.mem_cons]
      rcases h with h | h
      · exact Or.inl h
      · exact Or.inr (mem_assigns_cleanGo m g D y hy t h)
  | .cons (.read x) t, h => by
    simp only [Body.assigns] at h
    simpa [Body.cleanGo, Body.assigns, Stmt.cleanS] using mem_assigns_cleanGo m g D y hy t h
  | .cons (.scope b) t, h => by
    simp only [Body.assigns] at h
    simpa [Body.cleanGo, Body.assigns, Stmt.cleanS] using mem_assigns_cleanGo m g D y hy t h

/-- what is no longer assigned after the pass was dead -/
theorem dead_of_not_mem_cleanGo (m : Mode) (g : Bool) (D : List String) (t : Body) (y : String)
    (hy : y ∈ t.assigns) (hn : y ∉ (t.cleanGo m g D).assigns) : y ∈ D :=
  Classical.byContradiction fun h => hn (mem_assigns_cleanGo m g D y h t hy)

/-- a way of deciding "unused" is *sound* when what it calls dead has no reference under Python's rule -/
def Sound (m : Mode) : Prop := ∀ (b : Body) (y : String), y ∈ b.dead m → b.refs y = 0

mutual
theorem unresolved_cleanGo (m : Mode) (g : Bool) (hm : Sound m) (D : List String) (Bo Bn : List String) :
    ∀ t : Body, (∀ y ∈ Bo, y ∉ Bn → t.refs y = 0) →
      ∀ x ∈ (t.cleanGo m g D).unresolvedGo Bn, x ∈ t.unresolvedGo Bo
  | .nil, _, x, hx => by simp [Body.cleanGo, Body.unresolvedGo] at hx
  | .cons s t, h, x, hx => by
    have hs : ∀ y ∈ Bo, y ∉ Bn → s.refs y = 0 := fun y hy hn => by
      have := h y hy hn; simp only [Body.refs] at this; omega
    have ht : ∀ y ∈ Bo, y ∉ Bn → t.refs y = 0 := fun y hy hn => by
      have := h y hy hn; simp only [Body.refs] at this; omega
    cases s with
    | assign n e =>
      by_cases hn : n ∈ D ∧ ¬(g = true ∧ e = true)
      · simp only [Body.cleanGo, hn] at hx
        simp only [Body.unresolvedGo, Stmt.unresolvedGo, List.nil_append]
        exact unresolved_cleanGo m g hm D Bo Bn t ht x hx
      · simp only [Body.cleanGo, hn, if_false, Body.unresolvedGo, Stmt.unresolvedGo, List.nil_append] at hx ⊢
        exact unresolved_cleanGo m g hm D Bo Bn t ht x hx
    | read r =>
      simp only [Body.cleanGo, Body.unresolvedGo, List.mem_append] at hx ⊢
      rcases hx with hx | hx
      · exact Or.inl (unresolved_cleanS m g hm Bo Bn (.read r) hs x hx)
      · exact Or.inr (unresolved_cleanGo m g hm D Bo Bn t ht x hx)
    | scope b =>
      simp only [Body.cleanGo, Body.unresolvedGo, List.mem_append] at hx ⊢
      rcases hx with hx | hx
      · exact Or.inl (unresolved_cleanS m g hm Bo Bn (.scope b) hs x hx)
      · exact Or.inr (unresolved_cleanGo m g hm D Bo Bn t ht x hx)
theorem unresolved_cleanS (m : Mode) (g : Bool) (hm : Sound m) (Bo Bn : List String) :
    ∀ s : Stmt, (∀ y ∈ Bo, y ∉ Bn → s.refs y = 0) →
      ∀ x ∈ (s.cleanS m g).unresolvedGo Bn, x ∈ s.unresolvedGo Bo
  | .assign n e, _, x, hx => by simp [Stmt.cleanS, Stmt.unresolvedGo] at hx
  | .read r, h, x, hx => by
    simp only [Stmt.cleanS, Stmt.unresolvedGo] at hx ⊢
    by_cases hr : r ∈ Bn
    · simp [hr] at hx
    · simp only [hr, if_false, List.mem_singleton] at hx
      subst hx
      by_cases hb : x ∈ Bo
      · have := h x hb hr; simp [Stmt.refs] at this
      · simp [hb]
  | .scope b, h, x, hx => by
    simp only [Stmt.cleanS, Stmt.unresolvedGo] at hx ⊢
    refine unresolved_cleanGo m g hm (b.dead m) (b.assigns ++ Bo) ((b.cleanGo m g (b.dead m)).assigns ++ Bn) b ?_ x hx
    intro y hy hn
    simp only [List.mem_append, not_or] at hy hn
    by_cases hya : y ∈ b.assigns
    · exact hm b y (dead_of_not_mem_cleanGo m g _ b y hya hn.1)
    · rcases hy with hy | hy
      · exact absurd hy hya
      · have := h y hy hn.2
        simpa [Stmt.refs, hya] using this
end

/-- for every sound way of deciding "unused", the pass leaves no name unresolved that was resolved before -/
theorem clean_scope_safe (m : Mode) (hm : Sound m) (outer : List String) (b : Body) (g : Bool := true) :
    ∀ x ∈ (b.clean m g).unresolved outer, x ∈ b.unresolved outer := by
  intro x hx
  unfold Body.unresolved Body.clean at *
  refine unresolved_cleanGo m g hm (b.dead m) _ _ b ?_ x hx
  intro y hy hn
  simp only [List.mem_append, not_or] at hy hn
  rcases hy with hy | hy
  · exact hm b y (dead_of_not_mem_cleanGo m g _ b y hy hn.1)
  · exact absurd hy hn.2

theorem sound_python : Sound .python := by
  intro b y hy; simpa [Body.dead, Body.alive] using (List.mem_filter.mp hy).2

mutual
/-- Python's references are among what libcst attributes -/
theorem refs_le_libcst (n : String) : ∀ b : Body, b.refs n ≤ b.ownReads n + b.nestedL n
  | .nil => by simp [Body.refs, Body.ownReads, Body.nestedL]
  | .cons (.assign a e) t => by
    have := refs_le_libcst n t
    simp only [Body.refs, Stmt.refs, Body.ownReads, Body.nestedL, Stmt.nestedL]; omega
  | .cons (.read r) t => by
    have := refs_le_libcst n t
    simp only [Body.refs, Stmt.refs, Body.ownReads, Body.nestedL, Stmt.nestedL]; omega
  | .cons (.scope s) t => by
    have h1 := refs_le_libcst n t
    have h2 := refs_le_libcst n s
    simp only [Body.refs, Stmt.refs, Body.ownReads, Body.nestedL, Stmt.nestedL]
    by_cases hs : n ∈ s.assigns <;> simp only [hs, if_true, if_false] <;> omega
end

theorem sound_libcst : Sound .libcst := by
  intro b y hy
  have h := (List.mem_filter.mp hy).2
  simp only [Body.alive, beq_iff_eq] at h
  have := refs_le_libcst y b
  omega

/-- **C02 (removing unused assignments, as the code decides it now).** -/
theorem C02_clean_scope_safe (outer : List String) (b : Body) :
    ∀ x ∈ (b.clean .libcst).unresolved outer, x ∈ b.unresolved outer :=
  clean_scope_safe .libcst sound_libcst outer b

/-- the same for the exact rule of the language -/
theorem C02_clean_scope_safe_python (outer : List String) (b : Body) :
    ∀ x ∈ (b.clean .python).unresolved outer, x ∈ b.unresolved outer :=
  clean_scope_safe .python sound_python outer b

/-- **the code before the fix.** `tag = "a"` / `g = lambda: tag`: no read of `tag` at the level of the
assignment, so it was removed, and the lambda's `tag` is unbound. -/
theorem C02_clean_old_unbinds_closure_read :
    let b : Body := .cons (.assign "tag" false) (.cons (.scope (.cons (.read "tag") .nil)) .nil)
    b.unresolved [] = [] ∧ (b.clean .ownOnly).unresolved [] = ["tag"] ∧ (b.clean .libcst).unresolved [] = [] := by
  decide

/-! ## effects (C08): a right-hand side that may have an effect is never removed -/

mutual
theorem effects_cleanGo (m : Mode) (D : List String) : ∀ t : Body, (t.cleanGo m true D).effects = t.effects
  | .nil => by simp [Body.cleanGo]
  | .cons (.assign n e) t => by
    have ih := effects_cleanGo m D t
    cases e <;> by_cases hn : n ∈ D <;> simp [Body.cleanGo, Body.effects, Stmt.effects, hn, ih]
  | .cons (.read x) t => by
    simp [Body.cleanGo, Body.effects, Stmt.effects, Stmt.cleanS, effects_cleanGo m D t]
  | .cons (.scope b) t => by
    simp [Body.cleanGo, Body.effects, effects_cleanS m (.scope b), effects_cleanGo m D t]
theorem effects_cleanS (m : Mode) : ∀ s : Stmt, (s.cleanS m true).effects = s.effects
  | .assign n e => by simp [Stmt.cleanS]
  | .read x => by simp [Stmt.cleanS]
  | .scope b => by simp [Stmt.cleanS, Stmt.effects, effects_cleanGo m (b.dead m) b]
end

/-- **C08 (the clean-up pass as the code is now).** Every right-hand side that may have an effect is
still there after the pass, in the same order — whatever the pass considers unused. -/
theorem C08_clean_keeps_effects (m : Mode) (b : Body) : (b.clean m).effects = b.effects :=
  effects_cleanGo m (b.dead m) b

/-- **the code before the fix.** `status = log("...")` with `status` never read: the assignment was
removed together with the call. -/
theorem C08_clean_old_drops_effect :
    let b : Body := .cons (.assign "status" true) (.cons (.assign "pad" false) .nil)
    b.effects = ["status"] ∧ (b.clean .libcst false).effects = [] ∧
    b.clean .libcst = .cons (.assign "status" true) .nil := by
  exact ⟨by decide, by decide, rfl⟩

-- non-vacuity: something is removed by the pass as it is now, and what a closure reads stays
example : (Body.cons (.assign "u" false) (.cons (.assign "tag" false) (.cons (.scope (.cons (.read "tag") .nil)) .nil))).clean .libcst
    = .cons (.assign "tag" false) (.cons (.scope (.cons (.read "tag") .nil)) .nil) := by rfl

end CM.Scope
