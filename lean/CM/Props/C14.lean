import CM.Model.Deps
import CM.Props.Pipeline
set_option linter.unusedSimpArgs false
/-!
# C14 — adding a dependency keeps the manifest valid, complete and duplicate-free
-/
namespace CM.Deps

/-- **C14 (already declared ⇒ untouched).** if every needed requirement is already declared — in any
version, spelling or case, i.e. with the same normalised name — nothing is added. -/
theorem C14_declared_nothing_added (declared deps : List String)
    (h : ∀ d ∈ deps, hasRequirement declared d = true) : add declared deps = (declared, []) := by
  unfold add
  induction deps with
  | nil => rfl
  | cons d t ih =>
    simp only [List.foldl_cons, h d (by simp), if_true]
    exact ih (fun x hx => h x (List.mem_cons_of_mem _ hx))

/-- normalised-name comparison: case and `-` / `_` / `.` spelling do not matter -/
theorem C14_canon_examples : canon "Security" = canon "security" ∧ canon "flask_wtf" = canon "Flask-WTF"
    ∧ canon "a..b" = canon "a-b" ∧ canon "defusedxml" ≠ canon "defused-xml" := by decide

/-- a requirement just added is declared afterwards: a second run adds nothing -/
theorem hasRequirement_append_self (declared : List String) (d : String) : hasRequirement (declared ++ [d]) d = true := by
  simp [hasRequirement]

theorem hasRequirement_mono (declared extra : List String) (d : String) (h : hasRequirement declared d = true) :
    hasRequirement (declared ++ extra) d = true := by
  simp only [hasRequirement, List.map_append, List.contains_eq_mem, List.mem_append, decide_eq_true_eq] at *
  exact Or.inl h

/-- **C14 (second run adds nothing).** after `add`, every requested requirement is declared. -/
theorem C14_add_then_declared (declared deps : List String) :
    ∀ d ∈ deps, hasRequirement (add declared deps).1 d = true := by
  unfold add
  suffices ∀ (deps : List String) (acc : List String × List String),
      (∀ d, hasRequirement acc.1 d = true →
        hasRequirement (deps.foldl (fun (acc : List String × List String) d =>
          if hasRequirement acc.1 d then acc else (acc.1 ++ [d], acc.2 ++ [d])) acc).1 d = true) ∧
      (∀ d ∈ deps, hasRequirement (deps.foldl (fun (acc : List String × List String) d =>
          if hasRequirement acc.1 d then acc else (acc.1 ++ [d], acc.2 ++ [d])) acc).1 d = true) from
    (this deps (declared, [])).2
  intro deps
  induction deps with
  | nil => intro acc; exact ⟨fun d h => h, fun d hd => by simp at hd⟩
  | cons x t ih =>
    intro acc
    simp only [List.foldl_cons]
    by_cases hx : hasRequirement acc.1 x = true
    · simp only [hx, if_true]
      refine ⟨(ih acc).1, ?_⟩
      intro d hd
      rcases List.mem_cons.mp hd with rfl | hd
      · exact (ih acc).1 _ hx
      · exact (ih acc).2 d hd
    · simp only [hx, Bool.false_eq_true, if_false]
      have := ih (acc.1 ++ [x], acc.2 ++ [x])
      refine ⟨fun d h => this.1 d (hasRequirement_mono _ _ _ h), ?_⟩
      intro d hd
      rcases List.mem_cons.mp hd with rfl | hd
      · exact this.1 _ (hasRequirement_append_self _ _)
      · exact this.2 d hd

theorem C14_second_add_nothing (declared deps : List String) :
    (add (add declared deps).1 deps).2 = [] := by
  rw [C14_declared_nothing_added _ _ (C14_add_then_declared declared deps)]

theorem fixLast_length (l : List String) : (fixLast l).length = l.length := by
  induction l with
  | nil => rfl
  | cons a t ih =>
    cases t with
    | nil => simp [fixLast]
    | cons b t' => simp only [fixLast, List.length_cons] at *; omega

theorem fixLast_getElem (l : List String) (i : Nat) (h : i + 1 < l.length) : (fixLast l)[i]? = l[i]? := by
  induction l generalizing i with
  | nil => simp at h
  | cons a t ih =>
    cases t with
    | nil => simp at h
    | cons b t' =>
      simp only [fixLast]
      cases i with
      | zero => rfl
      | succ j =>
        simp only [List.getElem?_cons_succ]
        exact ih j (by simp at h ⊢; omega)

/-- **C14 (requirements.txt keeps every original line).** the new file is the old lines — the last one
completed with a newline if it lacked one — followed by one line per added requirement, in order. -/
theorem C14_req_preserves (lines reqs new : List String) (h : reqAdd lines reqs = some new) :
    new.length = lines.length + reqs.length ∧
    (∀ i, i + 1 < lines.length → new[i]? = lines[i]?) ∧
    new.drop lines.length = reqs.map (· ++ "\n") := by
  unfold reqAdd at h
  by_cases he : lines.isEmpty = true
  · simp [he] at h
  · simp only [he, Bool.false_eq_true, if_false, Option.some.injEq] at h
    subst h
    refine ⟨by simp [fixLast_length], ?_, ?_⟩
    · intro i hi
      rw [List.getElem?_append_left (by rw [fixLast_length]; omega)]
      exact fixLast_getElem lines i hi
    · rw [← fixLast_length lines, List.drop_left]

/-- **C14 (each needed requirement exactly once).** with distinct requirements none is written twice. -/
theorem C14_req_each_once (lines reqs new : List String) (h : reqAdd lines reqs = some new) (r : String)
    (hn : reqs.Nodup) (hr : r ∈ reqs) : ((new.drop lines.length).count (r ++ "\n")) = 1 := by
  rw [(C14_req_preserves lines reqs new h).2.2]
  have hinj : Function.Injective (fun s : String => s ++ "\n") := by
    intro a b hab
    have := congrArg String.toList hab
    simp only [String.toList_append] at this
    exact String.toList_inj.mp (List.append_cancel_right this)
  have hc : ∀ l : List String, List.count (r ++ "\n") (l.map (fun s => s ++ "\n")) = List.count r l := by
    intro l
    induction l with
    | nil => rfl
    | cons a t ih =>
      simp only [List.map_cons, List.count_cons, ih]
      by_cases hra : a = r
      · subst hra; simp
      · have : ¬ (a ++ "\n" = r ++ "\n") := fun e => hra (hinj e)
        simp [hra, this]
  rw [hc]
  rw [hn.count]; simp [hr]

/-- **C14 (setup.cfg keeps every original line).** the new lines are the old ones with the added
requirements inserted contiguously after line `idx`. -/
theorem C14_cfg_preserves (lines : List String) (lastDep : String) (reqs new : List String)
    (h : cfgBuildNewline lines lastDep reqs = some new) :
    ∃ idx, idx < lines.length ∧ new.take idx = lines.take idx ∧ new[idx]? = some (terminate (lines.getD idx "")) ∧
      new.drop (idx + 1 + reqs.length) = lines.drop (idx + 1) ∧ new.length = lines.length + reqs.length := by
  unfold cfgBuildNewline at h
  cases hi : (lines.map stripS).idxOf? lastDep with
  | none => simp [hi] at h
  | some idx =>
    simp only [hi, Option.some.injEq] at h
    subst h
    have hlt : idx < lines.length := by
      have := List.idxOf?_eq_some_iff.mp hi
      obtain ⟨h1, _⟩ := this
      simpa using h1
    have hlen : (lines.take idx).length = idx := by simp; omega
    refine ⟨idx, hlt, ?_, ?_, ?_, ?_⟩
    · rw [List.append_assoc, List.append_assoc, List.take_left' hlen]
    · rw [List.append_assoc, List.append_assoc, List.getElem?_append_right (by omega)]
      simp [hlen]
    · have : (lines.take idx ++ [terminate (lines.getD idx "")] ++ reqs.map (fun r => leadingWs (lines.getD idx "") ++ r ++ "\n")).length = idx + 1 + reqs.length := by
        simp; omega
      rw [List.drop_left' this]
    · simp; omega

/-- **C14 (setup.cfg gains each requirement once, right after the last dependency).** -/
theorem C14_cfg_each_once (lines : List String) (lastDep : String) (reqs new : List String)
    (h : cfgBuildNewline lines lastDep reqs = some new) :
    ∃ idx, idx < lines.length ∧ ∀ k (hk : k < reqs.length),
      new[idx + 1 + k]? = some (leadingWs (lines.getD idx "") ++ reqs[k] ++ "\n") := by
  unfold cfgBuildNewline at h
  cases hi : (lines.map stripS).idxOf? lastDep with
  | none => simp [hi] at h
  | some idx =>
    simp only [hi, Option.some.injEq] at h
    subst h
    have hlt : idx < lines.length := by
      have := List.idxOf?_eq_some_iff.mp hi
      obtain ⟨h1, _⟩ := this
      simpa using h1
    refine ⟨idx, hlt, ?_⟩
    intro k hk
    have hlen : (lines.take idx ++ [terminate (lines.getD idx "")]).length = idx + 1 := by simp; omega
    rw [List.append_assoc (lines.take idx ++ [terminate (lines.getD idx "")]), List.getElem?_append_right (by omega)]
    simp only [hlen, Nat.add_sub_cancel_left]
    rw [List.getElem?_append_left (by simpa using hk)]
    simp [hk]

/-- a line that has its terminator is left as it is: for a manifest whose dependency lines all end in a
newline the writer only inserts -/
theorem terminate_of_terminated (s : String) (h : s.endsWith "\n" = true) : terminate s = s := by simp [terminate, h]

-- non-vacuity
example : ∃ new, reqAdd ["requests\n", "flask"] ["security==1.3.1"] = some new ∧ new.length = 3 := ⟨_, rfl, by simp [fixLast]⟩
example : add ["Security", "requests"] ["security==1.3.1", "defusedxml"] = (["Security", "requests", "security==1.3.1", "defusedxml"], ["security==1.3.1", "defusedxml"]) := by decide

end CM.Deps

namespace CM.Pipeline

/-- **C14 (at most one store).** `process_dependencies` writes at most one manifest: every path other
than the winning store's is unchanged. -/
theorem C14_at_most_one_store (cfg : Cfg) (w : World) (deps : List String) (stores : List Store) :
    ∀ w' cs sp, (writeStores cfg w deps stores).2 = some (w', cs, sp) → ∀ q, q ≠ sp → w'.get q = w.get q := by
  induction stores with
  | nil => intro w' cs sp h; simp [writeStores] at h
  | cons s rest ih =>
    intro w' cs sp h q hq
    simp only [writeStores] at h
    cases hs : storeWrite cfg w s deps with
    | mk s' r =>
      cases r with
      | none =>
        simp only [hs] at h
        exact ih w' cs sp h q hq
      | some wc =>
        obtain ⟨w1, cs1⟩ := wc
        simp only [hs, Option.some.injEq, Prod.mk.injEq] at h
        obtain ⟨rfl, _, rfl⟩ := h
        unfold storeWrite at hs
        simp only at hs
        split at hs
        · simp at hs
        · split at hs
          · simp at hs
          · split at hs
            · simp at hs
            · simp only [Prod.mk.injEq, Option.some.injEq] at hs
              rw [← hs.2.1]
              exact get_commit_other cfg w s.path q _ hq

/-- no store at all: the run goes on and records that the dependency could not be added -/
theorem C14_no_store_reports (cfg : Cfg) (id : String) (st : St) (hs : st.stores = [])
    (hd : (getAcc st.accs id).deps ≠ []) :
    (processDeps cfg id st).world = st.world ∧ (getAcc (processDeps cfg id st).accs id).depStore = none := by
  unfold processDeps
  have : (getAcc st.accs id).deps.isEmpty = false := by
    cases h : (getAcc st.accs id).deps with
    | nil => exact absurd h hd
    | cons a t => rfl
  simp [this, hs, writeStores, getAcc_setAcc_same]

end CM.Pipeline
