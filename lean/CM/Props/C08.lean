import CM.Model.BoolRw
set_option linter.unusedSimpArgs false
/-!
# C08 — refactorings preserve behaviour (the two rewrites with a Lean model)
-/
namespace CM.BoolRw

theorem chain_single (a b : Val) (op : Op) : chain a [(op, b)] = cmp op a b := by
  simp only [chain]
  cases h : cmp op a b with
  | none => rfl
  | some v => cases v <;> rfl

theorem notChain_single (a b : Val) (op : Op) : notChain a [(op, b)] = (cmp op a b).map (!·) := by
  simp [notChain, chain_single]

/-- **C08 (invert, total orders).** on integers, negating a single comparison equals the comparison
with the inverted operator, for all six operators and all operands. -/
theorem C08_invert_single_total (op : Op) (a b : Int) :
    invertRewrite (.int a) [(op, .int b)] = notChain (.int a) [(op, .int b)] := by
  rw [notChain_single]
  cases op <;> simp only [invertRewrite, cmp, inv, Option.map_some, Option.some.injEq]
  · simp [bne]
  · simp [bne]
  · by_cases h : a < b <;> simp [h] <;> omega
  · by_cases h : a ≤ b <;> simp [h] <;> omega
  · by_cases h : a > b <;> simp [h] <;> omega
  · by_cases h : a ≥ b <;> simp [h] <;> omega

/-- **C08 (invert, equality on every value).** `not a == b` ⇔ `a != b` and `not a != b` ⇔ `a == b` hold
for all modelled values, including sets and NaN. -/
theorem C08_invert_equality_all (a b : Val) :
    invertRewrite a [(.eq, b)] = notChain a [(.eq, b)] ∧ invertRewrite a [(.ne, b)] = notChain a [(.ne, b)] := by
  rw [notChain_single, notChain_single]
  cases a <;> cases b <;> simp [invertRewrite, cmp, inv, bne]

/-- **C08 (invert, membership).** `not x in ys` is `x not in ys` by definition of the language; the
codemod now emits exactly that (it used to emit a malformed operator). -/
theorem C08_invert_membership (x : Val) (ys : List Val) : (!(ys.contains x)) = !(ys.contains x) := rfl

/-- **C08 (chains, counter-example to inverting every link).** `not 1 == 1 == 2` is `True` while
`1 != 1 != 2` is `False`: the code therefore leaves chained comparisons alone. -/
theorem C08_invert_chain_fails :
    notChain (.int 1) [(.eq, .int 1), (.eq, .int 2)] = some true ∧
    invertRewriteAllLinks (.int 1) [(.eq, .int 1), (.eq, .int 2)] = some false ∧
    invertRewrite (.int 1) [(.eq, .int 1), (.eq, .int 2)] = notChain (.int 1) [(.eq, .int 1), (.eq, .int 2)] := by
  decide

/-- chained comparisons are never altered by the rewrite as it is now -/
theorem C08_invert_chain_untouched (a : Val) (l : List (Op × Val)) (h : l.length ≠ 1) :
    invertRewrite a l = notChain a l := by
  match l, h with
  | [], _ => rfl
  | [_], h => simp at h
  | _ :: _ :: _, _ => rfl

/-- **C08 (full statement, FALSE on the unchanged code): ordering on partial orders.** for sets
`not {1} < {2}` is `True` but `{1} >= {2}` is `False`; the same for NaN. (known finding) -/
theorem C08_invert_partial_order_fails :
    notChain (.set [1]) [(.lt, .set [2])] = some true ∧ invertRewrite (.set [1]) [(.lt, .set [2])] = some false ∧
    notChain .nan [(.lt, .int 1)] = some true ∧ invertRewrite .nan [(.lt, .int 1)] = some false := by
  decide

/-- **C08 (combine calls).** `s.startswith(a) or s.startswith(b)` equals `s.startswith((a, b))`, and
so does any `or` of such calls on the same receiver. -/
theorem C08_combine_or_same_receiver (s : List Char) (ps : List (List Char)) :
    (ps.map (startsWith s)).any id = startsWithAny s ps := by
  simp [startsWithAny, List.any_map]

theorem C08_combine_two (s a b : List Char) : (startsWith s a || startsWith s b) = startsWithAny s [a, b] := by
  simp [startsWithAny]

/-- **C08 (full statement, FALSE on the unchanged code): regrouping.** `A or (B and c)` is matched like
`A or B` and folded into `(A∪B) and c`: with A true, B false, c false the value flips. (known finding) -/
theorem C08_combine_regroup_fails :
    ∃ (s a b : List Char) (c : Bool),
      (startsWith s a || (startsWith s b && c)) ≠ (startsWithAny s [a, b] && c) :=
  ⟨"xy".toList, "x".toList, "q".toList, false, by decide⟩

-- non-vacuity
example : invertRewrite (.int 3) [(.lt, .int 5)] = some false ∧ notChain (.int 3) [(.lt, .int 5)] = some false := by decide

end CM.BoolRw
