import CM.Model.Prec
import CM.Props.Prec
/-!
# C08 — what `invert` does to the *value* of an expression over the integers

Python's truthiness semantics on a single value domain (integers; comparisons give 0 / 1, `not x` is
1 exactly when `x` is 0, `a and b` / `a or b` return an operand). The whole bottom-up pass of
`leave_UnaryOperation` — nested `not`s, comparisons inside operands, chains (left alone) — keeps the
value of every expression of this fragment. (`is` / `in` comparisons are outside it; partial orders are
the recorded finding of `CM.BoolRw`.)
-/
namespace CM.Prec
open E

theorem evalZ_setPar (env : String → Int) (b : Bool) (e : E) : evalZ env (e.setPar b) = evalZ env e := by
  cases e <;> simp [setPar, evalZ]
  all_goals (rename_i k _ _ _; cases k <;> simp [evalZ])

theorem evalZ_addPar (env : String → Int) (p : Bool) (e : E) : evalZ env (addPar p e) = evalZ env e := by
  simp [addPar, evalZ_setPar]

/-- negating a comparison of two integers is the comparison with the inverted operator -/
theorem cmpZ_inv (o : Cop) (a b v : Int) (h : cmpZ o a b = some v) : cmpZ (inv o) a b = some (b2i (v == 0)) := by
  cases o
  case eq => simp only [cmpZ, inv, Option.some.injEq] at h ⊢; subst h; by_cases hab : a = b <;> simp [b2i, hab]
  case ne => simp only [cmpZ, inv, Option.some.injEq] at h ⊢; subst h; by_cases hab : a = b <;> simp [b2i, hab]
  case lt => simp only [cmpZ, inv, Option.some.injEq] at h ⊢; subst h; by_cases hab : a < b <;> simp [b2i, hab] <;> omega
  case ge => simp only [cmpZ, inv, Option.some.injEq] at h ⊢; subst h; by_cases hab : a ≥ b <;> simp [b2i, hab] <;> omega
  case gt => simp only [cmpZ, inv, Option.some.injEq] at h ⊢; subst h; by_cases hab : a > b <;> simp [b2i, hab] <;> omega
  case le => simp only [cmpZ, inv, Option.some.injEq] at h ⊢; subst h; by_cases hab : a ≤ b <;> simp [b2i, hab] <;> omega
  all_goals simp [cmpZ] at h

/-- **one node** -/
theorem invertStep_evalZ (env : String → Int) (e : E) (v : Int) (h : evalZ env e = some v) :
    evalZ env (invertStep true e) = some v := by
  unfold invertStep
  split
  · rename_i op l r pc pn
    simp only [if_true, evalZ_addPar]
    simp only [evalZ, Option.map_eq_some_iff] at h
    obtain ⟨w, hw, hv⟩ := h
    cases hl : evalZ env l with
    | none => simp [hl, bind, Option.bind] at hw
    | some a =>
      cases hr : evalZ env r with
      | none => simp [hl, hr, bind, Option.bind] at hw
      | some b =>
        simp only [hl, hr, bind, Option.bind] at hw
        have hop : ∀ o, cmpZ o a b = some w → o ≠ .is_ := by intro o ho hc; subst hc; simp [cmpZ] at ho
        have hne := hop op hw
        have : newComparison op l r = cmp (inv op) l r false := by
          unfold newComparison
          split
          · exact absurd rfl hne
          · exact absurd rfl hne
          · rfl
        rw [this]
        simp only [evalZ, hl, hr, bind, Option.bind]
        rw [cmpZ_inv op a b w hw, hv]
  · exact h

/-- **C08 (invert-boolean-check keeps the value on the integers).** for every environment and every
expression of the fragment, the rewritten expression has the same value. -/
theorem C08_invert_preserves_value (env : String → Int) :
    ∀ (e : E) (v : Int), evalZ env e = some v → evalZ env (invert true e) = some v := by
  intro e
  induction e with
  | atom n p => intro v h; exact h
  | call r ps p => intro v h; exact h
  | neg x p ih =>
    intro v h
    simp only [invert, evalZ, Option.map_eq_some_iff] at h ⊢
    obtain ⟨w, hw, hv⟩ := h; exact ⟨w, ih w hw, hv⟩
  | lnot x p ih =>
    intro v h
    simp only [invert]
    apply invertStep_evalZ
    simp only [evalZ, Option.map_eq_some_iff] at h ⊢
    obtain ⟨w, hw, hv⟩ := h; exact ⟨w, ih w hw, hv⟩
  | bin k l r p ihl ihr =>
    intro v h
    cases hl : evalZ env l with
    | none => cases k <;> simp [evalZ, hl, bind, Option.bind] at h
    | some a =>
      cases hr : evalZ env r with
      | none => cases k <;> simp [evalZ, hl, hr, bind, Option.bind] at h
      | some b =>
        cases k <;> simp only [invert, evalZ, hl, hr, ihl a hl, ihr b hr, bind, Option.bind] at h ⊢ <;> exact h
  | cmp o l r p ihl ihr =>
    intro v h
    cases hl : evalZ env l with
    | none => simp [evalZ, hl, bind, Option.bind] at h
    | some a =>
      cases hr : evalZ env r with
      | none => simp [evalZ, hl, hr, bind, Option.bind] at h
      | some b => simp only [invert, evalZ, hl, hr, ihl a hl, ihr b hr, bind, Option.bind] at h ⊢; exact h
  | chain l o₁ x o₂ r p ihl ihx ihr =>
    intro v h
    cases hl : evalZ env l with
    | none => simp [evalZ, hl, bind, Option.bind] at h
    | some a =>
      cases hx : evalZ env x with
      | none => simp [evalZ, hl, hx, bind, Option.bind] at h
      | some b =>
        cases hr : evalZ env r with
        | none => simp [evalZ, hl, hx, hr, bind, Option.bind] at h
        | some c => simp only [invert, evalZ, hl, hx, hr, ihl a hl, ihx b hx, ihr c hr, bind, Option.bind] at h ⊢; exact h
  | ifx t c f p iht ihc ihf =>
    intro v h
    cases ht : evalZ env t with
    | none => simp [evalZ, ht, bind, Option.bind] at h
    | some a =>
      cases hc : evalZ env c with
      | none => simp [evalZ, ht, hc, bind, Option.bind] at h
      | some b =>
        cases hf : evalZ env f with
        | none => simp [evalZ, ht, hc, hf, bind, Option.bind] at h
        | some d => simp only [invert, evalZ, ht, hc, hf, iht a ht, ihc b hc, ihf d hf, bind, Option.bind] at h ⊢; exact h
  | named n v' p ih => intro v h; simp [evalZ] at h
  | tup a b p iha ihb => intro v h; simp [evalZ] at h

-- non-vacuity: `(not a == b) + 1` and `not not a < b` have values, and the rewritten trees have the same ones
example : evalZ (fun n => if n = "a" then 3 else 5)
    (bin .arith (lnot (cmp .eq (atom "a" false) (atom "b" false) false) true) (atom "b" false) false) = some 6 := by decide
example : invert true (lnot (lnot (cmp .lt (atom "a" false) (atom "b" false) false) false) false)
    = cmp .lt (atom "a" false) (atom "b" false) false := by decide

end CM.Prec
