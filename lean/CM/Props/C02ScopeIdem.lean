import CM.Props.C02Scope
/-!
# C07 — the unused-assignment clean-up reaches its result in one application (scope model, the code as it is)
-/
namespace CM.Scope

theorem ownReads_cleanGo (m : Mode) (g : Bool) (n : String) (D : List String) :
    ∀ t : Body, (t.cleanGo m g D).ownReads n = t.ownReads n
  | .nil => by simp [Body.cleanGo]
  | .cons (.assign x e) t => by
    simp only [Body.cleanGo]
    split <;> simp [Body.ownReads, ownReads_cleanGo m g n D t]
  | .cons (.read x) t => by simp [Body.cleanGo, Stmt.cleanS, Body.ownReads, ownReads_cleanGo m g n D t]
  | .cons (.scope b) t => by simp [Body.cleanGo, Stmt.cleanS, Body.ownReads, ownReads_cleanGo m g n D t]

/-- the pass adds no assignment -/
theorem assigns_cleanGo_subset (m : Mode) (g : Bool) (D : List String) (y : String) :
    ∀ t : Body, y ∈ (t.cleanGo m g D).assigns → y ∈ t.assigns
  | .nil, h => by simp [Body.cleanGo, Body.assigns] at h
  | .cons (.assign x e) t, h => by
    simp only [Body.cleanGo] at h
    simp only [Body.assigns, List.mem_cons]
    split at h
    · exact Or.inr (assigns_cleanGo_subset m g D y t h)
    · simp only [Body.assigns, List.mem_cons] at h
      exact h.elim Or.inl fun h => Or.inr (assigns_cleanGo_subset m g D y t h)
  | .cons (.read x) t, h => by
    simp only [Body.cleanGo, Stmt.cleanS, Body.assigns] at h ⊢
    exact assigns_cleanGo_subset m g D y t h
  | .cons (.scope b) t, h => by
    simp only [Body.cleanGo, Stmt.cleanS, Body.assigns] at h ⊢
    exact assigns_cleanGo_subset m g D y t h

theorem rbl_zero_of_not_assigned (n : String) : ∀ t : Body, n ∉ t.assigns → t.readsBeforeLast n = 0
  | .nil, _ => by simp [Body.readsBeforeLast]
  | .cons (.assign x e) t, h => by
    simp only [Body.assigns, List.mem_cons, not_or] at h
    simp [Body.readsBeforeLast, h.2]
  | .cons (.read x) t, h => by
    simp only [Body.assigns] at h
    simp [Body.readsBeforeLast, h]
  | .cons (.scope b) t, h => by
    simp only [Body.assigns] at h
    simp [Body.readsBeforeLast, h]

theorem rbl_le_ownReads (n : String) : ∀ t : Body, t.readsBeforeLast n ≤ t.ownReads n
  | .nil => by simp [Body.readsBeforeLast, Body.ownReads]
  | .cons (.assign x e) t => by
    have := rbl_le_ownReads n t
    simp only [Body.readsBeforeLast, Body.ownReads]; split <;> omega
  | .cons (.read x) t => by
    have := rbl_le_ownReads n t
    simp only [Body.readsBeforeLast, Body.ownReads]; split <;> omega
  | .cons (.scope b) t => by
    have := rbl_le_ownReads n t
    simp only [Body.readsBeforeLast, Body.ownReads]; split <;> omega

/-- assignments of a name the pass does not consider dead stay where they are, so do the reads before the last of them -/
theorem rbl_cleanGo (m : Mode) (g : Bool) (n : String) (D : List String) (hn : n ∉ D) :
    ∀ t : Body, (t.cleanGo m g D).readsBeforeLast n = t.readsBeforeLast n
  | .nil => by simp [Body.cleanGo]
  | .cons s t => by
    have ih := rbl_cleanGo m g n D hn t
    have hiff : n ∈ (t.cleanGo m g D).assigns ↔ n ∈ t.assigns :=
      ⟨assigns_cleanGo_subset m g D n t, mem_assigns_cleanGo m g D n hn t⟩
    cases s with
    | assign x e =>
      simp only [Body.cleanGo]
      split
      · -- removed: `x` is dead, so it is not `n`
        rename_i hx
        by_cases hnt : n ∈ t.assigns
        · simp [Body.readsBeforeLast, hnt, ih]
        · have : n ∉ (t.cleanGo m g D).assigns := fun h => hnt (hiff.mp h)
          simp [Body.readsBeforeLast, hnt, rbl_zero_of_not_assigned n _ this]
      · simp only [Body.readsBeforeLast, hiff, ih]
    | read x => simp only [Body.cleanGo, Stmt.cleanS, Body.readsBeforeLast, hiff, ih]
    | scope b => simp only [Body.cleanGo, Stmt.cleanS, Body.readsBeforeLast, hiff, ih]

mutual
/-- what libcst attributes to the assignments of `n` from enclosed scopes is the same after the pass -/
theorem nestedL_cleanGo (g : Bool) (n : String) (D : List String) :
    ∀ t : Body, (t.cleanGo .libcst g D).nestedL n = t.nestedL n
  | .nil => by simp [Body.cleanGo]
  | .cons (.assign x e) t => by
    simp only [Body.cleanGo]
    split <;> simp [Body.nestedL, Stmt.nestedL, nestedL_cleanGo g n D t]
  | .cons (.read x) t => by simp [Body.cleanGo, Stmt.cleanS, Body.nestedL, Stmt.nestedL, nestedL_cleanGo g n D t]
  | .cons (.scope b) t => by
    simp only [Body.cleanGo, Body.nestedL, nestedL_cleanGo g n D t, nestedL_cleanS g n (.scope b)]
theorem nestedL_cleanS (g : Bool) (n : String) : ∀ s : Stmt, (s.cleanS .libcst g).nestedL n = s.nestedL n
  | .assign x e => by simp [Stmt.cleanS]
  | .read x => by simp [Stmt.cleanS]
  | .scope b => by
    have ihn := nestedL_cleanGo g n (b.dead .libcst) b
    have iho := ownReads_cleanGo .libcst g n (b.dead .libcst) b
    simp only [Stmt.cleanS, Stmt.nestedL]
    by_cases hb : n ∈ b.assigns
    · by_cases hd : n ∈ b.dead .libcst
      · -- dead in the enclosed scope: no read of it there at all
        have h0 : b.ownReads n + b.nestedL n = 0 := by
          have := (List.mem_filter.mp hd).2
          simpa [Body.alive] using this
        have hr : b.readsBeforeLast n = 0 := by have := rbl_le_ownReads n b; omega
        simp only [hb, if_true, hr]
        split
        · have := rbl_le_ownReads n (b.cleanGo .libcst g (b.dead .libcst)); omega
        · omega
      · have hb' : n ∈ (b.cleanGo .libcst g (b.dead .libcst)).assigns := mem_assigns_cleanGo .libcst g _ n hd b hb
        simp only [hb, hb', if_true, rbl_cleanGo .libcst g n _ hd b]
    · have hb' : n ∉ (b.cleanGo .libcst g (b.dead .libcst)).assigns := fun h => hb (assigns_cleanGo_subset .libcst g _ n b h)
      simp only [hb, hb', if_false, ihn, iho]
end

theorem alive_clean (g : Bool) (b : Body) (n : String) : (b.clean .libcst g).alive .libcst n = b.alive .libcst n := by
  simp [Body.alive, Body.clean, ownReads_cleanGo, nestedL_cleanGo]

/-- what is dead after the pass was dead before -/
theorem dead_clean_subset (g : Bool) (b : Body) : ∀ y ∈ (b.clean .libcst g).dead .libcst, y ∈ b.dead .libcst := by
  intro y hy
  have h := List.mem_filter.mp hy
  refine List.mem_filter.mpr ⟨assigns_cleanGo_subset .libcst g _ y b h.1, ?_⟩
  rw [← alive_clean g b y]; exact h.2

mutual
theorem cleanGo_cleanGo (g : Bool) (D D' : List String) (hsub : ∀ y ∈ D', y ∈ D) :
    ∀ t : Body, (t.cleanGo .libcst g D).cleanGo .libcst g D' = t.cleanGo .libcst g D
  | .nil => by simp [Body.cleanGo]
  | .cons (.assign x e) t => by
    have ih := cleanGo_cleanGo g D D' hsub t
    simp only [Body.cleanGo]
    split
    · exact ih
    · rename_i hk
      simp only [Body.cleanGo]
      have : ¬(x ∈ D' ∧ ¬(g = true ∧ e = true)) := fun h => hk ⟨hsub x h.1, h.2⟩
      rw [if_neg this, ih]
  | .cons (.read x) t => by simp [Body.cleanGo, Stmt.cleanS, cleanGo_cleanGo g D D' hsub t]
  | .cons (.scope b) t => by
    simp only [Body.cleanGo, cleanGo_cleanGo g D D' hsub t, cleanS_cleanS g (.scope b)]
    simp [Stmt.cleanS]
theorem cleanS_cleanS (g : Bool) : ∀ s : Stmt, (s.cleanS .libcst g).cleanS .libcst g = s.cleanS .libcst g
  | .assign x e => by simp [Stmt.cleanS]
  | .read x => by simp [Stmt.cleanS]
  | .scope b => by
    simp only [Stmt.cleanS]
    congr 1
    exact cleanGo_cleanGo g (b.dead .libcst) _ (dead_clean_subset g b) b
end

/-- **C07 (the clean-up pass of sql-parameterization, as the code decides "unused" now).** A second
application changes nothing: what the pass leaves is either read, or has a right-hand side with an
effect, and neither changes by removing the rest. -/
theorem C07_clean_idempotent (b : Body) (g : Bool := true) : (b.clean .libcst g).clean .libcst g = b.clean .libcst g :=
  cleanGo_cleanGo g (b.dead .libcst) _ (dead_clean_subset g b) b

-- non-vacuity: a body the first application does change
example : (Body.cons (.assign "u" false) (.cons (.assign "s" true) (.cons (.scope (.cons (.assign "v" false) .nil)) .nil))).clean .libcst
    = .cons (.assign "s" true) (.cons (.scope .nil) .nil) := by rfl

end CM.Scope
