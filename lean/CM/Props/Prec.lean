import CM.Model.Prec
set_option linter.unusedSimpArgs false
/-!
# Precedence-preservation theorems for the three expression rewrites (C01 / C08)

`WP m e` — the tree prints to code that parses back to the same tree in a slot of level `m`.
For each rewrite: if the input is well parenthesised (it always is: it was parsed from the file), so is
the output, *in the same slot*. The versions of the code before the `fix:` commits do not have the
property; the counter-examples are the inputs the search harness found.
-/
namespace CM.Prec
open E

theorem level_le_ten (e : E) : e.level ≤ 10 := by
  unfold level; split
  · exact Nat.le_refl _
  · cases e <;> simp [opLevel] <;> (try split) <;> omega

/-- only the outermost condition depends on the slot -/
theorem WP_mono {m m' : Nat} (h : m' ≤ m) : ∀ e, WP m e = true → WP m' e = true := by
  intro e
  cases e <;> simp only [WP, Bool.and_eq_true, decide_eq_true_eq] <;> intro hw
  all_goals first
    | exact Nat.le_trans h hw
    | exact ⟨Nat.le_trans h hw.1, hw.2⟩
    | exact ⟨⟨Nat.le_trans h hw.1.1, hw.1.2⟩, hw.2⟩
    | exact ⟨⟨⟨Nat.le_trans h hw.1.1.1, hw.1.1.2⟩, hw.1.2⟩, hw.2⟩

/-- what is below the top of a well-parenthesised tree does not depend on the slot either -/
theorem WP_of_level {m k : Nat} : ∀ e, WP k e = true → m ≤ e.level → WP m e = true := by
  intro e
  cases e <;> simp only [WP, Bool.and_eq_true, decide_eq_true_eq] <;> intro hw hl
  all_goals first
    | exact hl
    | exact ⟨hl, hw.2⟩
    | exact ⟨⟨hl, hw.1.2⟩, hw.2⟩
    | exact ⟨⟨⟨hl, hw.1.1.2⟩, hw.1.2⟩, hw.2⟩

theorem level_bin (k : BK) (l r l' r' : E) (p : Bool) : (bin k l r p).level = (bin k l' r' p).level := by
  cases k <;> rfl

theorem level_setPar_true (e : E) : (e.setPar true).level = 10 := by
  cases e <;> simp [setPar, level, par]

theorem level_of_par {e : E} (h : e.par = true) : e.level = 10 := by simp [level, h]

/-- adding parentheses makes a tree fit every slot -/
theorem WP_setPar_true {m k : Nat} (hm : m ≤ 10) : ∀ e, WP k e = true → WP m (e.setPar true) = true := by
  intro e
  cases e <;> simp only [WP, setPar, Bool.and_eq_true, decide_eq_true_eq, level, par, if_true, ↓reduceIte] <;> intro hw
  all_goals first
    | exact hm
    | exact ⟨hm, hw.2⟩
    | exact ⟨⟨hm, hw.1.2⟩, hw.2⟩
    | exact ⟨⟨⟨hm, hw.1.1.2⟩, hw.1.2⟩, hw.2⟩
    | exact ⟨⟨hm, WP_mono (by split <;> omega) _ hw.1.2⟩, WP_mono (by split <;> omega) _ hw.2⟩

theorem WP_le_level {m : Nat} : ∀ e, WP m e = true → m ≤ e.level := by
  intro e
  cases e <;> simp only [WP, Bool.and_eq_true, decide_eq_true_eq] <;> intro hw
  all_goals first
    | exact hw
    | exact hw.1
    | exact hw.1.1
    | exact hw.1.1.1

/-! ## combine-calls -/

theorem WP_call (m : Nat) (r : String) (ps : List String) (hm : m ≤ 10) : WP m (call r ps false) = true := by
  simp [WP, level, par, opLevel, hm]

theorem slotL_le (k : BK) : slotL k ≤ 10 := by cases k <;> simp [slotL]
theorem slotR_le (k : BK) : slotR k ≤ 10 := by cases k <;> simp [slotR]

/-- level of a boolean operation node without parentheses -/
theorem level_bool (k : BK) (l r : E) (hk : isBoolOp k = true) : 3 ≤ (bin k l r false).level := by
  cases k <;> simp [isBoolOp] at hk <;> simp [level, par, opLevel]

/-- **one node.** the rewritten node fits the slot of the node it replaces (fixed code) -/
theorem combineStep_wp (m : Nat) (e : E) (h : WP m e = true) : WP m (combineStep true e) = true := by
  have hm9 : m ≤ 10 := Nat.le_trans (WP_le_level e h) (level_le_ten e)
  unfold combineStep
  split
  · rename_i l r p
    split
    · -- call or call
      split
      · exact WP_call m _ _ hm9
      · exact h
    · -- call or (call k rr)
      rename_i r₁ p₁ q₁ k r₂ p₂ q₂ rr q
      split
      · rename_i hc
        simp only [Bool.and_eq_true, decide_eq_true_eq] at hc
        simp only [WP, Bool.and_eq_true, decide_eq_true_eq, slotL, slotR] at h
        obtain ⟨⟨hl, _⟩, hr⟩ := h
        obtain ⟨⟨_, _⟩, hrr⟩ := hr
        simp only [WP, Bool.and_eq_true, decide_eq_true_eq, Bool.true_and]
        refine ⟨⟨?_, ?_⟩, hrr⟩
        · cases p
          · have := level_bool k (combineCalls r₁ p₁ p₂) rr hc.1
            simp [level, par, opLevel] at hl
            omega
          · simp [level, par]; exact hm9
        · exact WP_call _ _ _ (slotL_le k)
      · exact h
    · -- (ll k call) or call
      rename_i k ll r₁ p₁ q₁ q r₂ p₂ q₂
      split
      · rename_i hc
        simp only [Bool.and_eq_true, decide_eq_true_eq] at hc
        simp only [WP, Bool.and_eq_true, decide_eq_true_eq, slotL, slotR] at h
        obtain ⟨⟨hl, hll⟩, _⟩ := h
        obtain ⟨⟨_, hll'⟩, _⟩ := hll
        simp only [WP, Bool.and_eq_true, decide_eq_true_eq, Bool.true_and]
        refine ⟨⟨?_, hll'⟩, WP_call _ _ _ (slotR_le k)⟩
        cases p
        · have := level_bool k ll (combineCalls r₁ p₁ p₂) hc.1
          simp [level, par, opLevel] at hl
          omega
        · simp [level, par]; exact hm9
      · exact h
    · exact h
  · exact h

/-- **C08/C01 (combine-calls keeps the parse).** the whole bottom-up pass maps a well-parenthesised
tree to a well-parenthesised tree, in every slot. -/
theorem C08_combine_preserves_wp : ∀ (e : E) (m : Nat), WP m e = true → WP m (combine true e) = true := by
  intro e
  induction e with
  | atom n p => intro m h; exact h
  | call r ps p => intro m h; exact h
  | neg x p ih =>
    intro m h; simp only [combine, WP, Bool.and_eq_true, decide_eq_true_eq, level, par, opLevel] at *
    exact ⟨h.1, ih _ h.2⟩
  | lnot x p ih =>
    intro m h; simp only [combine, WP, Bool.and_eq_true, decide_eq_true_eq, level, par, opLevel] at *
    exact ⟨h.1, ih _ h.2⟩
  | bin k l r p ihl ihr =>
    intro m h
    simp only [combine]
    apply combineStep_wp
    simp only [WP, Bool.and_eq_true, decide_eq_true_eq] at h ⊢
    refine ⟨⟨?_, ihl _ h.1.2⟩, ihr _ h.2⟩
    rw [level_bin k _ _ l r]; exact h.1.1
  | cmp o l r p ihl ihr =>
    intro m h; simp only [combine, WP, Bool.and_eq_true, decide_eq_true_eq, level, par, opLevel] at *
    exact ⟨⟨h.1.1, ihl _ h.1.2⟩, ihr _ h.2⟩
  | chain l a x c r p ihl ihx ihr =>
    intro m h; simp only [combine, WP, Bool.and_eq_true, decide_eq_true_eq, level, par, opLevel] at *
    exact ⟨⟨⟨h.1.1.1, ihl _ h.1.1.2⟩, ihx _ h.1.2⟩, ihr _ h.2⟩
  | ifx t c f p iht ihc ihf =>
    intro m h; simp only [combine, WP, Bool.and_eq_true, decide_eq_true_eq, level, par, opLevel] at *
    exact ⟨⟨⟨h.1.1.1, iht _ h.1.1.2⟩, ihc _ h.1.2⟩, ihf _ h.2⟩
  | named n v p ih =>
    intro m h; simp only [combine, WP, Bool.and_eq_true, decide_eq_true_eq, level, par, opLevel] at *
    exact ⟨h.1, ih _ h.2⟩
  | tup a b p iha ihb =>
    intro m h; simp only [combine, WP, Bool.and_eq_true, decide_eq_true_eq, level, par, opLevel] at *
    exact ⟨⟨h.1.1, iha _ h.1.2⟩, ihb _ h.2⟩

/-- **the code before the fix.** `not (flag or s.startswith('a') or s.startswith('b'))`: the fold
dropped the parentheses, the result `not flag or s.startswith(('a', 'b'))` is another expression. -/
theorem C08_combine_old_drops_parentheses :
    let e := lnot (bin .or (bin .or (atom "flag" false) (call "s" ["'a'"] false) false) (call "s" ["'b'"] false) true) false
    WP 0 e = true ∧ WP 0 (combine false e) = false ∧ WP 0 (combine true e) = true ∧
    render (combine false e) = "not flag or s.startswith(('a', 'b'))" ∧
    render (combine true e) = "not (flag or s.startswith(('a', 'b')))" := by
  decide

/-! ## invert-boolean-check -/

theorem wp_fresh_cmp (o : Cop) (l r : E) (hl : WP 7 l = true) (hr : WP 7 r = true) : WP 5 (cmp o l r false) = true := by
  simp [WP, level, par, opLevel, hl, hr]

theorem wp_fresh_not (l : E) (hl : WP 7 l = true) : WP 5 (lnot l false) = true := by
  simp [WP, level, par, opLevel]; exact WP_mono (by omega) l hl

theorem newComparison_wp : ∀ (l : E) (op : Cop) (r : E), WP 7 l = true → WP 7 r = true →
    WP 5 (newComparison op l r) = true := by
  intro l
  induction l with
  | cmp op' l' r' q ihl ihr =>
    intro op r hl hr
    unfold newComparison
    split
    · simp only [WP, Bool.and_eq_true] at hl
      exact ihl op' r' hl.1.2 hl.2
    · exact WP_mono (by omega) _ hl
    · exact wp_fresh_cmp _ _ _ hl hr
  | _ =>
    intro op r hl hr
    unfold newComparison
    split
    · exact wp_fresh_not _ hl
    · exact WP_mono (by omega) _ hl
    · exact wp_fresh_cmp _ _ _ hl hr

theorem addPar_wp {m k : Nat} (pn : Bool) (e : E) (he : WP k e = true)
    (hm : m ≤ if pn then 10 else k) : WP m (addPar pn e) = true := by
  unfold addPar
  cases pn
  · simp only [Bool.false_or]
    have : e.setPar e.par = e := by cases e <;> simp [setPar, par]
    rw [this]
    simp at hm
    exact WP_mono hm e he
  · simp only [Bool.true_or]
    exact WP_setPar_true (by simpa using hm) e he

theorem invertStep_wp (m : Nat) (e : E) (h : WP m e = true) : WP m (invertStep true e) = true := by
  unfold invertStep
  split
  · rename_i op l r pc pn
    simp only [WP, Bool.and_eq_true, decide_eq_true_eq] at h
    obtain ⟨hm, hc⟩ := h
    obtain ⟨⟨_, hl⟩, hr⟩ := hc
    simp only [if_true]
    apply addPar_wp pn _ (newComparison_wp l op r hl hr)
    cases pn <;> simpa [level, par, opLevel] using hm
  · exact h

/-- **C08/C01 (invert-boolean-check keeps the parse).** -/
theorem C08_invert_preserves_wp : ∀ (e : E) (m : Nat), WP m e = true → WP m (invert true e) = true := by
  intro e
  induction e with
  | atom n p => intro m h; exact h
  | call r ps p => intro m h; exact h
  | neg x p ih =>
    intro m h; simp only [invert, WP, Bool.and_eq_true, decide_eq_true_eq, level, par, opLevel] at *
    exact ⟨h.1, ih _ h.2⟩
  | lnot x p ih =>
    intro m h
    simp only [invert]
    apply invertStep_wp
    simp only [WP, Bool.and_eq_true, decide_eq_true_eq, level, par, opLevel] at *
    exact ⟨h.1, ih _ h.2⟩
  | bin k l r p ihl ihr =>
    intro m h
    simp only [invert, WP, Bool.and_eq_true, decide_eq_true_eq] at h ⊢
    refine ⟨⟨?_, ihl _ h.1.2⟩, ihr _ h.2⟩
    rw [level_bin k _ _ l r]; exact h.1.1
  | cmp o l r p ihl ihr =>
    intro m h; simp only [invert, WP, Bool.and_eq_true, decide_eq_true_eq, level, par, opLevel] at *
    exact ⟨⟨h.1.1, ihl _ h.1.2⟩, ihr _ h.2⟩
  | chain l a x c r p ihl ihx ihr =>
    intro m h; simp only [invert, WP, Bool.and_eq_true, decide_eq_true_eq, level, par, opLevel] at *
    exact ⟨⟨⟨h.1.1.1, ihl _ h.1.1.2⟩, ihx _ h.1.2⟩, ihr _ h.2⟩
  | ifx t c f p iht ihc ihf =>
    intro m h; simp only [invert, WP, Bool.and_eq_true, decide_eq_true_eq, level, par, opLevel] at *
    exact ⟨⟨⟨h.1.1.1, iht _ h.1.1.2⟩, ihc _ h.1.2⟩, ihf _ h.2⟩
  | named n v p ih =>
    intro m h; simp only [invert, WP, Bool.and_eq_true, decide_eq_true_eq, level, par, opLevel] at *
    exact ⟨h.1, ih _ h.2⟩
  | tup a b p iha ihb =>
    intro m h; simp only [invert, WP, Bool.and_eq_true, decide_eq_true_eq, level, par, opLevel] at *
    exact ⟨⟨h.1.1, iha _ h.1.2⟩, ihb _ h.2⟩

/-- **the code before the fix.** `(not a == b) + 1` became `a != b + 1`, `-(not a == b)` became `-a != b`. -/
theorem C08_invert_old_drops_parentheses :
    let e₁ := bin .arith (lnot (cmp .eq (atom "a" false) (atom "b" false) false) true) (atom "1" false) false
    let e₂ := neg (lnot (cmp .eq (atom "a" false) (atom "b" false) false) true) false
    WP 0 e₁ = true ∧ WP 0 (invert false e₁) = false ∧ WP 0 (invert true e₁) = true ∧
    render (invert false e₁) = "a != b + 1" ∧ render (invert true e₁) = "(a != b) + 1" ∧
    WP 0 e₂ = true ∧ WP 0 (invert false e₂) = false ∧ render (invert false e₂) = "-a != b" := by
  decide

/-! ## use-walrus-if -/

theorem parenIfNeeded_wp {k m : Nat} (hm : m ≤ 10) (e : E) (h : WP k e = true) : WP m (parenIfNeeded e) = true := by
  unfold parenIfNeeded
  split
  · rename_i hc
    simp only [Bool.or_eq_true] at hc
    apply WP_of_level e h
    rcases hc with hc | hc
    · cases e <;> simp [isAtomic] at hc <;> (simp [level, opLevel]; exact hm)
    · rw [level_of_par hc]; exact hm
  · exact WP_setPar_true hm e h

theorem parenTuple_wp (v : E) (h : WPrhs v = true) : WP 2 (parenTuple v) = true := by
  unfold parenTuple
  split
  · rename_i a b
    simp only [WPrhs, Bool.and_eq_true] at h
    simp only [WP, level, par, if_true, ↓reduceIte, Bool.and_eq_true, decide_eq_true_eq]
    exact ⟨⟨by omega, WP_mono (by omega) a h.1⟩, WP_mono (by omega) b h.2⟩
  · rename_i hne
    unfold WPrhs at h
    split at h
    · rename_i a b; exact absurd rfl (hne a b)
    · exact h

/-- **C08/C01 (use-walrus-if keeps the parse).** for an assignment `n = value` (whatever may stand on
the right of an assignment, `WPrhs`) and each of the three test shapes — whose other operand is well
parenthesised because it was parsed — the new test fits the `if` slot (level 1: a bare `:=` may stand
there, a bare tuple may not). -/
theorem C08_walrus_preserves_wp (n : String) (value : E) (single : Bool) (t : Test)
    (hv : WPrhs value = true)
    (ht : match t with | .cmpName _ rhs _ => WP 7 rhs = true | _ => True) :
    WP 1 (walrus true n value single t) = true := by
  have hv' := parenTuple_wp value hv
  have hnamed : ∀ k, k ≤ 10 → WP k (named n (parenTuple value) true) = true := by
    intro k hk; simp [WP, level, par, hv', hk]
  cases t with
  | name =>
    cases single
    · simp [walrus, WP, level, par, opLevel, hv']
    · simpa [walrus] using WP_mono (by omega : 1 ≤ 2) _ hv'
  | notName p =>
    simp only [walrus, if_true, ↓reduceIte, WP, Bool.and_eq_true, decide_eq_true_eq]
    refine ⟨by cases p <;> simp [level, par, opLevel], ?_⟩
    cases single
    · exact parenIfNeeded_wp (by omega) _ (hnamed 5 (by omega))
    · exact parenIfNeeded_wp (by omega) _ hv'
  | cmpName op rhs p =>
    simp only [walrus, if_true, ↓reduceIte, WP, Bool.and_eq_true, decide_eq_true_eq]
    refine ⟨⟨by cases p <;> simp [level, par, opLevel], ?_⟩, ht⟩
    cases single
    · exact parenIfNeeded_wp (by omega) _ (hnamed 7 (by omega))
    · exact parenIfNeeded_wp (by omega) _ hv'

/-- **the code before the fix.** `val = a or b` / `if not val:` became `if not a or b:` -/
theorem C08_walrus_old_loses_precedence :
    let v := bin .or (atom "a" false) (atom "b" false) false
    WPrhs v = true ∧ WP 1 (walrus false "val" v true (.notName false)) = false ∧
    render (walrus false "val" v true (.notName false)) = "not a or b" ∧
    render (walrus true "val" v true (.notName false)) = "not (a or b)" ∧
    render (walrus true "val" v false (.notName false)) = "not (val := a or b)" := by
  decide

/-- **the code before the second fix.** `val = a, b` / `if val:` became `if a, b:` (not a Python file) -/
theorem C01_walrus_old_bare_tuple :
    let v := tup (atom "a" false) (atom "b" false) false
    WPrhs v = true ∧ WP 1 (walrus false "val" v true .name) = false ∧
    render (walrus false "val" v true .name) = "a, b" ∧ render (walrus true "val" v true .name) = "(a, b)" ∧
    render (walrus true "val" v false (.cmpName .eq (atom "c" false) false)) = "(val := (a, b)) == c" := by
  decide

-- non-vacuity: the hypotheses are met by trees on which the rewrites do something
example : WP 0 (bin .or (call "s" ["'a'"] false) (bin .and (call "s" ["'b'"] false) (atom "c" false) false) false) = true ∧
    combine true (bin .or (call "s" ["'a'"] false) (bin .and (call "s" ["'b'"] false) (atom "c" false) false) false)
      = bin .and (call "s" ["'a'", "'b'"] false) (atom "c" false) false := by decide
example : invert true (lnot (lnot (cmp .is_ (atom "x" false) (atom "False" false) false) true) false) = lnot (atom "x" true) false := by decide

end CM.Prec
