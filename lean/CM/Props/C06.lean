import CM.Model.Location
import CM.Generated.PredsEq
import CM.Props.C12Readers
set_option linter.unusedSimpArgs false
/-!
# C06 — SAST-driven fixes land exactly on the reported findings and carry them (matching core)

What is proved here: the position predicates (as translated from the current source and as
modelled) select a node only if a finding's location points at it, always select the node a finding
points at exactly, never mix sites on different lines, and attach to a change exactly the findings
whose line range covers the changed line; the result-set lookup hands a transformer only findings
of the requested rule located in the requested file. Which node types a transformer inspects is
per-transformer libcst code and is covered by the enumeration search (partial).
-/
namespace CM.Location

/-- **C06 (soundness).** a node is matched by a generic result only if one of the result's locations
is on the node's start and end lines with start/end columns equal to the node's (1-based tool
column = libcst column + 1) or one less. -/
theorem C06_selected_sound (p : Pos) (locs : List Loc) (h : matchLoc p locs = true) :
    ∃ l ∈ locs, l.sl = p.sl ∧ l.el = p.el ∧ (l.sc = p.sc + 1 ∨ l.sc = p.sc) ∧ (l.ec = p.ec + 1 ∨ l.ec = p.ec) := by
  simp only [matchLoc, List.any_eq_true] at h
  obtain ⟨l, hl, hm⟩ := h
  refine ⟨l, hl, ?_⟩
  simp only [matchLoc1, sameLine, Bool.and_eq_true, Bool.or_eq_true, beq_iff_eq] at hm
  omega

/-- **C06 (completeness).** a finding located exactly at the node (tool columns 1-based) always
selects it. -/
theorem C06_selected_complete (p : Pos) (locs : List Loc) (l : Loc) (hl : l ∈ locs)
    (h1 : l.sl = p.sl) (h2 : l.el = p.el) (h3 : l.sc = p.sc + 1) (h4 : l.ec = p.ec + 1) :
    matchLoc p locs = true := by
  simp only [matchLoc, List.any_eq_true]
  refine ⟨l, hl, ?_⟩
  simp only [matchLoc1, sameLine, Bool.and_eq_true, Bool.or_eq_true, beq_iff_eq]
  omega

/-- the same two facts for the function translated from the current `result.py` -/
theorem C06_code_match_sound (p : Pos) (locs : List Loc) (h : CM.Generated.gen_match_location p locs = true) :
    ∃ l ∈ locs, l.sl = p.sl ∧ l.el = p.el ∧ (l.sc = p.sc + 1 ∨ l.sc = p.sc) ∧ (l.ec = p.ec + 1 ∨ l.ec = p.ec) := by
  rw [CM.Generated.gen_match_location_eq] at h; exact C06_selected_sound p locs h

theorem C06_code_match_complete (p : Pos) (locs : List Loc) (l : Loc) (hl : l ∈ locs)
    (h1 : l.sl = p.sl) (h2 : l.el = p.el) (h3 : l.sc = p.sc + 1) (h4 : l.ec = p.ec + 1) :
    CM.Generated.gen_match_location p locs = true := by
  rw [CM.Generated.gen_match_location_eq]; exact C06_selected_complete p locs l hl h1 h2 h3 h4

/-- **C06 (sites are separate).** a finding whose location starts on another line than the node
never selects it: with sites on pairwise different lines, a finding of site i selects no node of
site j ≠ i. -/
theorem C06_sites_separate (p : Pos) (locs : List Loc) (h : ∀ l ∈ locs, l.sl ≠ p.sl) :
    matchLoc p locs = false := by
  cases hm : matchLoc p locs with
  | false => rfl
  | true =>
    obtain ⟨l, hl, h1, _⟩ := C06_selected_sound p locs hm
    exact absurd h1 (h l hl)

/-- Sonar: tuples are matched with the position widened by one column on each side -/
theorem C06_sonar_tuple (p : Pos) (locs : List Loc) :
    sonarMatchLoc true p locs = matchLoc ⟨p.sl, p.sc - 1, p.el, p.ec + 1⟩ locs := rfl

theorem C06_sonar_other (p : Pos) (locs : List Loc) : sonarMatchLoc false p locs = matchLoc p locs := rfl

/-- DefectDojo (line-only findings): the node is selected iff a finding's line lies in the node's
line range -/
theorem C06_dd_spec (p : Pos) (locs : List Loc) :
    ddMatchLoc p locs = true ↔ ∃ l ∈ locs, p.sl ≤ l.sl ∧ l.sl ≤ p.el := by
  simp [ddMatchLoc, ddMatch1, List.any_eq_true]

/-- **C06 (nothing without a finding).** with a result list (SAST codemod), a node no result
matches is not selected — in particular an empty result list selects nothing. -/
theorem C06_no_result_no_selection (v : Variant) (t : Bool) (rs : List (List Loc)) (E I : List Int) (p : Pos)
    (h : ∀ locs ∈ rs, matchVariant v t p locs = false) :
    nodeIsSelected v t (some rs) E I p = false := by
  have : rs.any (matchVariant v t p) = false := by
    simp only [List.any_eq_false]; intro x hx; simp [h x hx]
  simp [nodeIsSelected, filterByResult, this]

/-- **C06 (findings attached).** the findings attached to a change on line `L` are exactly the
findings of the results one of whose locations covers `L` (in result order); a result without a
finding object contributes nothing. -/
theorem C06_findings_exact {φ} (results : List (List Loc × Option φ)) (L : Int) (f : φ) :
    f ∈ findingsForLine results L ↔
      ∃ r ∈ results, r.2 = some f ∧ ∃ l ∈ r.1, l.sl ≤ L ∧ L ≤ l.el := by
  simp only [findingsForLine, List.mem_filterMap, coversLine, covers1, List.any_eq_true,
    Bool.and_eq_true, decide_eq_true_eq]
  constructor
  · rintro ⟨⟨locs, fo⟩, hr, h⟩
    by_cases hc : ∃ x, x ∈ locs ∧ x.sl ≤ L ∧ L ≤ x.el
    · simp only [hc, if_true] at h
      exact ⟨(locs, fo), hr, h, hc⟩
    · simp [hc] at h
  · rintro ⟨⟨locs, fo⟩, hr, hf, hc⟩
    refine ⟨(locs, fo), hr, ?_⟩
    simp only at hf hc
    simp [hc, hf]

/-- **C06.** no change entry carries a finding of another site: a result none of whose locations
covers the changed line is not attached. -/
theorem C06_foreign_finding_not_attached {φ} (locs : List Loc) (f : φ) (rest : List (List Loc × Option φ)) (L : Int)
    (h : ∀ l ∈ locs, L < l.sl ∨ l.el < L) :
    findingsForLine ((locs, some f) :: rest) L = findingsForLine rest L := by
  have : coversLine locs L = false := by
    simp only [coversLine, List.any_eq_false, covers1, Bool.and_eq_true, decide_eq_true_eq, not_and]
    intro l hl h1
    have := h l hl
    omega
  simp [findingsForLine, this]

-- non-vacuity
example : matchLoc ⟨3, 4, 3, 10⟩ [⟨3, 5, 3, 11⟩] = true ∧ matchLoc ⟨3, 4, 3, 10⟩ [⟨4, 5, 4, 11⟩] = false
    ∧ sonarMatchLoc true ⟨3, 4, 3, 10⟩ [⟨3, 4, 3, 12⟩] = true := by decide
example : findingsForLine [([⟨3, 1, 3, 9⟩], some "A"), ([⟨7, 1, 8, 2⟩], some "B"), ([⟨3, 1, 3, 9⟩], none)] 3 = ["A"] := by decide

end CM.Location

namespace CM.Readers
open CM.RS

/-- **C06 (only own results).** the list handed to a transformer for `(rule, file)` contains only
findings of that rule with a location in that file — no foreign rule, no foreign file. -/
theorem C06_only_own_results (xs : List Payload) (r f : String) (x : Payload)
    (hx : x ∈ get (readAll xs) r f) : x.ruleId = r ∧ ∃ l ∈ x.locs, l.file = f ∧ x ∈ xs := by
  rw [C12_read_all] at hx
  simp only [reference, List.mem_flatMap] at hx
  obtain ⟨y, hy, hm⟩ := hx
  by_cases hr : r = y.ruleId
  · simp only [hr, if_true, List.mem_map, List.mem_filter, decide_eq_true_eq] at hm
    obtain ⟨a, ⟨ha, hfa⟩, rfl⟩ := hm
    obtain ⟨l, hl, rfl⟩ := ha
    exact ⟨hr.symm, l, hl, hfa, hy⟩
  · simp [hr] at hm

/-- **C06.** results for other rules or other files cause nothing to be handed over. -/
theorem C06_foreign_results_empty (xs : List Payload) (r f : String)
    (h : ∀ x ∈ xs, x.ruleId ≠ r ∨ ∀ l ∈ x.locs, l.file ≠ f) : get (readAll xs) r f = [] := by
  cases hg : get (readAll xs) r f with
  | nil => rfl
  | cons x t =>
    have hx : x ∈ get (readAll xs) r f := by rw [hg]; simp
    obtain ⟨h1, l, hl, h2, hm⟩ := C06_only_own_results xs r f x hx
    rcases h x hm with h' | h'
    · exact absurd h1 h'
    · exact absurd h2 (h' l hl)

end CM.Readers
