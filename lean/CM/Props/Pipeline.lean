import CM.Lemmas.Pipeline
set_option linter.unusedSimpArgs false
/-!
# Framework-level property theorems (C04, C10, C11, C15, C03, C05, C17 clauses about `run`)

All statements quantify over every configuration, codemod list (with arbitrary `transform` /
`detect` functions), store list and world.
-/
namespace CM.Pipeline

/-! ## C04 — `--dry-run` touches nothing -/

theorem applyFiles_dry_world (cfg : Cfg) (h : cfg.dry = true) (ctx : Ctx) (K : Codemod) (st : St) (files) :
    (applyFiles cfg ctx K st files).world = st.world := by
  simp [applyFiles, applyWrites_dry cfg h]

theorem writeStores_dry (cfg : Cfg) (h : cfg.dry = true) (w : World) (deps : List String) (stores : List Store) :
    ∀ w' cs sp, (writeStores cfg w deps stores).2 = some (w', cs, sp) → w' = w := by
  induction stores with
  | nil => intro w' cs sp h'; simp [writeStores] at h'
  | cons s rest ih =>
    intro w' cs sp h'
    simp only [writeStores] at h'
    cases hs : storeWrite cfg w s deps with
    | mk s' r =>
      cases r with
      | none =>
        simp only [hs] at h'
        exact ih w' cs sp h'
      | some wc =>
        obtain ⟨w1, cs1⟩ := wc
        simp only [hs, Option.some.injEq, Prod.mk.injEq] at h'
        obtain ⟨rfl, _, _⟩ := h'
        -- the world produced by storeWrite under dry-run is the input world
        unfold storeWrite at hs
        simp only at hs
        split at hs
        · simp at hs
        · split at hs
          · simp at hs
          · split at hs
            · simp at hs
            · simp only [Prod.mk.injEq, Option.some.injEq] at hs
              rw [← hs.2.1, commit_dry cfg h]

theorem processDeps_dry_world (cfg : Cfg) (h : cfg.dry = true) (id : String) (st : St) :
    (processDeps cfg id st).world = st.world := by
  unfold processDeps
  simp only
  split
  · rfl
  · cases hr : writeStores cfg st.world (getAcc st.accs id).deps st.stores with
    | mk stores' r =>
      cases r with
      | none => rfl
      | some x =>
        obtain ⟨w', cs, sp⟩ := x
        have := writeStores_dry cfg h st.world (getAcc st.accs id).deps st.stores w' cs sp (by rw [hr])
        simp [this]

theorem applyOne_dry_world (cfg : Cfg) (h : cfg.dry = true) (ctx : Ctx) (st : St) (K : Codemod) :
    (applyOne cfg ctx st K).world = st.world := by
  unfold applyOne
  rw [processDeps_dry_world cfg h]
  split
  · rfl
  · exact applyFiles_dry_world cfg h ctx K st _

/-- **C04.** With `--dry-run`, for every codemod list (including dependency-adding ones), every store
list and every project, the world after the run is the world before: no file is created, modified
or deleted. -/
theorem C04_dry_world (cfg : Cfg) (h : cfg.dry = true) (ctx : Ctx) (ks : List Codemod) (stores : List Store) (w : World) :
    (run cfg ctx ks stores w).1.world = w := by
  unfold run applyCodemods
  simp only
  split
  · rfl
  · generalize hst : ({ world := w, accs := [], stores := stores } : St) = st
    have hw : st.world = w := by rw [← hst]
    clear hst
    induction ks generalizing st with
    | nil => simpa using hw
    | cons K t ih =>
      simp only [List.foldl_cons]
      exact ih _ (by rw [applyOne_dry_world cfg h, hw])

/-! ## C15 / C17 — one result per executed codemod, in execution order -/

/-- **C15 / C17.** The report has exactly one result per codemod handed to `run`, in that order. -/
theorem C15_one_result_per_codemod (cfg : Cfg) (ctx : Ctx) (ks : List Codemod) (stores : List Store) (w : World) :
    (run cfg ctx ks stores w).2.map (·.codemod) = ks.map (·.id) := by
  simp [run, compileResults]

/-! ## C11 — independence of the schedule -/

/-- every sequential schedule of the jobs of one codemod computes, for each file, the result of
processing the content the file had when the codemod started -/
theorem execSeq_eq_par (cfg : Cfg) (ctx : Ctx) (K : Codemod) (w : World) (files : List (Path × Option (List Finding)))
    (hn : (files.map (·.1)).Nodup) :
    execSeq cfg ctx K w files = (applyWrites cfg w (fileResults ctx K w files), fileResults ctx K w files) := by
  induction files generalizing w with
  | nil => simp [execSeq, applyWrites, fileResults]
  | cons hd t ih =>
    obtain ⟨p, fs⟩ := hd
    simp only [List.map_cons, List.nodup_cons] at hn
    have hres : fileResults ctx K (writeOf cfg w p (processFile ctx K p (w.get p) fs)) t = fileResults ctx K w t := by
      unfold fileResults
      apply List.map_congr_left
      intro ⟨q, fq⟩ hq
      have hqp : q ≠ p := by
        intro e; subst e
        exact hn.1 (List.mem_map.mpr ⟨(q, fq), hq, rfl⟩)
      simp only [get_writeOf_other cfg w p q _ hqp]
    simp only [execSeq, ih _ hn.2, hres]
    simp [fileResults, applyWrites]

theorem lookup_perm {β} (l l' : List (String × β)) (hp : l.Perm l') (hn : (l.map (·.1)).Nodup) (q : String) :
    l.lookup q = l'.lookup q := by
  induction hp with
  | nil => rfl
  | cons x _ ih =>
    obtain ⟨a, va⟩ := x
    simp only [List.map_cons, List.nodup_cons] at hn
    simp only [List.lookup_cons]
    split
    · rfl
    · exact ih hn.2
  | swap x y l =>
    obtain ⟨a, va⟩ := x
    obtain ⟨b, vb⟩ := y
    simp only [List.map_cons, List.nodup_cons, List.mem_cons, not_or] at hn
    simp only [List.lookup_cons]
    by_cases h1 : q = a <;> by_cases h2 : q = b
    · exfalso; exact hn.1.1 (h2.symm.trans h1)
    · have e2 : (q == b) = false := by simpa using h2
      subst h1
      simp [e2]
    · have e1 : (q == a) = false := by simpa using h1
      subst h2
      simp [e1]
    · have e1 : (q == a) = false := by simpa using h1
      have e2 : (q == b) = false := by simpa using h2
      simp [e1, e2]
  | trans h1 _ ih1 ih2 =>
    rw [ih1 hn]
    exact ih2 ((h1.map _).nodup_iff.mp hn)

/-- **C11 (schedule independence).** Whatever order the worker pool runs the file jobs of a codemod
in (any permutation `order` of the submitted jobs, each job seeing the writes of the jobs before
it), the content of every file afterwards and the result of every job are those of the reference
execution in submission order. -/
theorem C11_schedule_independent (cfg : Cfg) (ctx : Ctx) (K : Codemod) (w : World)
    (files order : List (Path × Option (List Finding))) (hp : order.Perm files) (hn : (files.map (·.1)).Nodup) :
    (∀ q, (execSeq cfg ctx K w order).1.get q = (execSeq cfg ctx K w files).1.get q) ∧
    (∀ q, (execSeq cfg ctx K w order).2.lookup q = (execSeq cfg ctx K w files).2.lookup q) := by
  have hn' : (order.map (·.1)).Nodup := (hp.map _).nodup_iff.mpr hn
  rw [execSeq_eq_par cfg ctx K w order hn', execSeq_eq_par cfg ctx K w files hn]
  have hperm : (fileResults ctx K w order).Perm (fileResults ctx K w files) := hp.map _
  have hk : ∀ l : List (Path × Option (List Finding)), (fileResults ctx K w l).map (·.1) = l.map (·.1) := by
    intro l; simp [fileResults, List.map_map, Function.comp_def]
  have hnr : ((fileResults ctx K w order).map (·.1)).Nodup := by rw [hk]; exact hn'
  have hnf : ((fileResults ctx K w files).map (·.1)).Nodup := by rw [hk]; exact hn
  constructor
  · intro q
    simp only
    rw [applyWrites_get cfg w _ hnr q, applyWrites_get cfg w _ hnf q, lookup_perm _ _ hperm hnr q]
  · intro q
    exact lookup_perm _ _ hperm hnr q

/-- **C11 / C10 (a file's outcome is its own).** After a codemod's jobs, the content of `q` is
determined by `q`'s own job on `q`'s own content: no job reads or writes another file. -/
theorem C11_file_outcome_own (cfg : Cfg) (ctx : Ctx) (K : Codemod) (st : St)
    (files : List (Path × Option (List Finding))) (hn : (files.map (·.1)).Nodup) (q : Path) :
    (applyFiles cfg ctx K st files).world.get q =
      match files.lookup q with
      | some fs => after1 cfg (st.world.get q) (processFile ctx K q (st.world.get q) fs)
      | none => st.world.get q := by
  have hk : (fileResults ctx K st.world files).map (·.1) = files.map (·.1) := by
    simp [fileResults, List.map_map, Function.comp_def]
  simp only [applyFiles]
  rw [applyWrites_get cfg st.world _ (by rw [hk]; exact hn) q]
  have : (fileResults ctx K st.world files).lookup q
       = (files.lookup q).map (fun fs => processFile ctx K q (st.world.get q) fs) := by
    clear hn hk
    induction files with
    | nil => simp [fileResults]
    | cons hd t ih =>
      obtain ⟨p, fs⟩ := hd
      simp only [fileResults, List.map_cons, List.lookup_cons] at ih ⊢
      by_cases hq : q = p
      · subst hq; simp
      · have : (q == p) = false := by simpa using hq
        simp only [this]
        exact ih
  rw [this]
  cases files.lookup q <;> rfl

/-! ## C10 — an unprocessable file is isolated -/

/-- **C10 (left intact, reported).** A file whose transformation raises (parse error, undecodable
bytes, transformer exception at any node) is not written, is listed as failed, and all the findings
it was selected for are reported as unfixed. -/
theorem C10_failed_file (ctx : Ctx) (K : Codemod) (p : Path) (c : Content) (fs : Option (List Finding)) (b : Bool)
    (hsel : fs ≠ some []) (h : K.transform p c fs = .raised b) :
    let r := processFile ctx K p (some c) fs
    r.write = none ∧ r.failures = [p] ∧ r.changesets = [] ∧
      r.unfixed.map (·.id) = (fs.getD []).map (·.id) := by
  cases fs with
  | none => simp [processFile, h, toUnfixed]
  | some l =>
    cases l with
    | nil => exact absurd rfl hsel
    | cons a t => simp [processFile, h, toUnfixed, List.map_map, Function.comp_def]

/-- a file that has vanished (cannot be read) is treated the same way -/
theorem C10_vanished_file (ctx : Ctx) (K : Codemod) (p : Path) (fs : Option (List Finding)) (hsel : fs ≠ some []) :
    let r := processFile ctx K p none fs
    r.write = none ∧ r.failures = [p] ∧ r.changesets = [] := by
  cases fs with
  | none => simp [processFile]
  | some l =>
    cases l with
    | nil => exact absurd rfl hsel
    | cons a t => simp [processFile]

/-- **C10 (isolation inside one codemod).** Let two codemods differ only in what their transformer
does on file `g` (e.g. one raises there). Then for every other file the content after the codemod
ran is the same. -/
theorem C10_other_files_unaffected (cfg : Cfg) (ctx : Ctx) (K K' : Codemod) (st : St)
    (files : List (Path × Option (List Finding))) (hn : (files.map (·.1)).Nodup) (g : Path)
    (hsame : ∀ p c fs, p ≠ g → K'.transform p c fs = K.transform p c fs) (q : Path) (hq : q ≠ g) :
    (applyFiles cfg ctx K' st files).world.get q = (applyFiles cfg ctx K st files).world.get q := by
  rw [C11_file_outcome_own cfg ctx K' st files hn q, C11_file_outcome_own cfg ctx K st files hn q]
  have : ∀ fs, processFile ctx K' q (st.world.get q) fs = processFile ctx K q (st.world.get q) fs := by
    intro fs
    unfold processFile
    cases fs with
    | none => cases st.world.get q <;> simp [hsame _ _ _ hq]
    | some l => cases l <;> cases st.world.get q <;> simp [hsame _ _ _ hq]
  cases files.lookup q <;> simp [this]

/-- the faulty file itself is byte-identical afterwards -/
theorem C10_bad_file_untouched (cfg : Cfg) (ctx : Ctx) (K : Codemod) (st : St)
    (files : List (Path × Option (List Finding))) (hn : (files.map (·.1)).Nodup) (g : Path)
    (hbad : ∀ c fs, ∃ b, K.transform g c fs = .raised b) :
    (applyFiles cfg ctx K st files).world.get g = st.world.get g := by
  rw [C11_file_outcome_own cfg ctx K st files hn g]
  cases hl : files.lookup g with
  | none => rfl
  | some fs =>
    simp only
    have : (processFile ctx K g (st.world.get g) fs).write = none := by
      unfold processFile
      cases fs with
      | none =>
        cases hc : st.world.get g with
        | none => rfl
        | some c => obtain ⟨b, hb⟩ := hbad c none; simp [hb]
      | some l =>
        cases l with
        | nil => rfl
        | cons a t =>
          cases hc : st.world.get g with
          | none => rfl
          | some c => obtain ⟨b, hb⟩ := hbad c (some (a :: t)); simp [hb]
    simp [after1, this]

/-! ## C03 / C15 — changesets and writes go together -/

/-- a source file is written only together with a changeset for that very path whose diff is not
empty and which lists at least one change ("no changes ⇒ no changeset", "empty diff ⇒ no changeset") -/
theorem C03_write_iff_changeset (ctx : Ctx) (K : Codemod) (p : Path) (c : Option Content) (fs : Option (List Finding)) :
    let r := processFile ctx K p c fs
    (∀ new, r.write = some new →
        ∃ ch, r.changesets = [{ path := p, diff := ctx.diff (c.getD "") new, changes := ch }] ∧ ch ≠ [] ∧ ctx.diff (c.getD "") new ≠ "")
    ∧ (r.write = none → r.changesets = []) := by
  unfold processFile
  cases fs with
  | none =>
    cases c with
    | none => simp
    | some c =>
      simp only
      cases ht : K.transform p c none with
      | raised b => simp
      | ran new changes deps =>
        by_cases h1 : changes.isEmpty = true
        · simp [h1]
        · by_cases h2 : (ctx.diff c new == "") = true
          · simp [h1, h2]
          · have h2' : ¬ ctx.diff c new = "" := by simpa using h2
            have h1' : changes ≠ [] := by simpa using h1
            simp [h1, h2, h2', h1']
  | some l =>
    cases l with
    | nil => simp
    | cons a t =>
      cases c with
      | none => simp
      | some c =>
        simp only
        cases ht : K.transform p c (some (a :: t)) with
        | raised b => simp
        | ran new changes deps =>
          by_cases h1 : changes.isEmpty = true
          · simp [h1]
          · by_cases h2 : (ctx.diff c new == "") = true
            · simp [h1, h2]
            · have h2' : ¬ ctx.diff c new = "" := by simpa using h2
              have h1' : changes ≠ [] := by simpa using h1
              simp [h1, h2, h2', h1']

/-- **C15 (failed and changed are disjoint, per file).** one job yields a failure or a changeset, never both -/
theorem C15_failed_xor_changed (ctx : Ctx) (K : Codemod) (p : Path) (c : Option Content) (fs : Option (List Finding)) :
    let r := processFile ctx K p c fs
    r.failures = [] ∨ r.changesets = [] := by
  have h := (C03_write_iff_changeset ctx K p c fs).2
  simp only at h ⊢
  cases hw : (processFile ctx K p c fs).write with
  | none => exact Or.inr (h hw)
  | some new =>
    left
    revert hw
    unfold processFile
    cases fs with
    | none =>
      cases c with
      | none => simp
      | some c =>
        simp only
        cases K.transform p c none with
        | raised b => simp
        | ran new' changes deps =>
          by_cases h1 : changes.isEmpty = true
          · simp [h1]
          · by_cases h2 : (ctx.diff c new' == "") = true <;> simp [h1, h2]
    | some l =>
      cases l with
      | nil => simp
      | cons a t =>
        cases c with
        | none => simp
        | some c =>
          simp only
          cases K.transform p c (some (a :: t)) with
          | raised b => simp
          | ran new' changes deps =>
            by_cases h1 : changes.isEmpty = true
            · simp [h1]
            · by_cases h2 : (ctx.diff c new' == "") = true <;> simp [h1, h2]

/-- **C03 (untouched files).** within one codemod, a file for which no changeset is produced keeps its
content byte for byte (real run or dry run) -/
theorem C03_no_changeset_untouched (cfg : Cfg) (ctx : Ctx) (K : Codemod) (st : St)
    (files : List (Path × Option (List Finding))) (hn : (files.map (·.1)).Nodup) (q : Path)
    (h : ∀ fs, files.lookup q = some fs → (processFile ctx K q (st.world.get q) fs).changesets = []) :
    (applyFiles cfg ctx K st files).world.get q = st.world.get q := by
  rw [C11_file_outcome_own cfg ctx K st files hn q]
  cases hl : files.lookup q with
  | none => rfl
  | some fs =>
    simp only
    have hcs := h fs hl
    have := (C03_write_iff_changeset ctx K q (st.world.get q) fs).1
    cases hw : (processFile ctx K q (st.world.get q) fs).write with
    | none => simp [after1, hw]
    | some new =>
      obtain ⟨ch, hch, _⟩ := this new hw
      rw [hcs] at hch
      simp at hch

/-! ## C05 — only selected files are touched -/

/-- **C05 (writes ⊆ planned files).** a codemod never changes a file it was not handed -/
theorem C05_only_planned_files_touched (cfg : Cfg) (ctx : Ctx) (K : Codemod) (st : St)
    (files : List (Path × Option (List Finding))) (hn : (files.map (·.1)).Nodup) (q : Path)
    (hq : q ∉ files.map (·.1)) :
    (applyFiles cfg ctx K st files).world.get q = st.world.get q := by
  rw [C11_file_outcome_own cfg ctx K st files hn q]
  cases hl : files.lookup q with
  | none => rfl
  | some fs => exact absurd (mem_keys_of_lookup files q fs hl) hq

/-- find-and-fix codemods without a detector are handed exactly the selected paths with the
codemod's extension -/
theorem C05_plan_find_and_fix (ctx : Ctx) (K : Codemod) (w : World) (h : K.det = .none) :
    plan ctx K w = some ((ctx.ffPaths.filter K.ext).map fun p => (p, none)) := by
  simp [plan, h]

/-- every planned file of a find-and-fix codemod (with or without semgrep rule) is a selected path -/
theorem C05_plan_subset_selected (ctx : Ctx) (K : Codemod) (w : World) (files) (hd : K.det ≠ .sast)
    (h : plan ctx K w = some files) : ∀ p ∈ files.map (·.1), p ∈ ctx.ffPaths := by
  intro p hp
  unfold plan at h
  cases hk : K.det with
  | none =>
    simp only [hk, Option.some.injEq] at h
    subst h
    simp only [List.map_map, List.mem_map, List.mem_filter, Function.comp] at hp
    obtain ⟨a, ⟨ha, _⟩, rfl⟩ := hp
    exact ha
  | sast => exact absurd hk hd
  | semgrep =>
    rw [hk] at h
    dsimp only at h
    split at h
    · exact absurd h (by simp)
    · split at h
      · exact absurd h (by simp)
      · have h' := Option.some.inj h
        subst h'
        simp only [List.map_map, List.mem_map, List.mem_filter, Function.comp] at hp
        obtain ⟨a, ⟨ha, _⟩, rfl⟩ := hp
        exact ha

-- non-vacuity: a two-file world, one job fails, the other is rewritten
example :
    let K : Codemod := { id := "k", name := "k", det := .none, ext := fun _ => true, detect := fun _ _ => [],
                         transform := fun p c _ => if p == "bad.py" then .raised true else .ran (c ++ "!") [⟨1, "d", []⟩] [] }
    let ctx : Ctx := { ffPaths := ["a.py", "bad.py"], allFiles := ["a.py", "bad.py"], sastFilter := id, prefilter := [],
                       diff := fun a b => if a == b then "" else "D" }
    let r := run ⟨false⟩ ctx [K] [] [("a.py", "x"), ("bad.py", "y")]
    r.1.world = [("a.py", "x!"), ("bad.py", "y")] ∧ (r.2.map (·.failedFiles)) = [["bad.py"]] := by decide

end CM.Pipeline
