import Lean.Data.Json
/-! Small JSON decoding helpers for the Driver (no defaults: a missing / ill-typed field is an error). -/
open Lean
namespace CM.Driver

def fld (j : Json) (k : String) : Except String Json :=
  match j.getObjVal? k with
  | .ok v => .ok v
  | .error _ => .error s!"bad-op: missing field {k}"

def getStr (j : Json) (k : String) : Except String String := do
  match (← fld j k) with
  | .str s => pure s
  | _ => .error s!"bad-op: field {k} not a string"

def getBool (j : Json) (k : String) : Except String Bool := do
  match (← fld j k) with
  | .bool b => pure b
  | _ => .error s!"bad-op: field {k} not a bool"

def asNat (j : Json) : Except String Nat :=
  match j.getNat? with
  | .ok n => pure n
  | .error _ => .error "bad-op: not a nat"

def asInt (j : Json) : Except String Int :=
  match j.getInt? with
  | .ok n => pure n
  | .error _ => .error "bad-op: not an int"

def asStr (j : Json) : Except String String :=
  match j with
  | .str s => pure s
  | _ => .error "bad-op: not a string"

def asBool (j : Json) : Except String Bool :=
  match j with
  | .bool s => pure s
  | _ => .error "bad-op: not a bool"

def getNat (j : Json) (k : String) : Except String Nat := do asNat (← fld j k)
def getInt (j : Json) (k : String) : Except String Int := do asInt (← fld j k)

def asArr (j : Json) : Except String (List Json) :=
  match j with
  | .arr a => pure a.toList
  | _ => .error "bad-op: not an array"

def getArr (j : Json) (k : String) : Except String (List Json) := do asArr (← fld j k)

def getList {α} (j : Json) (k : String) (f : Json → Except String α) : Except String (List α) := do
  (← getArr j k).mapM f

def asList {α} (j : Json) (f : Json → Except String α) : Except String (List α) := do
  (← asArr j).mapM f

/-- optional field: absent or null ⇒ none -/
def getOpt {α} (j : Json) (k : String) (f : Json → Except String α) : Except String (Option α) :=
  match j.getObjVal? k with
  | .ok .null => pure none
  | .ok v => do pure (some (← f v))
  | .error _ => pure none

def jstr (s : String) : Json := Json.str s
def jnat (n : Nat) : Json := Json.num (JsonNumber.fromNat n)
def jint (n : Int) : Json := Json.num (JsonNumber.fromInt n)
def jbool (b : Bool) : Json := Json.bool b
def jarr (l : List Json) : Json := Json.arr l.toArray
def jobj (l : List (String × Json)) : Json := Json.mkObj l
def jchars (l : List Char) : Json := Json.str (String.ofList l)

end CM.Driver
