import CM.Driver.Json
import CM.Driver.OpsSel
import CM.Model.Pipeline
import CM.Model.Select
import CM.Model.Readers
open Lean
namespace CM.Driver
open CM.Pipeline

/-! Table-driven codemods for the framework correspondence: the synthetic codemods registered by the
harness in the real codemodder implement exactly these tables (harness/synth.py). -/

def splitLines (s : String) : List String :=
  -- `splitlines(keepends=True)` for "\n"-terminated text
  let parts := (s.toList.splitOn '\n').map String.ofList
  match parts.reverse with
  | [] => []
  | last :: revInit =>
    let init := revInit.reverse.map (· ++ "\n")
    if last.isEmpty then init else init ++ [last]

def containsSub (s sub : String) : Bool := CM.Readers.isInfixOf sub.toList s.toList

def replaceAll (s from_ to : String) : String := s.replace from_ to

structure TBeh where
  from_ : String
  to : String
  deps : List String
  raisePaths : List String
  reportOnly : Bool          -- reports a change on matching lines without editing (exercises the empty-diff gate)
  desc : String

/-- lines (1-based) of `c` containing `tok` -/
def tokenLines (c : Content) (tok : String) : List Nat :=
  ((splitLines c).zipIdx 1).filterMap fun (ln, i) => if containsSub ln tok then some i else none

def synthTransform (unparsable : List String) (b : TBeh) (p : Path) (c : Content) (fs : Option (List Finding)) : TOut :=
  if unparsable.contains p then .raised true
  else if b.raisePaths.contains p then .raised false
  else
    let lines := splitLines c
    let hit (i : Nat) (ln : String) : Bool :=
      containsSub ln b.from_ && (match fs with | none => true | some l => l.any (fun f => f.line == i))
    let idx := (lines.zipIdx 1)
    let newLines := idx.map fun (ln, i) => if hit i ln && !b.reportOnly then replaceAll ln b.from_ b.to else ln
    let changes := idx.filterMap fun (ln, i) =>
      if hit i ln then
        some { line := i, desc := b.desc,
               findings := (fs.getD []).filterMap (fun f => if f.line == i then some f.id else none) : Change }
      else none
    .ran (String.join newLines) changes (if changes.isEmpty then [] else b.deps)

def decFinding (j : Json) : Except String Finding := do
  pure { id := ← getStr j "id", rule := ← getStr j "rule", line := ← getNat j "line" }

def decCodemod (unparsable : List String) (j : Json) : Except String Codemod := do
  let id ← getStr j "id"
  let name ← getStr j "name"
  let det ← match (← getStr j "det") with
    | "none" => pure Det.none | "semgrep" => pure Det.semgrep | "sast" => pure Det.sast
    | s => .error s!"bad-op: det {s}"
  let exts ← getList j "exts" asStr
  let token ← getStr j "token"           -- semgrep double: the rule matches lines containing this token
  let sast ← getList j "sast" fun e => do  -- SAST: path ↦ findings
    pure ((← getStr e "path"), (← getList e "findings" decFinding))
  let b : TBeh := { from_ := ← getStr j "from", to := ← getStr j "to", deps := ← getList j "deps" asStr,
                    raisePaths := ← getList j "raise_paths" asStr, reportOnly := ← getBool j "report_only",
                    desc := ← getStr j "desc" }
  pure { id := id, name := name, det := det,
         ext := fun p => exts.any (fun e => p.endsWith e),
         detect := fun p c => match det with
           | .semgrep => if unparsable.contains p then [] else (tokenLines c token).map fun i => { id := name, rule := name, line := i }
           | .sast => (sast.lookup p).getD []
           | .none => [],
         transform := synthTransform unparsable b }

def toyDiff (a b : Content) : String := if a == b then "" else "D"

def decStore (j : Json) : Except String Store := do
  let path ← getStr j "path"
  pure { path := path, declared := ← getList j "declared" asStr,
         addToFile := fun txt new =>
           -- requirements.txt writer: fix the last newline, append one line per requirement
           let lines := splitLines txt
           if lines.isEmpty then none else
           let fixed := match lines.reverse with
             | last :: revInit => revInit.reverse ++ [if last.endsWith "\n" then last else last ++ "\n"]
             | [] => []
           let txt' := String.join (fixed ++ new.map (· ++ "\n"))
           some (txt', { path := path, diff := toyDiff (String.join fixed) txt',
                         changes := (new.zipIdx 1).map fun (_, i) => { line := fixed.length + i, desc := "dep", findings := [] } }) }

def encChange (c : Change) : Json := jobj [("line", jnat c.line), ("findings", jarr (c.findings.map jstr))]
def encCS (c : ChangeSet) : Json :=
  jobj [("path", jstr c.path), ("diff", jstr c.diff), ("changes", jarr (c.changes.map encChange))]
def encUnfixed (u : Unfixed) : Json :=
  jobj [("id", jstr u.id), ("path", jstr u.path), ("line", jnat u.line), ("reason", jstr u.reason)]
def encResult (r : Result) : Json :=
  jobj [("codemod", jstr r.codemod), ("changeset", jarr (r.changeset.map encCS)),
        ("failedFiles", jarr (r.failedFiles.map jstr)), ("unfixed", jarr (r.unfixed.map encUnfixed)),
        ("depStore", match r.depStore with | some p => jstr p | none => Json.null), ("hasDeps", jbool r.hasDeps)]

def decWorld (j : Json) : Except String World := do
  (← asArr j).mapM fun kv => do
    match (← asArr kv) with
    | [k, v] => pure ((← asStr k), (← asStr v))
    | _ => .error "bad-op: world entry"

def opRun (j : Json) : Except String Json := do
  let dry ← getBool j "dry"
  let w ← decWorld (← fld j "world")
  let unparsable ← getList j "unparsable" asStr
  let ks ← getList j "codemods" (decCodemod unparsable)
  let stores ← getList j "stores" decStore
  let di ← getList j "default_include" asStr
  let de ← getList j "default_exclude" asStr
  let ri ← getList j "registry_include" asStr
  let pi ← getList j "path_include" asStr
  let pe ← getList j "path_exclude" asStr
  let allFiles ← getList j "all_files" asStr
  let ff := CM.Select.findAndFixPaths strLe di de allFiles pi pe
  let ctx : Ctx := { ffPaths := ff, allFiles := allFiles,
                     sastFilter := fun ps => CM.Select.filterPaths strLe di de ri ps pi pe,
                     prefilter := prefilterOf ff ks w, diff := toyDiff }
  let (st, res) := run ⟨dry⟩ ctx ks stores w
  pure <| jobj [("world", jarr (st.world.map fun (p, c) => jarr [jstr p, jstr c])),
                ("results", jarr (res.map encResult)),
                ("ff", jarr (ff.map jstr)),
                ("prefilter", jarr (ctx.prefilter.map fun (k, v) => jarr [jstr k, jarr (v.map jstr)]))]

end CM.Driver
