import CM.Driver.Json
import CM.Model.Diff
open Lean
namespace CM.Driver
open CM.Diff

structure Op where
  tag : String
  i1 : Nat
  i2 : Nat
  j1 : Nat
  j2 : Nat

def decOp (j : Json) : Except String Op := do
  match (← asArr j) with
  | [t, a, b, c, d] => pure ⟨← asStr t, ← asNat a, ← asNat b, ← asNat c, ← asNat d⟩
  | _ => .error "bad-op: opcode"

def slice (l : List String) (i j : Nat) : List String := (l.drop i).take (j - i)

/-- the post-condition of `SequenceMatcher.get_opcodes`: the opcodes cover both sequences contiguously
from 0, `equal` blocks are equal, the other tags have the right emptiness -/
def validOps (a b : List String) (ops : List Op) : Bool :=
  let rec go : List Op → Nat → Nat → Bool
    | [], i, j => i == a.length && j == b.length
    | o :: t, i, j =>
      o.i1 == i && o.j1 == j && o.i1 ≤ o.i2 && o.j1 ≤ o.j2 &&
      (match o.tag with
       | "equal" => slice a o.i1 o.i2 == slice b o.j1 o.j2 && o.i1 < o.i2
       | "replace" => o.i1 < o.i2 && o.j1 < o.j2
       | "delete" => o.i1 < o.i2 && o.j1 == o.j2
       | "insert" => o.i1 == o.i2 && o.j1 < o.j2
       | _ => false) && go t o.i2 o.j2
  go ops 0 0

def scriptOf (a b : List String) (ops : List Op) : List Seg :=
  ops.map fun o => if o.tag == "equal" then .eq (slice a o.i1 o.i2) else .chg (slice a o.i1 o.i2) (slice b o.j1 o.j2)

def opUnifiedDiff (j : Json) : Except String Json := do
  let a ← getList j "a" asStr
  let b ← getList j "b" asStr
  let ops ← getList j "ops" decOp
  let s := scriptOf a b ops
  let lines := unifiedLines s
  let text := difflinesToStr lines
  let patched := patchText text a
  pure <| jobj [("valid_ops", jbool (validOps a b ops)), ("lines", jarr (lines.map jstr)), ("text", jstr text),
                ("src_ok", jbool (src s == a)), ("dst_ok", jbool (dst s == b)),
                ("patched", match patched with | some l => jarr (l.map jstr) | none => Json.null),
                ("hunks_apply", jbool (applyHunks (hunks 3 s) 0 a == some b)),
                ("line_nums", jarr ((calcLineNumChanges lines).map jnat))]

def opPatchText (j : Json) : Except String Json := do
  let a ← getList j "a" asStr
  let text ← getStr j "diff"
  pure <| jobj [("patched", match patchText text a with | some l => jarr (l.map jstr) | none => Json.null)]

end CM.Driver
