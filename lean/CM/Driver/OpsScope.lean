import CM.Driver.Json
import CM.Model.Scope
open Lean
namespace CM.Driver
open CM.Scope

mutual
partial def decBody (j : Json) : Except String Body := do
  let items ← asArr j
  items.foldrM (fun it acc => do pure (Body.cons (← decStmt it) acc)) Body.nil
partial def decStmt (j : Json) : Except String Stmt := do
  match (← getStr j "k") with
  | "assign" => pure (.assign (← getStr j "n") (← getBool j "eff"))
  | "read" => pure (.read (← getStr j "n"))
  | "scope" => pure (.scope (← decBody (← fld j "b")))
  | s => .error s!"bad-op: statement kind {s}"
end

mutual
partial def encBody : Body → List Json
  | .nil => []
  | .cons s t => encStmt s :: encBody t
partial def encStmt : Stmt → Json
  | .assign n e => jobj [("k", jstr "assign"), ("n", jstr n), ("eff", jbool e)]
  | .read n => jobj [("k", jstr "read"), ("n", jstr n)]
  | .scope b => jobj [("k", jstr "scope"), ("b", jarr (encBody b))]
end

/-- `scope_clean`: reference counts of the names assigned at the top level, and the clean-up pass -/
def opScopeClean (j : Json) : Except String Json := do
  let b ← decBody (← fld j "body")
  let names := b.assigns.eraseDups
  pure <| jobj [("refs", jarr (names.map fun n => jarr [jstr n, jnat (b.refs n)])),
                ("own_reads", jarr (names.map fun n => jarr [jstr n, jnat (b.ownReads n)])),
                ("nested_libcst", jarr (names.map fun n => jarr [jstr n, jnat (b.nestedL n)])),
                ("cleaned", jarr (encBody (b.clean .libcst))), ("cleaned_python", jarr (encBody (b.clean .python))),
                ("cleaned_old", jarr (encBody (b.clean .ownOnly))), ("cleaned_no_guard", jarr (encBody (b.clean .libcst false))),
                ("effects", jarr (b.effects.map jstr)), ("effects_after", jarr ((b.clean .libcst).effects.map jstr)),
                ("unresolved", jarr ((b.unresolved []).map jstr)), ("unresolved_after", jarr (((b.clean .libcst).unresolved []).map jstr)),
                ("unresolved_after_old", jarr (((b.clean .ownOnly).unresolved []).map jstr))]

end CM.Driver
