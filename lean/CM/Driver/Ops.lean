import CM.Driver.Json
import CM.Model.Exit
import CM.Driver.OpsRS
import CM.Driver.OpsReg
import CM.Driver.OpsSel
import CM.Driver.OpsRun
import CM.Driver.OpsDiff
import CM.Driver.OpsC19
import CM.Driver.OpsDeps
import CM.Driver.OpsArgs
import CM.Driver.OpsPrec
import CM.Driver.OpsScope
open Lean
namespace CM.Driver

def tokOf : String → Except String CM.Exit.Tok
  | "help" => pure .help | "version" => pure .version | "list" => pure .list
  | "describe" => pure .describe | "unknownOpt" => pure .unknownOpt
  | "missingOperand" => pure .missingOperand | "badChoice" => pure .badChoice
  | "badInt" => pure .badInt | "incl" => pure .incl | "excl" => pure .excl
  | "okOpt" => pure .okOpt | "positional" => pure .positional
  | s => .error s!"bad-op: token {s}"

def sarifOf : String → Except String CM.Exit.Sarif
  | "ok" => pure .ok | "missing" => pure .missing | "duplicateTool" => pure .duplicateTool
  | s => .error s!"bad-op: sarif {s}"

def outputOf : String → Except String CM.Exit.Output
  | "none" => pure .none | "writable" => pure .writable | "unwritable" => pure .unwritable
  | s => .error s!"bad-op: output {s}"

def opExit (j : Json) : Except String Json := do
  let toks ← getList j "toks" (fun x => do tokOf (← asStr x))
  let c : CM.Exit.Conds := {
    dirExists := ← getBool j "dirExists"
    sarif := ← sarifOf (← getStr j "sarif")
    resultFileMissing := ← getBool j "resultFileMissing"
    aiMisconfigured := ← getBool j "aiMisconfigured"
    output := ← outputOf (← getStr j "output") }
  pure <| jobj [("status", jnat (CM.Exit.status toks c)), ("written", jbool (CM.Exit.written toks c))]

def dispatch (j : Json) : Except String Json := do
  let op ← getStr j "op"
  match op with
  | "ping" => pure (jobj [("pong", jbool true)])
  | "exit_status" => opExit j
  | "rs_merge" => opRsMerge j
  | "rs_fold" => opRsFold j
  | "rs_add" => opRsAdd j
  | "sonar_read" => opSonarRead j
  | "sarif_read" => opSarifRead j
  | "dd_read" => opDdRead j
  | "detect_tools" => opDetectTools j
  | "match_codemods" => opMatchCodemods j
  | "csv_list" => opCsvList j
  | "id_glob" => opGlob j
  | "fnmatch" => opFnmatch j
  | "match_files" => opMatchFiles j
  | "context_paths" => opContextPaths j
  | "file_line_patterns" => opFileLinePatterns j
  | "match_location" => opMatchLocation j
  | "line_filter" => opLineFilter j
  | "selected" => opSelected j
  | "findings_for_line" => opFindingsForLine j
  | "run" => opRun j
  | "unified_diff" => opUnifiedDiff j
  | "patch_text" => opPatchText j
  | "regex_pipe" => opRegexPipe j
  | "xml_pipe" => opXmlPipe j
  | "canon" => opCanon j
  | "deps_add" => opDepsAdd j
  | "req_add" => opReqAdd j
  | "req_clean" => opReqClean j
  | "cfg_build" => opCfgBuild j
  | "replace_args" => opReplaceArgs j
  | "add_arg" => opAddArg j
  | "call_target" => opCallTarget j
  | "prec" => opPrec j
  | "prec_walrus" => opPrecWalrus j
  | "prec_eval" => opPrecEval j
  | "scope_clean" => opScopeClean j
  | _ => .error s!"bad-op: unknown op {op}"

end CM.Driver
