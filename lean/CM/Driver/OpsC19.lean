import CM.Driver.Json
import CM.Model.LinePipe
import CM.Model.XmlEv
open Lean
namespace CM.Driver

/-- table-driven `sub`: replace every occurrence of `from` by `to` (the harness generates patterns that are literals) -/
def opRegexPipe (j : Json) : Except String Json := do
  let frm ← getStr j "from"
  let to ← getStr j "to"
  let lines ← getList j "lines" asStr
  let sast ← getBool j "sast"
  let results ← getOpt j "results" fun x => asList x fun r => do
    pure ({ id := ← getOpt r "id" asStr,
            locs := ← getList r "locs" (fun l => do match (← asArr l) with
              | [a, b] => pure ((← asNat a), (← asNat b))
              | _ => .error "bad-op: loc") } : CM.LinePipe.Res)
  let dry ← getBool j "dry"
  let sub := fun (l : String) => l.replace frm to
  let encCh (c : CM.LinePipe.Change) := jobj [("line", jnat c.line), ("findings", jarr (c.findings.map jstr))]
  if sast then
    let (chg, upd, unf) := CM.LinePipe.sastRegexApply sub results lines
    let (w, cs) := CM.LinePipe.pipeApply dry chg upd lines
    pure <| jobj [("changes", jarr (chg.map encCh)), ("unfixed", jarr (unf.map jnat)), ("changeset", jbool cs),
                  ("written", match w with | some l => jstr (String.join l) | none => Json.null)]
  else
    let (chg, upd) := CM.LinePipe.regexApply sub (results.getD []) lines
    let (w, cs) := CM.LinePipe.pipeApply dry chg upd lines
    pure <| jobj [("changes", jarr (chg.map encCh)), ("unfixed", jarr []), ("changeset", jbool cs),
                  ("written", match w with | some l => jstr (String.join l) | none => Json.null)]

open CM.XmlEv in
def decEv (j : Json) : Except String Ev := do
  let decAttrs (x : Json) : Except String Attrs := asList x fun kv => do
    match (← asArr kv) with
    | [k, v] => pure ((← asStr k), (← asStr v))
    | _ => .error "bad-op: attr"
  match (← getStr j "t") with
  | "startDoc" => pure .startDoc
  | "endDoc" => pure .endDoc
  | "start" => pure (.startElem (← getStr j "name") (← decAttrs (← fld j "attrs")) (← getNat j "line") (← getNat j "col"))
  | "end" => pure (.endElem (← getStr j "name") (← getNat j "line"))
  | "chars" => pure (.chars (← getStr j "s"))
  | "ignorable" => pure (.ignorable (← getStr j "s"))
  | "pi" => pure (.pi (← getStr j "target") (← getStr j "data"))
  | "comment" => pure (.comment (← getStr j "s"))
  | "startCDATA" => pure .startCDATA
  | "endCDATA" => pure .endCDATA
  | "startDTD" => pure (.startDTD (← getStr j "name") (← getOpt j "pub" asStr) (← getOpt j "sys" asStr))
  | "endDTD" => pure .endDTD
  | t => .error s!"bad-op: event {t}"

open CM.XmlEv in
def opXmlPipe (j : Json) : Except String Json := do
  let evs ← getList j "events" decEv
  let decAttrs (x : Json) : Except String Attrs := asList x fun kv => do
    match (← asArr kv) with
    | [k, v] => pure ((← asStr k), (← asStr v))
    | _ => .error "bad-op: attr"
  let results ← getOpt j "results" fun x => asList x fun r => asList r fun l => do
    match (← asArr l) with
    | [a, b] => pure (⟨← asNat a, ← asNat b⟩ : Loc)
    | _ => .error "bad-op: loc"
  let kind ← getStr j "kind"
  let (out, ch) ←
    if kind == "attr" then do
      let m ← getList j "map" fun e => do
        match (← asArr e) with
        | [n, a] => pure ((← asStr n), (← decAttrs a))
        | _ => .error "bad-op: map"
      pure (attrTransform m results (← getBool j "line_only") evs)
    else do
      let news ← getList j "new" fun e => do
        pure ({ name := ← getStr e "name", parent := ← getStr e "parent", content := ← getStr e "content",
                attrs := ← decAttrs (← fld e "attrs") } : NewEl)
      pure (newElTransform news evs)
  pure <| jobj [("text", jstr (ser out)), ("change_lines", jarr (ch.map jnat))]

end CM.Driver
