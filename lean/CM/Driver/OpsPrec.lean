import CM.Driver.Json
import CM.Model.Prec
open Lean
namespace CM.Driver
open CM.Prec

def decCop (s : String) : Except String Cop :=
  match s with
  | "eq" => pure .eq | "ne" => pure .ne | "lt" => pure .lt | "ge" => pure .ge | "gt" => pure .gt | "le" => pure .le
  | "in_" => pure .in_ | "notIn" => pure .notIn | "is_" => pure .is_ | "isNot" => pure .isNot
  | s => .error s!"bad-op: comparison operator {s}"

def encCop : Cop → String
  | .eq => "eq" | .ne => "ne" | .lt => "lt" | .ge => "ge" | .gt => "gt" | .le => "le"
  | .in_ => "in_" | .notIn => "notIn" | .is_ => "is_" | .isNot => "isNot"

partial def decE (j : Json) : Except String E := do
  let p ← getBool j "p"
  match (← getStr j "k") with
  | "atom" => pure (.atom (← getStr j "n") p)
  | "call" => pure (.call (← getStr j "r") (← getList j "ps" asStr) p)
  | "neg" => pure (.neg (← decE (← fld j "e")) p)
  | "lnot" => pure (.lnot (← decE (← fld j "e")) p)
  | "bin" =>
    let k ← match (← getStr j "op") with
      | "arith" => pure BK.arith | "and" => pure BK.and | "or" => pure BK.or
      | s => .error s!"bad-op: binary operator {s}"
    pure (.bin k (← decE (← fld j "l")) (← decE (← fld j "r")) p)
  | "cmp" => pure (.cmp (← decCop (← getStr j "op")) (← decE (← fld j "l")) (← decE (← fld j "r")) p)
  | "chain" =>
    pure (.chain (← decE (← fld j "l")) (← decCop (← getStr j "o1")) (← decE (← fld j "m")) (← decCop (← getStr j "o2")) (← decE (← fld j "r")) p)
  | "ifx" => pure (.ifx (← decE (← fld j "t")) (← decE (← fld j "c")) (← decE (← fld j "f")) p)
  | "named" => pure (.named (← getStr j "n") (← decE (← fld j "v")) p)
  | "tup" => pure (.tup (← decE (← fld j "a")) (← decE (← fld j "b")) p)
  | s => .error s!"bad-op: expression kind {s}"

def encE : E → Json
  | .atom n p => jobj [("k", jstr "atom"), ("n", jstr n), ("p", jbool p)]
  | .call r ps p => jobj [("k", jstr "call"), ("r", jstr r), ("ps", jarr (ps.map jstr)), ("p", jbool p)]
  | .neg e p => jobj [("k", jstr "neg"), ("e", encE e), ("p", jbool p)]
  | .lnot e p => jobj [("k", jstr "lnot"), ("e", encE e), ("p", jbool p)]
  | .bin k l r p =>
    jobj [("k", jstr "bin"), ("op", jstr (match k with | .arith => "arith" | .and => "and" | .or => "or")), ("l", encE l), ("r", encE r), ("p", jbool p)]
  | .cmp o l r p => jobj [("k", jstr "cmp"), ("op", jstr (encCop o)), ("l", encE l), ("r", encE r), ("p", jbool p)]
  | .chain l a x c r p =>
    jobj [("k", jstr "chain"), ("l", encE l), ("o1", jstr (encCop a)), ("m", encE x), ("o2", jstr (encCop c)), ("r", encE r), ("p", jbool p)]
  | .ifx t c f p => jobj [("k", jstr "ifx"), ("t", encE t), ("c", encE c), ("f", encE f), ("p", jbool p)]
  | .named n v p => jobj [("k", jstr "named"), ("n", jstr n), ("v", encE v), ("p", jbool p)]
  | .tup a b p => jobj [("k", jstr "tup"), ("a", encE a), ("b", encE b), ("p", jbool p)]

/-- `prec`: everything the model says about one tree -/
def opPrec (j : Json) : Except String Json := do
  let e ← decE (← fld j "e")
  let c := combine true e
  let i := invert true e
  pure <| jobj [("wp", jarr ((List.range 11).map fun m => jbool (WP m e))), ("render", jstr (render e)),
                ("rhs_ok", jbool (WPrhs e)), ("and_folds", jbool (andFolds e)), ("combine", encE c), ("combine_wp0", jbool (WP 0 c)), ("combine_old", encE (combine false e)),
                ("invert", encE i), ("invert_wp0", jbool (WP 0 i)), ("invert_old", encE (invert false e)), ("invert_raises", jbool (invertRaises e)),
                ("invert_shallow", encE (invertShallow e)), ("nf_combine", jbool (NF e)), ("nf_invert", jbool (NFi e))]

/-- `prec_walrus`: the new `if` test for `n = value` followed by a test of one of the three shapes -/
def opPrecWalrus (j : Json) : Except String Json := do
  let v ← decE (← fld j "value")
  let n ← getStr j "name"
  let single ← getBool j "single"
  let tj ← fld j "test"
  let t ← match (← getStr tj "k") with
    | "name" => pure Test.name
    | "not" => pure (Test.notName (← getBool tj "p"))
    | "cmp" => pure (Test.cmpName (← decCop (← getStr tj "op")) (← decE (← fld tj "rhs")) (← getBool tj "p"))
    | s => .error s!"bad-op: test shape {s}"
  let out := walrus true n v single t
  pure <| jobj [("out", encE out), ("out_wp_if", jbool (WP 1 out)), ("value_rhs_ok", jbool (WPrhs v)), ("old", encE (walrus false n v single t))]

/-- `prec_eval`: the value the model gives a tree - over the integers (`evalZ`) and as a condition over names and receivers (`evalB`) -/
def opPrecEval (j : Json) : Except String Json := do
  let e ← decE (← fld j "e")
  let ints ← getList j "ints" fun p => do pure ((← getStr p "n"), (← getInt p "v"))
  let strs ← getList j "strs" fun p => do pure ((← getStr p "n"), (← getStr p "v"))
  let envZ : String → Int := fun n => (ints.lookup n).getD 0
  let envB : Env := { name := fun n => (ints.lookup n).getD 0 != 0, recv := fun n => ((strs.lookup n).getD "").toList }
  let enc (o : Option Int) : Json := match o with | some v => jint v | none => Json.null
  let encB (o : Option Bool) : Json := match o with | some v => jbool v | none => Json.null
  pure <| jobj [("z", enc (evalZ envZ e)), ("z_inverted", enc (evalZ envZ (invert true e))),
                ("b", encB (evalB envB e)), ("b_combined", encB (evalB envB (combine true e))), ("and_folds", jbool (andFolds e))]

end CM.Driver
