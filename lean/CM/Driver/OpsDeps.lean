import CM.Driver.Json
import CM.Model.Deps
open Lean
namespace CM.Driver
open CM.Deps

def opCanon (j : Json) : Except String Json := do
  let names ← getList j "names" asStr
  pure <| jobj [("canon", jarr (names.map fun n => jstr (canon n)))]

def opDepsAdd (j : Json) : Except String Json := do
  let declared ← getList j "declared" asStr
  let deps ← getList j "deps" asStr
  let (d', new) := add declared deps
  pure <| jobj [("declared", jarr (d'.map jstr)), ("new", jarr (new.map jstr))]

def opReqAdd (j : Json) : Except String Json := do
  let lines ← getList j "lines" asStr
  let reqs ← getList j "reqs" asStr
  match reqAdd lines reqs with
  | none => pure <| jobj [("raised", jbool true)]
  | some new => pure <| jobj [("lines", jarr (new.map jstr)), ("change_lines", jarr ((reqChangeLines lines reqs).map jnat)),
                              ("clean", jarr ((reqClean (new.map fun l => (l.splitOn "\n").headD "")).map jstr))]

def opReqClean (j : Json) : Except String Json := do
  let lines ← getList j "lines" asStr
  pure <| jobj [("clean", jarr ((reqClean lines).map jstr))]

def opCfgBuild (j : Json) : Except String Json := do
  let lines ← getList j "lines" asStr
  let lastDep ← getStr j "last_dep"
  let reqs ← getList j "reqs" asStr
  match cfgBuildNewline lines lastDep reqs with
  | none => pure <| jobj [("none", jbool true)]
  | some new => pure <| jobj [("lines", jarr (new.map jstr))]

end CM.Driver
