import CM.Driver.Json
import CM.Model.Registry
open Lean
namespace CM.Driver
open CM.Registry

def opMatchCodemods (j : Json) : Except String Json := do
  let reg ← getList j "registry" fun c => do
    match (← asArr c) with
    | [i, o] => pure (⟨← asStr i, ← asStr o⟩ : Codemod)
    | _ => .error "bad-op: codemod"
  let dflt ← getList j "default_excluded" asStr
  let incl ← getList j "include" asStr
  let excl ← getList j "exclude" asStr
  let sast ← getBool j "sast"
  pure <| jobj [("ids", jarr ((matchCodemods reg dflt incl excl sast).map (fun c => jstr c.id)))]

def opCsvList (j : Json) : Except String Json := do
  pure <| jobj [("items", jarr ((csvList (← getStr j "value")).map jstr))]

def opGlob (j : Json) : Except String Json := do
  pure <| jobj [("match", jbool (glob (← getStr j "pat") (← getStr j "s")))]

end CM.Driver
