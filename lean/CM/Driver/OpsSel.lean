import CM.Driver.Json
import CM.Model.Select
import CM.Model.Location
import CM.Generated.Preds
open Lean
namespace CM.Driver
open CM.Select CM.Location

def strLe (a b : String) : Bool := decide (a ≤ b)

def opFnmatch (j : Json) : Except String Json := do
  let pats ← getList j "pats" asStr
  let names ← getList j "names" asStr
  pure <| jobj [("m", jarr (pats.map fun p => jarr (names.map fun n => jbool (CM.Glob.fnm p n))))]

def optList (j : Json) (k : String) : Except String (Option (List String)) := getOpt j k (fun x => asList x asStr)

def opMatchFiles (j : Json) : Except String Json := do
  let di ← getList j "default_include" asStr
  let de ← getList j "default_exclude" asStr
  let paths ← getList j "paths" asStr
  let excl ← optList j "exclude"
  let incl ← optList j "include"
  pure <| jobj [("files", jarr ((matchFiles strLe di de paths excl incl).map jstr))]

def opContextPaths (j : Json) : Except String Json := do
  let di ← getList j "default_include" asStr
  let de ← getList j "default_exclude" asStr
  let ri ← getList j "registry_include" asStr
  let files ← getList j "files" asStr
  let pi ← getList j "path_include" asStr
  let pe ← getList j "path_exclude" asStr
  let sub ← getList j "subset" asStr
  pure <| jobj [("find_and_fix", jarr ((findAndFixPaths strLe di de files pi pe).map jstr)),
                ("filter_paths", jarr ((filterPaths strLe di de ri sub pi pe).map jstr))]

def opFileLinePatterns (j : Json) : Except String Json := do
  let a ← getStr j "abs"
  let r ← getOpt j "rel" asStr
  let pats ← getList j "patterns" asStr
  match fileLinePatterns a r pats with
  | some ls => pure <| jobj [("lines", jarr (ls.map jint))]
  | none => pure <| jobj [("raised", jbool true)]

def decPos (j : Json) : Except String Pos := do
  match (← asArr j) with
  | [a, b, c, d] => pure ⟨← asInt a, ← asInt b, ← asInt c, ← asInt d⟩
  | _ => .error "bad-op: pos"

def decLoc4 (j : Json) : Except String Loc := do
  match (← asArr j) with
  | [a, b, c, d] => pure ⟨← asInt a, ← asInt b, ← asInt c, ← asInt d⟩
  | _ => .error "bad-op: loc"

def variantOf : String → Except String Variant
  | "generic" => pure .generic | "sonar" => pure .sonar | "defectdojo" => pure .defectdojo
  | s => .error s!"bad-op: variant {s}"

/-- all position predicates on one (pos, locations) input; model and translated-from-source side by side -/
def opMatchLocation (j : Json) : Except String Json := do
  let p ← decPos (← fld j "pos")
  let locs ← getList j "locs" decLoc4
  let isTuple ← getBool j "tuple"
  pure <| jobj [
    ("generic", jbool (matchLoc p locs)), ("sonar", jbool (sonarMatchLoc isTuple p locs)),
    ("defectdojo", jbool (ddMatchLoc p locs)),
    ("same_line", jarr (locs.map fun l => jbool (sameLine p l))),
    ("fuzzy", jarr (locs.map fun l => jbool (fuzzyColumnMatch p l))),
    ("gen_generic", jbool (CM.Generated.gen_match_location p locs)),
    ("gen_defectdojo", jbool (CM.Generated.gen_dd_match_location p locs)),
    ("gen_same_line", jarr (locs.map fun l => jbool (CM.Generated.gen_same_line p l))),
    ("gen_fuzzy", jarr (locs.map fun l => jbool (CM.Generated.gen_fuzzy_column_match p l)))]

def opLineFilter (j : Json) : Except String Json := do
  let p ← decPos (← fld j "pos")
  let excl ← getList j "exclude" asInt
  let incl ← getList j "include" asInt
  pure <| jobj [("permitted", jbool (lineFilter excl incl p)),
                ("gen", jbool (CM.Generated.gen_line_filter p excl incl)),
                ("gen_rui", jbool (CM.Generated.gen_line_filter_rui p excl incl))]

def opSelected (j : Json) : Except String Json := do
  let p ← decPos (← fld j "pos")
  let v ← variantOf (← getStr j "variant")
  let isTuple ← getBool j "tuple"
  let rs ← getOpt j "results" (fun x => asList x (fun r => asList r decLoc4))
  let excl ← getList j "exclude" asInt
  let incl ← getList j "include" asInt
  pure <| jobj [("selected", jbool (nodeIsSelected v isTuple rs excl incl p))]

def opFindingsForLine (j : Json) : Except String Json := do
  let rs ← getList j "results" fun r => do
    pure ((← getList r "locs" decLoc4), (← getOpt r "finding" asNat))
  let line ← getInt j "line"
  pure <| jobj [("findings", jarr ((findingsForLine rs line).map jnat)),
                ("gen_covers", jarr (rs.map fun (locs, _) => jbool (CM.Generated.gen_finding_covers line locs)))]

end CM.Driver
