import CM.Driver.Json
import CM.Model.Args
open Lean
namespace CM.Driver
open CM.Args

def decArg (j : Json) : Except String Arg := do
  let star ← match (← getStr j "star") with
    | "" => pure Star.none | "*" => pure Star.one | "**" => pure Star.two
    | s => .error s!"bad-op: star {s}"
  pure { kw := ← getOpt j "kw" asStr, star := star, val := ← getStr j "val" }

def encArg (a : Arg) : Json :=
  jobj [("kw", match a.kw with | some k => jstr k | none => Json.null),
        ("star", jstr (match a.star with | .none => "" | .one => "*" | .two => "**")), ("val", jstr a.val)]

def opReplaceArgs (j : Json) : Except String Json := do
  let args ← getList j "args" decArg
  let info ← getList j "spec" fun n => do
    pure ({ name := ← getStr n "name", value := ← getStr n "value", addIfMissing := ← getBool n "add_if_missing" } : NewArg)
  let out := replaceArgs args info
  pure <| jobj [("args", jarr (out.map encArg)), ("wf_in", jbool (wf args)), ("wf_out", jbool (wf out)),
                ("twice", jarr ((replaceArgs out info).map encArg))]

def opAddArg (j : Json) : Except String Json := do
  let args ← getList j "args" decArg
  let out := addArg args (← getStr j "name") (← getStr j "value")
  pure <| jobj [("args", jarr (out.map encArg)), ("wf_in", jbool (wf args)), ("wf_out", jbool (wf out))]

end CM.Driver
