import CM.Driver.Json
import CM.Model.Args
open Lean
namespace CM.Driver
open CM.Args

def decArg (j : Json) : Except String Arg := do
  let star ← match (← getStr j "star") with
    | "" => pure Star.none | "*" => pure Star.one | "**" => pure Star.two
    | s => .error s!"bad-op: star {s}"
  let gen ← match j.getObjVal? "gen" with
    | .ok (.bool b) => pure b
    | .ok _ => .error "bad-op: field gen not a bool"
    | .error _ => pure false
  pure { kw := ← getOpt j "kw" asStr, star := star, val := ← getStr j "val", gen := gen }

def encArg (a : Arg) : Json :=
  jobj [("kw", match a.kw with | some k => jstr k | none => Json.null),
        ("star", jstr (match a.star with | .none => "" | .one => "*" | .two => "**")), ("val", jstr a.val), ("gen", jbool a.gen)]

def opReplaceArgs (j : Json) : Except String Json := do
  let args ← getList j "args" decArg
  let info ← getList j "spec" fun n => do
    pure ({ name := ← getStr n "name", value := ← getStr n "value", addIfMissing := ← getBool n "add_if_missing" } : NewArg)
  let out := replaceArgs args info
  let upd := updateArgTarget out
  pure <| jobj [("args", jarr (out.map encArg)), ("wf_in", jbool (wfGen args)), ("wf_out", jbool (wfGen out)),
                ("twice", jarr ((replaceArgs out info).map encArg)),
                ("updated", jarr (upd.map encArg)), ("wf_updated", jbool (wfGen upd))]

def opAddArg (j : Json) : Except String Json := do
  let args ← getList j "args" decArg
  let out := addArgToCall args (← getStr j "name") (← getStr j "value")
  pure <| jobj [("args", jarr (out.map encArg)), ("wf_in", jbool (wfGen args)), ("wf_out", jbool (wfGen out))]

/-- `call_target`: `update_call_target` with or without replacement arguments -/
def opCallTarget (j : Json) : Except String Json := do
  let args ← getList j "args" decArg
  let repl ← getOpt j "replacement" fun r => asList r decArg
  let func ← getOpt j "func" asStr
  let out := callTarget (← getStr j "name") args (← getStr j "target") func repl
  pure <| jobj [("callee", jstr out.1), ("args", jarr (out.2.map encArg)), ("wf_out", jbool (wfGen out.2)),
                ("old_args", jarr ((callTarget (← getStr j "name") args (← getStr j "target") func repl false).2.map encArg))]

end CM.Driver
