import CM.Driver.Json
import CM.Model.Readers
open Lean
namespace CM.Driver
open CM.RS CM.Readers

def decAL {α} (f : Json → Except String α) (j : Json) : Except String (AL α) := do
  (← asArr j).mapM fun kv => do
    match (← asArr kv) with
    | [k, v] => pure ((← asStr k), (← f v))
    | _ => .error "bad-op: pair expected"

def decRSetNat (j : Json) : Except String (RSet Nat) := decAL (decAL (fun x => asList x asNat)) j

def encAL {α} (f : α → Json) (l : AL α) : Json := jarr (l.map fun (k, v) => jarr [jstr k, f v])
def encRSetNat (r : RSet Nat) : Json := encAL (encAL (fun l => jarr (l.map jnat))) r

def encLoc (l : Loc) : Json := jarr [jstr l.file, jint l.sl, jint l.sc, jint l.el, jint l.ec]
def encPayload (p : Payload) : Json :=
  jobj [("ruleId", jstr p.ruleId), ("findingId", jstr p.findingId), ("locs", jarr (p.locs.map encLoc))]
def encRSetP (r : RSet Payload) : Json := encAL (encAL (fun l => jarr (l.map encPayload))) r

def decLoc (j : Json) : Except String Loc := do
  match (← asArr j) with
  | [f, a, b, c, d] => pure ⟨← asStr f, ← asInt a, ← asInt b, ← asInt c, ← asInt d⟩
  | _ => .error "bad-op: loc"

def opRsMerge (j : Json) : Except String Json := do
  let a ← decRSetNat (← fld j "a")
  let b ← decRSetNat (← fld j "b")
  let inplace ← getBool j "inplace"
  pure <| jobj [("set", encRSetNat (if inplace then imerge a b else merge a b))]

def opRsFold (j : Json) : Except String Json := do
  let sets ← getList j "sets" decRSetNat
  pure <| jobj [("set", encRSetNat (fold sets))]

/-- a sequence of `add_result(rule, files, tag)` followed by lookups -/
def opRsAdd (j : Json) : Except String Json := do
  let adds ← getList j "adds" fun a => do
    pure ((← getStr a "rule"), (← getList a "files" asStr), (← getNat a "tag"))
  let rs : RSet Nat := adds.foldl (fun acc (r, fs, t) => addResult acc r fs t) []
  let qs ← getList j "queries" fun q => do
    match (← asArr q) with
    | [r, f] => pure ((← asStr r), (← asStr f))
    | _ => .error "bad-op: query"
  pure <| jobj [("set", encRSetNat rs),
                ("answers", jarr (qs.map fun (r, f) => jarr ((get rs r f).map jnat))),
                ("rules", jarr ((allRuleIds rs).map jstr)),
                ("files", jarr (qs.map fun (r, _) => jarr ((filesForRule rs r).map jstr)))]

def decSonarEntry (j : Json) : Except String SonarEntry := do
  let tr ← getOpt j "textRange" fun t => do
    match (← asArr t) with
    | [a, b, c, d] => pure (⟨← asInt a, ← asInt b, ← asInt c, ← asInt d⟩ : TextRange)
    | _ => .error "bad-op: textRange"
  pure { rule := ← getOpt j "rule" asStr, ruleKey := ← getOpt j "ruleKey" asStr,
         status := ← getOpt j "status" asStr, textRange := tr,
         component := ← getOpt j "component" asStr, key := ← getOpt j "key" asStr }

def opSonarRead (j : Json) : Except String Json := do
  let doc : SonarDoc := { issues := ← getList j "issues" decSonarEntry, hotspots := ← getList j "hotspots" decSonarEntry }
  pure <| jobj [("set", encRSetP (sonarRead doc))]

def decSResult (j : Json) : Except String SResult := do
  pure { ruleId := ← getOpt j "ruleId" asStr, toolIndex := ← getOpt j "toolIndex" asNat,
         ruleIndex := ← getOpt j "ruleIndex" asNat, locs := ← getList j "locs" decLoc }

def decSRun (j : Json) : Except String SRun := do
  pure { toolName := ← getOpt j "toolName" asStr,
         extRules := ← getList j "extRules" (fun x => asList x asStr),
         results := ← getList j "results" decSResult }

def opSarifRead (j : Json) : Except String Json := do
  let runs ← getList j "runs" decSRun
  let trunc ← getBool j "truncate"
  let kind ← getStr j "kind"
  let ps := if kind == "codeql" then codeqlPayloads runs trunc else semgrepPayloads runs trunc
  match ps with
  | .error _ => pure <| jobj [("raised", jbool true)]
  | .ok xs => pure <| jobj [("set", encRSetP (readAll xs))]

def opDdRead (j : Json) : Except String Json := do
  let es ← getList j "results" fun e => do
    pure ({ id := ← getInt e "id", title := ← getStr e "title", filePath := ← getStr e "file_path",
            line := ← getInt e "line" } : DDEntry)
  pure <| jobj [("set", encRSetP (readAll (ddPayloads es)))]

def opDetectTools (j : Json) : Except String Json := do
  let files ← getList j "files" fun f => do
    pure ((← getStr f "name"), (← getList f "runs" (fun r => match r with | .null => pure none | x => do pure (some (← asStr x)))))
  match detectTools files with
  | .error (.duplicateTool n) => pure <| jobj [("duplicate", jstr n)]
  | .ok m => pure <| jobj [("map", encAL (fun l => jarr (l.map jstr)) m)]

end CM.Driver
