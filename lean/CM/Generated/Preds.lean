import CM.Model.Location
/-! GENERATED from /repo by harness/gen.py on every run — do not edit. -/
set_option linter.unusedSimpArgs false
namespace CM.Generated

open CM.Location

/-- translated from src/codemodder/result.py `same_line` -/
def gen_same_line (p : Pos) (l : Loc) : Bool := ((p.sl == l.sl) && (p.el == l.el))

/-- translated from src/codemodder/result.py `fuzzy_column_match` -/
def gen_fuzzy_column_match (p : Pos) (l : Loc) : Bool := ((decide (p.sc ≤ l.sc) && decide (l.sc ≤ (p.ec + (1 : Int)))) && (decide (p.sc ≤ l.ec) && decide (l.ec ≤ (p.ec + (1 : Int)))))

def gen_match_location_1 (p : Pos) (l : Loc) : Bool := ((gen_same_line p l) && ((p.sc == (l.sc - (1 : Int))) || (p.sc == l.sc)) && ((p.ec == (l.ec - (1 : Int))) || (p.ec == l.ec)))

/-- translated from src/codemodder/result.py `Result.match_location` -/
def gen_match_location (p : Pos) (locs : List Loc) : Bool := (locs.any fun l => gen_match_location_1 p l)

def gen_dd_match_location_1 (p : Pos) (l : Loc) : Bool := (decide (p.sl ≤ l.sl) && decide (l.sl ≤ p.el))

/-- translated from src/core_codemods/defectdojo/results.py `DefectDojoResult.match_location` -/
def gen_dd_match_location (p : Pos) (locs : List Loc) : Bool := (locs.any fun l => gen_dd_match_location_1 p l)

/-- translated from src/codemodder/codemods/base_visitor.py `match_line` -/
def gen_match_line (p : Pos) (line : Int) : Bool := ((p.sl == line) && (p.el == line))

/-- translated from src/core_codemods/remove_unused_imports.py `match_line` -/
def gen_match_line_rui (p : Pos) (line : Int) : Bool := ((p.sl == line) && (p.el == line))

def gen_line_filter_1 (p : Pos) (line : Int) : Bool := (gen_match_line p line)

def gen_line_filter_2 (p : Pos) (line : Int) : Bool := (gen_match_line p line)

/-- translated from src/codemodder/codemods/base_visitor.py `UtilsMixin.filter_by_path_includes_or_excludes` -/
def gen_line_filter (p : Pos) (excl : List Int) (incl : List Int) : Bool := (if (!excl.isEmpty) then (!(excl.any fun line => gen_line_filter_1 p line)) else (if (!incl.isEmpty) then (incl.any fun line => gen_line_filter_2 p line) else true))

def gen_line_filter_rui_1 (p : Pos) (line : Int) : Bool := (gen_match_line_rui p line)

def gen_line_filter_rui_2 (p : Pos) (line : Int) : Bool := (gen_match_line_rui p line)

/-- translated from src/core_codemods/remove_unused_imports.py `RemoveUnusedImportsCodemod.filter_by_path_includes_or_excludes` -/
def gen_line_filter_rui (p : Pos) (excl : List Int) (incl : List Int) : Bool := (if (!excl.isEmpty) then (!(excl.any fun line => gen_line_filter_rui_1 p line)) else (if (!incl.isEmpty) then (incl.any fun line => gen_line_filter_rui_2 p line) else true))

def gen_finding_covers_1 (line : Int) (l : Loc) : Bool := (decide (l.sl ≤ line) && decide (line ≤ l.el))

/-- translated from src/codemodder/file_context.py `FileContext.get_findings_for_location` -/
def gen_finding_covers (line : Int) (locs : List Loc) : Bool := (locs.any fun l => gen_finding_covers_1 line l)

end CM.Generated
