import CM.Generated.Preds
/-! GENERATED from /repo by harness/gen.py on every run — do not edit. -/
set_option linter.unusedSimpArgs false
namespace CM.Generated

open CM.Location

theorem gen_same_line_eq (p : Pos) (l : Loc) : gen_same_line p l = sameLine p l := by
  try simp only [gen_same_line, sameLine, fuzzyColumnMatch, matchLoc, matchLoc1, ddMatchLoc, ddMatch1, matchLine, lineFilter, coversLine, covers1]
  all_goals first | rfl | grind | (simp; done)

theorem gen_fuzzy_column_match_eq (p : Pos) (l : Loc) : gen_fuzzy_column_match p l = fuzzyColumnMatch p l := by
  try simp only [gen_fuzzy_column_match, sameLine, fuzzyColumnMatch, matchLoc, matchLoc1, ddMatchLoc, ddMatch1, matchLine, lineFilter, coversLine, covers1]
  all_goals first | rfl | grind | (simp; done)

theorem gen_match_location_1_eq (p : Pos) (l : Loc) : gen_match_location_1 p l = matchLoc1 p l := by
  try simp only [gen_match_location_1, sameLine, fuzzyColumnMatch, matchLoc, matchLoc1, ddMatchLoc, ddMatch1, matchLine, lineFilter, coversLine, covers1, gen_same_line_eq]
  all_goals first | rfl | grind | (simp; done)

theorem gen_match_location_eq (p : Pos) (locs : List Loc) : gen_match_location p locs = matchLoc p locs := by
  try simp only [gen_match_location, sameLine, fuzzyColumnMatch, matchLoc, matchLoc1, ddMatchLoc, ddMatch1, matchLine, lineFilter, coversLine, covers1, gen_same_line_eq, gen_match_location_1_eq]
  all_goals first | rfl | grind | (simp; done)

theorem gen_dd_match_location_1_eq (p : Pos) (l : Loc) : gen_dd_match_location_1 p l = ddMatch1 p l := by
  try simp only [gen_dd_match_location_1, sameLine, fuzzyColumnMatch, matchLoc, matchLoc1, ddMatchLoc, ddMatch1, matchLine, lineFilter, coversLine, covers1]
  all_goals first | rfl | grind | (simp; done)

theorem gen_dd_match_location_eq (p : Pos) (locs : List Loc) : gen_dd_match_location p locs = ddMatchLoc p locs := by
  try simp only [gen_dd_match_location, sameLine, fuzzyColumnMatch, matchLoc, matchLoc1, ddMatchLoc, ddMatch1, matchLine, lineFilter, coversLine, covers1, gen_dd_match_location_1_eq]
  all_goals first | rfl | grind | (simp; done)

theorem gen_match_line_eq (p : Pos) (line : Int) : gen_match_line p line = matchLine p line := by
  try simp only [gen_match_line, sameLine, fuzzyColumnMatch, matchLoc, matchLoc1, ddMatchLoc, ddMatch1, matchLine, lineFilter, coversLine, covers1]
  all_goals first | rfl | grind | (simp; done)

theorem gen_match_line_rui_eq (p : Pos) (line : Int) : gen_match_line_rui p line = matchLine p line := by
  try simp only [gen_match_line_rui, sameLine, fuzzyColumnMatch, matchLoc, matchLoc1, ddMatchLoc, ddMatch1, matchLine, lineFilter, coversLine, covers1]
  all_goals first | rfl | grind | (simp; done)

theorem gen_line_filter_1_eq (p : Pos) (line : Int) : gen_line_filter_1 p line = matchLine p line := by
  try simp only [gen_line_filter_1, sameLine, fuzzyColumnMatch, matchLoc, matchLoc1, ddMatchLoc, ddMatch1, matchLine, lineFilter, coversLine, covers1, gen_match_line_eq]
  all_goals first | rfl | grind | (simp; done)

theorem gen_line_filter_2_eq (p : Pos) (line : Int) : gen_line_filter_2 p line = matchLine p line := by
  try simp only [gen_line_filter_2, sameLine, fuzzyColumnMatch, matchLoc, matchLoc1, ddMatchLoc, ddMatch1, matchLine, lineFilter, coversLine, covers1, gen_match_line_eq]
  all_goals first | rfl | grind | (simp; done)

theorem gen_line_filter_eq (p : Pos) (excl : List Int) (incl : List Int) : gen_line_filter p excl incl = lineFilter excl incl p := by
  try simp only [gen_line_filter, sameLine, fuzzyColumnMatch, matchLoc, matchLoc1, ddMatchLoc, ddMatch1, matchLine, lineFilter, coversLine, covers1, gen_match_line_eq, gen_line_filter_1_eq, gen_line_filter_2_eq]
  all_goals first | rfl | grind | (simp; done)

theorem gen_line_filter_rui_1_eq (p : Pos) (line : Int) : gen_line_filter_rui_1 p line = matchLine p line := by
  try simp only [gen_line_filter_rui_1, sameLine, fuzzyColumnMatch, matchLoc, matchLoc1, ddMatchLoc, ddMatch1, matchLine, lineFilter, coversLine, covers1, gen_match_line_rui_eq]
  all_goals first | rfl | grind | (simp; done)

theorem gen_line_filter_rui_2_eq (p : Pos) (line : Int) : gen_line_filter_rui_2 p line = matchLine p line := by
  try simp only [gen_line_filter_rui_2, sameLine, fuzzyColumnMatch, matchLoc, matchLoc1, ddMatchLoc, ddMatch1, matchLine, lineFilter, coversLine, covers1, gen_match_line_rui_eq]
  all_goals first | rfl | grind | (simp; done)

theorem gen_line_filter_rui_eq (p : Pos) (excl : List Int) (incl : List Int) : gen_line_filter_rui p excl incl = lineFilter excl incl p := by
  try simp only [gen_line_filter_rui, sameLine, fuzzyColumnMatch, matchLoc, matchLoc1, ddMatchLoc, ddMatch1, matchLine, lineFilter, coversLine, covers1, gen_match_line_rui_eq, gen_line_filter_rui_1_eq, gen_line_filter_rui_2_eq]
  all_goals first | rfl | grind | (simp; done)

theorem gen_finding_covers_1_eq (line : Int) (l : Loc) : gen_finding_covers_1 line l = covers1 line l := by
  try simp only [gen_finding_covers_1, sameLine, fuzzyColumnMatch, matchLoc, matchLoc1, ddMatchLoc, ddMatch1, matchLine, lineFilter, coversLine, covers1]
  all_goals first | rfl | grind | (simp; done)

theorem gen_finding_covers_eq (line : Int) (locs : List Loc) : gen_finding_covers line locs = coversLine locs line := by
  try simp only [gen_finding_covers, sameLine, fuzzyColumnMatch, matchLoc, matchLoc1, ddMatchLoc, ddMatch1, matchLine, lineFilter, coversLine, covers1, gen_finding_covers_1_eq]
  all_goals first | rfl | grind | (simp; done)

end CM.Generated
