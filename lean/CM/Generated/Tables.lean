import CM.Model.Prec
/-! GENERATED from /repo by harness/gen.py on every run — do not edit. -/
set_option linter.unusedSimpArgs false
namespace CM.Generated

open CM.Prec

/-- translated from src/core_codemods/invert_boolean_check.py `_invert_comparisons` (the `match` over operator classes) -/
def gen_inv : Cop → Cop
  | .eq => .ne | .ne => .eq | .lt => .ge | .ge => .lt | .gt => .le | .le => .gt | .in_ => .notIn | .notIn => .in_ | .is_ => .isNot | .isNot => .is_

end CM.Generated
