/-! GENERATED from /repo by harness/gen.py on every run — do not edit. -/
set_option linter.unusedSimpArgs false
namespace CM.Generated

def defaultIncludedPaths : List String := ["**.py", "**/*.py"]
def defaultExcludedPaths : List String := ["test/**", "tests/**", "**/__test__/**", "**/__tests__/**", "conftest.py", "build/**", "dist/**", "venv/**", "**/site-packages/**", ".venv/**", ".tox/**", ".nox/**", ".eggs/**", ".git/**", ".mypy_cache/**", ".pytest_cache/**", ".hypothesis/**", ".coverage*"]

end CM.Generated
