import CM.Generated.Tables
/-! GENERATED from /repo by harness/gen.py on every run — do not edit. -/
set_option linter.unusedSimpArgs false
namespace CM.Generated

open CM.Prec

theorem gen_inv_eq (o : Cop) : gen_inv o = inv o := by cases o <;> rfl

end CM.Generated
