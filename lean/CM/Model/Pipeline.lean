import CM.Model.Deps
/-
Model of the framework that drives codemods:
`codemodder.codemodder.run / apply_codemods / find_semgrep_results`,
`codemods.base_codemod.BaseCodemod._apply / _process_file`, `FindAndFixCodemod / RemediationCodemod.get_files_to_analyze`,
`codemods.libcst_transformer.LibcstTransformerPipeline.apply` (control flow only),
`file_context.FileContext.add_failure`, `context.CodemodExecutionContext.process_results /
process_dependencies / compile_results`, `dependency_management.DependencyWriter.write / add`.

What is abstract (a parameter of the model, see DESIGN §9): the transformer of a codemod applied to
one file (`transform`), its detector on one file (`detect`: semgrep rule or SAST findings), the
diff function, the manifest writers (`Store.addToFile`).
-/
namespace CM.Pipeline

abbrev Path := String
abbrev Content := String

/-- the project: path ↦ bytes (association list, first binding wins) -/
abbrev World := List (Path × Content)

def World.get (w : World) (p : Path) : Option Content := w.lookup p

def World.set : World → Path → Content → World
  | [], p, c => [(p, c)]
  | (q, d) :: t, p, c => if q == p then (q, c) :: t else (q, d) :: World.set t p c

structure Finding where
  id : String
  rule : String
  line : Nat
  deriving DecidableEq, Repr

structure Change where
  line : Nat
  desc : String
  findings : List String
  deriving DecidableEq, Repr

structure ChangeSet where
  path : Path
  diff : String
  changes : List Change
  deriving DecidableEq, Repr

structure Unfixed where
  id : String
  path : Path
  line : Nat
  reason : String
  deriving DecidableEq, Repr

/-- what a transformer pipeline does with one file it is given -/
inductive TOut where
  | ran (new : Content) (changes : List Change) (deps : List String)   -- `changes = []`: nothing reported
  | raised (parse : Bool)                                              -- parse (true) or transform (false) raised
  deriving DecidableEq, Repr

inductive Det where
  | none | semgrep | sast
  deriving DecidableEq, Repr

structure Codemod where
  id : String
  name : String                       -- `_internal_name`: key of the codemod's own semgrep rule
  det : Det
  ext : Path → Bool                   -- `default_extensions` filter
  /-- semgrep: findings of the codemod's rule in this file content; SAST: the findings the result
  files report for this path (content ignored) -/
  detect : Path → Content → List Finding
  transform : Path → Content → Option (List Finding) → TOut

structure Cfg where
  dry : Bool
  deriving DecidableEq, Repr

/-- a dependency manifest: what `PackageStore` + its writer amount to -/
structure Store where
  path : Path
  declared : List String                                   -- requirement names parsed at start-up (mutated by `add`)
  /-- `add_to_file`: current manifest text, new requirements ↦ new text and changeset (or `none`: cannot write) -/
  addToFile : Content → List String → Option (Content × ChangeSet)

/-- state precomputed once at start-up from the initial world -/
structure Ctx where
  ffPaths : List Path                        -- `find_and_fix_paths` (cached property)
  allFiles : List Path                       -- `files_to_analyze` (cached property)
  sastFilter : List Path → List Path         -- `filter_paths`
  prefilter : List (String × List Path)      -- `semgrep_prefilter_results`: rule name ↦ files matched in the initial world
  diff : Content → Content → String

/-- per-file result (`FileContext` after `_process_file`) -/
structure FileRes where
  changesets : List ChangeSet := []
  failures : List Path := []
  deps : List String := []
  unfixed : List Unfixed := []
  write : Option Content := none
  deriving Repr

def toUnfixed (p : Path) (reason : String) (fs : List Finding) : List Unfixed :=
  fs.map fun f => { id := f.id, path := p, line := 0, reason := reason }

/-- `_process_file` + `LibcstTransformerPipeline.apply` for one file whose current content is `c`
(`none`: the file cannot be read). -/
def processFile (ctx : Ctx) (K : Codemod) (p : Path) (c : Option Content) (findings : Option (List Finding)) : FileRes :=
  match findings with
  | some [] => {}                                            -- "no findings, short-circuiting analysis"
  | _ =>
    match c with
    | none => { failures := [p], unfixed := toUnfixed p "Failed to parse file" (findings.getD []) }
    | some c =>
      match K.transform p c findings with
      | .raised parse =>
          { failures := [p],
            unfixed := toUnfixed p (if parse then "Failed to parse file" else "Failed to transform file") (findings.getD []) }
      | .ran new changes deps =>
          if changes.isEmpty then { deps := deps }           -- "No changes produced"
          else if ctx.diff c new == "" then { deps := deps } -- "No code diff produced"
          else { changesets := [{ path := p, diff := ctx.diff c new, changes := changes }], deps := deps, write := some new }

def keys {α} (l : List (String × α)) : List String := l.map (·.1)

/-- what the codemod's own semgrep run reports: it scans the files of its rule in the prefilter (the
whole selection when the prefilter is empty) as they are *now* -/
def semgrepResults (ctx : Ctx) (K : Codemod) (w : World) : List (Path × List Finding) :=
  let scan := if ctx.prefilter.isEmpty then ctx.ffPaths else (ctx.prefilter.lookup K.name).getD []
  scan.filterMap fun p =>
    match w.get p with
    | some c => let fs := K.detect p c; if fs.isEmpty then none else some (p, fs)
    | none => none

/-- "no results from semgrep for …, skipping analysis" -/
def prefilterSkips (ctx : Ctx) (K : Codemod) : Bool :=
  !ctx.prefilter.isEmpty && !(keys ctx.prefilter).contains K.name

/-- the files handed to the executor with their findings, or `none` when `_apply` returns early -/
def plan (ctx : Ctx) (K : Codemod) (w : World) : Option (List (Path × Option (List Finding))) :=
  match K.det with
  | .none => some ((ctx.ffPaths.filter K.ext).map fun p => (p, none))
  | .semgrep =>
    if prefilterSkips ctx K then none
    else if (semgrepResults ctx K w).isEmpty then none
    else some ((ctx.ffPaths.filter K.ext).map fun p => (p, some (((semgrepResults ctx K w).lookup p).getD [])))
  | .sast =>
    let withFindings := ctx.allFiles.filter fun p => K.ext p && !(K.detect p "").isEmpty
    if (ctx.allFiles.filter fun p => !(K.detect p "").isEmpty).isEmpty then none
    else some ((ctx.sastFilter withFindings).map fun p => (p, some (K.detect p "")))

/-- per-codemod accumulators of the execution context (dicts keyed by codemod id) -/
structure Acc where
  changesets : List ChangeSet := []
  failures : List Path := []
  unfixed : List Unfixed := []
  deps : List String := []                 -- a set in the code
  depStore : Option Path := none           -- `_dependency_update_by_codemod[id]`
  deriving Repr

structure St where
  world : World
  accs : List (String × Acc)               -- keyed by codemod id, insertion order
  stores : List Store

def getAcc (accs : List (String × Acc)) (id : String) : Acc := (accs.lookup id).getD {}

def setAcc : List (String × Acc) → String → Acc → List (String × Acc)
  | [], id, a => [(id, a)]
  | (k, b) :: t, id, a => if k == id then (k, a) :: t else (k, b) :: setAcc t id a

def commit (cfg : Cfg) (w : World) (p : Path) (c : Content) : World :=
  if cfg.dry then w else w.set p c

def unionDeps (a b : List String) : List String := a ++ b.filter (fun d => !a.contains d)

/-- `process_results` for one file context -/
def absorbAcc (a : Acc) (r : FileRes) : Acc :=
  { a with changesets := a.changesets ++ r.changesets, failures := a.failures ++ r.failures,
           unfixed := a.unfixed ++ r.unfixed, deps := unionDeps a.deps r.deps }

/-- the write a pipeline makes for its own file (`update_code`), unless `--dry-run` -/
def writeOf (cfg : Cfg) (w : World) (p : Path) (r : FileRes) : World :=
  match r.write with
  | some c => commit cfg w p c
  | none => w

/-- `executor.map(process_file, files)`: every file is processed on the content it has when the
codemod starts; each worker reads and writes only its own file -/
def fileResults (ctx : Ctx) (K : Codemod) (w : World) (files : List (Path × Option (List Finding))) :
    List (Path × FileRes) :=
  files.map fun (p, fs) => (p, processFile ctx K p (w.get p) fs)

def applyWrites (cfg : Cfg) (w : World) (rs : List (Path × FileRes)) : World :=
  rs.foldl (fun w (p, r) => writeOf cfg w p r) w

/-- `DependencyWriter.write` on one store: `add` filters and records (also in dry-run), `add_to_file` edits -/
def storeWrite (cfg : Cfg) (w : World) (s : Store) (deps : List String) : Store × Option (World × ChangeSet) :=
  let (declared', new) := CM.Deps.add s.declared deps
  let s' := { s with declared := declared' }
  if new.isEmpty then (s', none)
  else match w.get s.path with
    | none => (s', none)
    | some txt =>
      match s.addToFile txt new with
      | none => (s', none)
      | some (txt', cs) => (s', some (commit cfg w s.path txt', cs))

/-- the loop over `package_stores` in `process_dependencies`: first store that yields a changeset wins -/
def writeStores (cfg : Cfg) (w : World) (deps : List String) :
    List Store → List Store × Option (World × ChangeSet × Path)
  | [] => ([], none)
  | s :: rest =>
    match storeWrite cfg w s deps with
    | (s', some (w', cs)) => (s' :: rest, some (w', cs, s.path))
    | (s', none) =>
      let (rest', r) := writeStores cfg w deps rest
      (s' :: rest', r)

/-- `process_dependencies(codemod_id)` -/
def processDeps (cfg : Cfg) (id : String) (st : St) : St :=
  let a := getAcc st.accs id
  if a.deps.isEmpty then st
  else
    let (stores', r) := writeStores cfg st.world a.deps st.stores
    match r with
    | some (w', cs, sp) =>
      { world := w', stores := stores',
        accs := setAcc st.accs id { a with changesets := a.changesets ++ [cs], depStore := some sp } }
    | none => { st with stores := stores', accs := setAcc st.accs id { a with depStore := none } }

/-- `codemod.apply(context)`: run the file jobs, then `process_results` absorbs the file contexts in
submission order -/
def applyFiles (cfg : Cfg) (ctx : Ctx) (K : Codemod) (st : St) (files : List (Path × Option (List Finding))) : St :=
  let rs := fileResults ctx K st.world files
  { st with world := applyWrites cfg st.world rs,
            accs := setAcc st.accs K.id (rs.foldl (fun a (_, r) => absorbAcc a r) (getAcc st.accs K.id)) }

/-- one possible execution: the jobs run one after the other in the order `order`, each on the world
left by the previous ones (a sequential schedule of the worker pool) -/
def execSeq (cfg : Cfg) (ctx : Ctx) (K : Codemod) : World → List (Path × Option (List Finding)) → World × List (Path × FileRes)
  | w, [] => (w, [])
  | w, (p, fs) :: t =>
    let r := processFile ctx K p (w.get p) fs
    let (w', rs) := execSeq cfg ctx K (writeOf cfg w p r) t
    (w', (p, r) :: rs)

def applyOne (cfg : Cfg) (ctx : Ctx) (st : St) (K : Codemod) : St :=
  let st1 := match plan ctx K st.world with
    | none => st
    | some files => applyFiles cfg ctx K st files
  processDeps cfg K.id st1

/-- `apply_codemods`: "no files to scan" / "no codemods to run" return early -/
def applyCodemods (cfg : Cfg) (ctx : Ctx) (ks : List Codemod) (st : St) : St :=
  if ctx.allFiles.isEmpty then st else ks.foldl (applyOne cfg ctx) st

structure Result where
  codemod : String
  changeset : List ChangeSet
  failedFiles : List Path
  unfixed : List Unfixed
  depStore : Option Path
  hasDeps : Bool
  deriving Repr

/-- `compile_results` -/
def compileResults (ks : List Codemod) (st : St) : List Result :=
  ks.map fun K =>
    let a := getAcc st.accs K.id
    { codemod := K.id, changeset := a.changesets, failedFiles := a.failures, unfixed := a.unfixed,
      depStore := a.depStore, hasDeps := !a.deps.isEmpty }

/-- `find_semgrep_results`: one scan with the rules of all semgrep-detected codemods over the
find-and-fix paths of the initial world -/
def prefilterOf (ffPaths : List Path) (ks : List Codemod) (w : World) : List (String × List Path) :=
  (ks.filter (fun K => K.det == .semgrep)).filterMap fun K =>
    let fs := ffPaths.filter fun p => match w.get p with
      | some c => !(K.detect p c).isEmpty
      | none => false
    if fs.isEmpty then none else some (K.name, fs)

def run (cfg : Cfg) (ctx : Ctx) (ks : List Codemod) (stores : List Store) (w : World) : St × List Result :=
  let st := applyCodemods cfg ctx ks { world := w, accs := [], stores := stores }
  (st, compileResults ks st)

end CM.Pipeline
