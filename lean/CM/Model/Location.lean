/-
Model of the position predicates that decide whether a node is acted on:
`codemodder.result.same_line`, `fuzzy_column_match`, `Result.match_location`,
`SonarResult.match_location` (tuple widening), `DefectDojoResult.match_location`,
`codemodder.codemods.base_visitor.match_line`, `UtilsMixin.filter_by_path_includes_or_excludes`
(and its copy in `core_codemods/remove_unused_imports.py`), `filter_by_result`, `node_is_selected`,
`FileContext.get_findings_for_location`.
Positions follow libcst: 1-based lines, 0-based columns, end exclusive.
-/
namespace CM.Location

/-- a libcst `CodeRange` -/
structure Pos where
  sl : Int
  sc : Int
  el : Int
  ec : Int
  deriving DecidableEq, Repr

/-- a result `Location` (start/end `LineInfo`) -/
structure Loc where
  sl : Int
  sc : Int
  el : Int
  ec : Int
  deriving DecidableEq, Repr

def sameLine (p : Pos) (l : Loc) : Bool := p.sl == l.sl && p.el == l.el

def fuzzyColumnMatch (p : Pos) (l : Loc) : Bool :=
  (p.sc ≤ l.sc && l.sc ≤ p.ec + 1) && (p.sc ≤ l.ec && l.ec ≤ p.ec + 1)

/-- `Result.match_location` for one location -/
def matchLoc1 (p : Pos) (l : Loc) : Bool :=
  sameLine p l && (p.sc == l.sc - 1 || p.sc == l.sc) && (p.ec == l.ec - 1 || p.ec == l.ec)

/-- `Result.match_location` -/
def matchLoc (p : Pos) (locs : List Loc) : Bool := locs.any (matchLoc1 p)

/-- `SonarResult.match_location`: tuples are widened by one column on both sides -/
def sonarMatchLoc (isTuple : Bool) (p : Pos) (locs : List Loc) : Bool :=
  if isTuple then matchLoc { p with sc := p.sc - 1, ec := p.ec + 1 } locs else matchLoc p locs

def ddMatch1 (p : Pos) (l : Loc) : Bool := p.sl ≤ l.sl && l.sl ≤ p.el

/-- `DefectDojoResult.match_location`: the finding's line is inside the node's line range -/
def ddMatchLoc (p : Pos) (locs : List Loc) : Bool := locs.any (ddMatch1 p)

/-- `match_line(pos, line)` -/
def matchLine (p : Pos) (line : Int) : Bool := p.sl == line && p.el == line

/-- `filter_by_path_includes_or_excludes`: "excludes takes precedence if defined" — as soon as the file
has any line exclude, the line includes are not consulted. -/
def lineFilter (excl incl : List Int) (p : Pos) : Bool :=
  if !excl.isEmpty then !excl.any (matchLine p)
  else if !incl.isEmpty then incl.any (matchLine p)
  else true

inductive Variant where | generic | sonar | defectdojo
  deriving DecidableEq, Repr

def matchVariant (v : Variant) (isTuple : Bool) (p : Pos) (locs : List Loc) : Bool :=
  match v with
  | .generic => matchLoc p locs
  | .sonar => sonarMatchLoc isTuple p locs
  | .defectdojo => ddMatchLoc p locs

/-- `filter_by_result`: `results is None or any(results_for_node(node))` -/
def filterByResult (v : Variant) (isTuple : Bool) (results : Option (List (List Loc))) (p : Pos) : Bool :=
  match results with
  | none => true
  | some rs => rs.any (matchVariant v isTuple p)

/-- `node_is_selected` -/
def nodeIsSelected (v : Variant) (isTuple : Bool) (results : Option (List (List Loc)))
    (excl incl : List Int) (p : Pos) : Bool :=
  filterByResult v isTuple results p && lineFilter excl incl p

def covers1 (line : Int) (l : Loc) : Bool := l.sl ≤ line && line ≤ l.el

/-- `any(location.start.line <= line_number <= location.end.line for location in result.locations)` -/
def coversLine (locs : List Loc) (line : Int) : Bool := locs.any (covers1 line)

/-- `FileContext.get_findings_for_location(line)`: the findings (by index, `none` = result without
a finding object) of the results that have a location whose line range covers `line` -/
def findingsForLine {φ} (results : List (List Loc × Option φ)) (line : Int) : List φ :=
  results.filterMap fun (locs, f) => if coversLine locs line then f else none

end CM.Location
