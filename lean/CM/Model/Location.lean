/- placeholder, filled in below -/
namespace CM.Location
end CM.Location
