/-
Model of what `RemoveUnusedVariables` (codemodder/utils/clean_code.py, the clean-up pass of
sql-parameterization) and `UseWalrusIf._single_access` need from scope analysis: which reads refer to
an assignment of a function-level name. A function body is a list of statements: an assignment of a
name, a read of a name, or a nested scope (inner function, lambda, comprehension) with its own body.
Python's rule (order inside a scope does not matter): a read of `n` refers to the innermost enclosing
scope that assigns `n`.
-/
namespace CM.Scope

mutual
inductive Stmt where
  | assign (n : String) (eff : Bool)   -- `eff`: the right-hand side may have an effect (a call, `await`, `yield`, `:=`)
  | read (n : String)
  | scope (body : Body)
inductive Body where
  | nil
  | cons (s : Stmt) (t : Body)
end

/-- names assigned at this level -/
def Body.assigns : Body → List String
  | .nil => []
  | .cons (.assign n _) t => n :: t.assigns
  | .cons _ t => t.assigns

/-- reads of `n` at this level only (libcst: `scope.accesses[n]`) -/
def Body.ownReads (n : String) : Body → Nat
  | .nil => 0
  | .cons (.read m) t => (if m = n then 1 else 0) + t.ownReads n
  | .cons _ t => t.ownReads n

mutual
/-- reads that refer to this level's assignment of `n`: this level's reads and those of every nested
scope that does not assign `n` itself (libcst: `assignment.references`) -/
def Body.refs (n : String) : Body → Nat
  | .nil => 0
  | .cons s t => s.refs n + t.refs n
def Stmt.refs (n : String) : Stmt → Nat
  | .assign _ _ => 0
  | .read m => if m = n then 1 else 0
  | .scope b => if n ∈ b.assigns then 0 else b.refs n
end

mutual
/-- names read but bound neither at this level nor in an enclosing one (`bound`) -/
def Body.unresolvedGo (bound : List String) : Body → List String
  | .nil => []
  | .cons s t => s.unresolvedGo bound ++ t.unresolvedGo bound
def Stmt.unresolvedGo (bound : List String) : Stmt → List String
  | .assign _ _ => []
  | .read m => if m ∈ bound then [] else [m]
  | .scope b => b.unresolvedGo (b.assigns ++ bound)
end

/-- unresolved names of a function body inside scopes that bind `outer` -/
def Body.unresolved (outer : List String) (b : Body) : List String := b.unresolvedGo (b.assigns ++ outer)

/-- reads of `n` at this level that come before the *last* assignment of `n` at this level -/
def Body.readsBeforeLast (n : String) : Body → Nat
  | .nil => 0
  | .cons (.read m) t => if n ∈ t.assigns then (if m = n then 1 else 0) + t.readsBeforeLast n else 0
  | .cons _ t => if n ∈ t.assigns then t.readsBeforeLast n else 0

mutual
/-- libcst's attribution (`Assignment.references` of the assignments of `n` at this level, restricted
to reads in enclosed scopes): a read in an enclosed scope that does not assign `n` counts; so does a
read in an enclosed scope that *does* assign `n` when it comes before the (last) assignment there —
libcst hands such "earlier" accesses to the binding of the parent. (Order-sensitive where Python is
not: it keeps more assignments alive, never fewer.) -/
def Body.nestedL (n : String) : Body → Nat
  | .nil => 0
  | .cons s t => s.nestedL n + t.nestedL n
def Stmt.nestedL (n : String) : Stmt → Nat
  | .assign _ _ => 0
  | .read _ => 0
  | .scope b => if n ∈ b.assigns then b.readsBeforeLast n else b.ownReads n + b.nestedL n
end

/-- how the pass decides that an assignment is unused -/
inductive Mode where
  | python   -- no read refers to it under Python's scoping rule
  | libcst   -- the code now: `find_accesses(node) or any(assignment.references ...)`
  | ownOnly  -- the code before the fix: `find_accesses(node)` (reads at the same level only)
  deriving DecidableEq, Repr

def Body.alive (m : Mode) (b : Body) (n : String) : Nat :=
  match m with
  | .python => b.refs n
  | .libcst => b.ownReads n + b.nestedL n
  | .ownOnly => b.ownReads n

/-- the names whose assignments the pass removes in this body -/
def Body.dead (m : Mode) (b : Body) : List String := b.assigns.filter fun n => b.alive m n == 0

mutual
/-- the pass: in every function-level body the assignments of its dead names are removed; with `guard`
(the code now) an assignment whose right-hand side may have an effect stays -/
def Body.cleanGo (m : Mode) (guard : Bool) (dead : List String) : Body → Body
  | .nil => .nil
  | .cons s t =>
    match s with
    | .assign n e => if n ∈ dead ∧ ¬(guard = true ∧ e = true) then t.cleanGo m guard dead else .cons (.assign n e) (t.cleanGo m guard dead)
    | _ => .cons (s.cleanS m guard) (t.cleanGo m guard dead)
def Stmt.cleanS (m : Mode) (guard : Bool) : Stmt → Stmt
  | .assign n e => .assign n e
  | .read x => .read x
  | .scope b => .scope (b.cleanGo m guard (b.dead m))
end

def Body.clean (m : Mode) (b : Body) (guard : Bool := true) : Body := b.cleanGo m guard (b.dead m)

mutual
/-- the right-hand sides that may have an effect, in source order (nested scopes included) -/
def Body.effects : Body → List String
  | .nil => []
  | .cons s t => s.effects ++ t.effects
def Stmt.effects : Stmt → List String
  | .assign n e => if e then [n] else []
  | .read _ => []
  | .scope b => b.effects
end

end CM.Scope
