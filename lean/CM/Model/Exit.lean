/-
Model of the exit-status logic of `codemodder.codemodder.run` and `codemodder.cli.parse_args`
(anchors: src/codemodder/codemodder.py `run`, src/codemodder/cli.py `ArgumentParser.error`,
`build_list_action`, `build_describe_action`, src/codemodder/codetf.py `write_report`,
src/codemodder/sarifs.py `detect_sarif_tools`, src/codemodder/llm.py).

Import-free: used by the Driver.
-/
namespace CM.Exit

/-- Abstract classes of command-line tokens, as `argparse` treats them while it scans argv
left to right. `positional` is a bare word (the directory operand). -/
inductive Tok where
  | help | version | list | describe          -- actions that print and `parser.exit()` (status 0)
  | unknownOpt                                -- `--no-such-flag`  (collected, reported at the end)
  | missingOperand                            -- `--output` at the end of argv: error on the spot
  | badChoice                                 -- `--output-format xml`, `--log-format x`
  | badInt                                    -- `--max-workers two`
  | incl | excl                               -- `--codemod-include v` / `--codemod-exclude v`
  | okOpt                                     -- any other well-formed option (with its operand)
  | positional
  deriving DecidableEq, Repr

/-- Outcome of argument parsing. -/
inductive Parse where
  | exit (status : Nat)
  | parsed
  deriving DecidableEq, Repr

structure PState where
  dirs     : Nat  := 0
  extras   : Bool := false
  seenIncl : Bool := false
  seenExcl : Bool := false
  deriving DecidableEq, Repr

/-- `ArgumentParser._parse_known_args` + `parse_args`, by outcome class. -/
def parseFrom : PState → List Tok → Parse
  | s, [] =>
      if s.dirs = 0 then .exit 3          -- "the following arguments are required: directory"
      else if s.extras then .exit 3        -- "unrecognized arguments"
      else .parsed
  | s, t :: ts =>
    match t with
    | .help | .version | .list | .describe => .exit 0
    | .missingOperand | .badChoice | .badInt => .exit 3
    | .unknownOpt => parseFrom { s with extras := true } ts
    | .incl => if s.seenExcl then .exit 3 else parseFrom { s with seenIncl := true } ts
    | .excl => if s.seenIncl then .exit 3 else parseFrom { s with seenExcl := true } ts
    | .okOpt => parseFrom s ts
    | .positional =>
        if s.dirs = 0 then parseFrom { s with dirs := 1 } ts
        else parseFrom { s with extras := true } ts

def parse (ts : List Tok) : Parse := parseFrom {} ts

inductive Sarif where
  | ok | missing | duplicateTool
  deriving DecidableEq, Repr

inductive Output where
  | none | writable | unwritable
  deriving DecidableEq, Repr

/-- The conditions `run` looks at after the arguments parsed, in the order it looks. -/
structure Conds where
  dirExists   : Bool
  sarif       : Sarif
  resultFileMissing : Bool     -- some sonar / defectdojo (or detected sarif) file does not exist
  aiMisconfigured   : Bool     -- exactly one of key / endpoint set for an AI client
  output      : Output
  deriving DecidableEq, Repr

/-- `codemodder.run` after `parse_args` returned: early returns in source order, then the
status of `write_report`. -/
def runStatus (c : Conds) : Nat :=
  if !c.dirExists then 1
  else if c.sarif ≠ .ok then 1
  else if c.resultFileMissing then 1
  else if c.aiMisconfigured then 3
  else match c.output with
    | .unwritable => 2
    | _ => 0

/-- Is a report file written? Only when every early return is passed and the output path is
writable. -/
def reportWritten (c : Conds) : Bool :=
  c.dirExists && c.sarif = .ok && !c.resultFileMissing && !c.aiMisconfigured
    && c.output = .writable

def status (ts : List Tok) (c : Conds) : Nat :=
  match parse ts with
  | .exit n => n
  | .parsed => runStatus c

def written (ts : List Tok) (c : Conds) : Bool :=
  match parse ts with
  | .exit _ => false
  | .parsed => reportWritten c

end CM.Exit
