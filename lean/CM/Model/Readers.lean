import CM.Model.ResultSet
/-
Model of the result-file readers: `SonarResultSet.from_json` / `SonarResult.from_result`
(src/core_codemods/sonar/results.py), `SemgrepResultSet.from_sarif`, `CodeQLResultSet.from_sarif`,
`SarifResult.extract_rule_id` (src/codemodder/semgrep.py, codeql.py, result.py),
`DefectDojoResultSet.from_json` (src/core_codemods/defectdojo/results.py) and
`detect_sarif_tools` (src/codemodder/sarifs.py), over the JSON shapes the readers access.
-/
namespace CM.Readers
open CM.RS

structure Loc where
  file : String
  sl : Int
  sc : Int
  el : Int
  ec : Int
  deriving DecidableEq, Repr

/-- what reaches a codemod for one finding -/
structure Payload where
  ruleId : String
  findingId : String
  locs : List Loc
  deriving DecidableEq, Repr

/-- `result_set.add_result(x)` for a list of findings, in order -/
def readAll (xs : List Payload) : RSet Payload :=
  xs.foldl (fun acc x => addResult acc x.ruleId (x.locs.map (·.file)) x) []

/-! ### Sonar -/
structure TextRange where
  sl : Int
  so : Int
  el : Int
  eo : Int
  deriving DecidableEq, Repr

structure SonarEntry where
  rule : Option String          -- issues: "rule"
  ruleKey : Option String       -- hotspots: "ruleKey"
  status : Option String
  textRange : Option TextRange
  component : Option String
  key : Option String
  deriving DecidableEq, Repr

structure SonarDoc where
  issues : List SonarEntry
  hotspots : List SonarEntry
  deriving Repr

def lowerAscii (s : String) : String := String.ofList (s.toList.map Char.toLower)

def isOpen (status : String) : Bool :=
  let s := lowerAscii status
  s == "open" || s == "to_review"

/-- `x.split(sep)[-1]` -/
def lastSegment (s : String) (sep : Char) : String :=
  String.ofList ((s.toList.splitOn sep).getLastD [])

/-- truthiness of an optional JSON string -/
def truthy : Option String → Option String
  | some s => if s.isEmpty then none else some s
  | none => none

inductive Err where | raised deriving DecidableEq, Repr

/-- one entry of the document: `.error` = the reader raises (the whole file is then dropped by the
`except Exception` around `from_json`), `.ok none` = filtered out by status. -/
def sonarEntry (e : SonarEntry) : Except Err (Option Payload) :=
  match e.status with
  | none => .error .raised                      -- result["status"] → KeyError
  | some st =>
    if !isOpen st then .ok none else
    match (truthy e.rule).orElse (fun _ => truthy e.ruleKey) with
    | none => .error .raised                    -- ValueError
    | some rule =>
      if (rule.toList.splitOn ':').length < 2 then .error .raised  -- sonar_url_from_id IndexError
      else
        match e.textRange with
        | none => .ok (some { ruleId := rule, findingId := e.key.getD rule, locs := [] })
        | some tr =>
          match e.component with
          | none => .error .raised              -- None.split
          | some c =>
            .ok (some { ruleId := rule, findingId := e.key.getD rule,
                        locs := [{ file := lastSegment c ':', sl := tr.sl, sc := tr.so, el := tr.el, ec := tr.eo }] })

def sonarPayloads (doc : SonarDoc) : List Payload :=
  match (doc.issues ++ doc.hotspots).mapM sonarEntry with
  | .error _ => []
  | .ok xs => xs.filterMap id

def sonarRead (doc : SonarDoc) : RSet Payload := readAll (sonarPayloads doc)

/-! ### SARIF (Semgrep, CodeQL) -/
structure SResult where
  ruleId : Option String
  toolIndex : Option Nat        -- result["rule"]["toolComponent"]["index"]
  ruleIndex : Option Nat        -- result["rule"]["index"]
  locs : List Loc
  deriving Repr

structure SRun where
  toolName : Option String
  extRules : List (List String)   -- run["tool"]["extensions"][i]["rules"][j]["id"]
  results : List SResult
  deriving Repr

def extractRuleId (run : SRun) (r : SResult) (truncate : Bool) : Except Err String :=
  match truthy r.ruleId with
  | some id => .ok (if truncate then lastSegment id '.' else id)
  | none =>
    match r.toolIndex, r.ruleIndex with
    | some ti, some ri =>
      match run.extRules[ti]? with
      | some rules => match rules[ri]? with
        | some id => .ok id
        | none => .error .raised
      | none => .error .raised
    | _, _ => .error .raised

def sarifResult (run : SRun) (truncate : Bool) (r : SResult) : Except Err Payload := do
  let id ← extractRuleId run r truncate
  pure { ruleId := id, findingId := id, locs := r.locs }

def isInfixOf (p s : List Char) : Bool :=
  match s with
  | [] => p.isEmpty
  | _ :: t => p.isPrefixOf s || isInfixOf p t

def detectSemgrep (tool : Option String) : Bool :=
  match tool with
  | some n => isInfixOf "semgrep".toList (lowerAscii n).toList
  | none => false

def detectCodeQL (tool : Option String) : Bool :=
  match tool with
  | some n => isInfixOf "CodeQL".toList n.toList
  | none => false

/-- `SemgrepResultSet.from_sarif`: every result of every run -/
def semgrepPayloads (runs : List SRun) (truncate : Bool) : Except Err (List Payload) :=
  (runs.flatMap fun run => run.results.map (sarifResult run truncate)).mapM id

/-- `CodeQLResultSet.from_sarif`: only the runs whose driver is CodeQL -/
def codeqlPayloads (runs : List SRun) (truncate : Bool) : Except Err (List Payload) :=
  ((runs.filter (fun r => detectCodeQL r.toolName)).flatMap fun run =>
      run.results.map (sarifResult run truncate)).mapM id

/-! ### DefectDojo -/
structure DDEntry where
  id : Int
  title : String
  filePath : String
  line : Int
  deriving Repr

def ddPayloads (results : List DDEntry) : List Payload :=
  results.map fun e =>
    { ruleId := e.title, findingId := toString e.id,
      locs := [{ file := e.filePath, sl := e.line, sc := -1, el := e.line, ec := -1 }] }

/-! ### detect_sarif_tools -/
inductive DetErr where | duplicateTool (name : String) deriving DecidableEq, Repr

def detectors : List (String × (Option String → Bool)) :=
  [("semgrep", detectSemgrep), ("codeql", detectCodeQL)]

def detectStep (fname : String) (acc : AL (List String)) (name : String) (hit : Bool) :
    Except DetErr (AL (List String)) :=
  if hit then
    if (keys acc).contains name then .error (.duplicateTool name)
    else .ok (set acc name (getD acc name [] ++ [fname]))
  else .ok acc

/-- the three nested loops of `detect_sarif_tools` (files, detectors, runs) -/
def detectTools (files : List (String × List (Option String))) : Except DetErr (AL (List String)) :=
  files.foldlM (fun acc (fname, runs) =>
    detectors.foldlM (fun acc (name, det) =>
      runs.foldlM (fun acc run => detectStep fname acc name (det run)) acc) acc) []

end CM.Readers
