import CM.Model.Glob
/-
Model of `codemodder.code_directory`: `filter_files`, `match_files`, `file_line_patterns`, and of
the path selection in `codemodder.context` (`find_and_fix_paths`, `filter_paths`) and
`base_codemod` (`get_files_to_analyze` extension filter).
Paths are strings relative to the target directory.
-/
namespace CM.Select
open CM.Glob

/-- `x.split(":")` -/
def splitColon (s : String) : List String := (s.toList.splitOn ':').map String.ofList

def hasColon (s : String) : Bool := s.toList.contains ':'

/-- `x.split(":")[0]` -/
def stripLine (s : String) : String := (splitColon s).headD ""

/-- patterns effectively used by `filter_files` -/
def effPatterns (patterns : List String) (exclude : Bool) : List String :=
  if exclude then patterns.filter (fun x => !hasColon x) else patterns.map stripLine

/-- `filter_files`: the chain of `fnmatch.filter(names, pattern)` (with repetitions) -/
def filterFiles (names : List String) (patterns : List String) (exclude : Bool) : List String :=
  (effPatterns patterns exclude).flatMap fun p => names.filter (fun n => fnm p n)

def dedup : List String → List String
  | [] => []
  | a :: t => a :: (dedup t).filter (· != a)

/-- `match_files` on relative paths. `none` = the `None` sentinel (defaults apply). `le` is the
string order used by `sorted`. -/
def matchFiles (le : String → String → Bool) (dfltIncl dfltExcl : List String)
    (paths : List String) (excl incl : Option (List String)) : List String :=
  let included := filterFiles paths (incl.getD dfltIncl) false
  let excluded := filterFiles paths (excl.getD dfltExcl) true
  (dedup (included.filter (fun p => !excluded.contains p))).mergeSort le

/-- `int(s)` for the decimal spellings the harness generates (optional sign, surrounding blanks) -/
def pyInt (s : String) : Option Int := s.trimAscii.toString.toInt?

/-- `self.path_exclude or None` -/
def orNone (l : List String) : Option (List String) := if l.isEmpty then none else some l

/-- `context.find_and_fix_paths` -/
def findAndFixPaths (le : String → String → Bool) (dfltIncl dfltExcl : List String)
    (files pathIncl pathExcl : List String) : List String :=
  matchFiles le dfltIncl dfltExcl files (orNone pathExcl) (orNone pathIncl)

/-- `context.filter_paths` (SAST codemods): user excludes only, includes = user's or the registry's -/
def filterPaths (le : String → String → Bool) (dfltIncl dfltExcl : List String) (registryIncl : List String)
    (paths pathIncl pathExcl : List String) : List String :=
  matchFiles le dfltIncl dfltExcl paths (some pathExcl)
    (some (if pathIncl.isEmpty then registryIncl else pathIncl))

def matchesAny (g absPath : String) (relPath : Option String) : Bool :=
  fnm g absPath || (match relPath with | some r => fnm g r | none => false)

/-- `file_line_patterns(file_path, patterns, base_dir)`: the line numbers of the `glob:line` patterns
whose glob matches the absolute path or (when the file is under `base_dir`) the path relative to it.
A non-numeric line part makes `int()` raise: `none`. -/
def fileLinePatterns (absPath : String) (relPath : Option String) (patterns : List String) : Option (List Int) :=
  (patterns.filterMap fun pat =>
    match splitColon pat with
    | [g, n] => if matchesAny g absPath relPath then some (pyInt n) else none
    | _ => none).mapM id

end CM.Select
