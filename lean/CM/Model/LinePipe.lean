/-
Model of `codemodder.codemods.regex_transformer`: `RegexTransformerPipeline._apply / apply` and
`SastRegexTransformerPipeline._apply`, with the regular-expression substitution abstracted as a
function `sub : Line → Line` (`re.sub(pattern, replacement, line)`).
-/
namespace CM.LinePipe

abbrev Line := String

structure Res where
  id : Option String            -- the result's finding id (`none`: result without finding object)
  locs : List (Nat × Nat)       -- (start line, end line) of each location
  deriving DecidableEq, Repr

/-- `FileContext.get_findings_for_location(line)` -/
def findingsFor (results : List Res) (line : Nat) : List String :=
  results.filterMap fun r => if r.locs.any (fun (a, b) => a ≤ line && line ≤ b) then r.id else none

structure Change where
  line : Nat
  findings : List String
  deriving DecidableEq, Repr

/-- `RegexTransformerPipeline._apply`: every line goes through `sub`; one change per line that differs,
numbered from 1, carrying the findings of that line -/
def regexApply (sub : Line → Line) (results : List Res) (lines : List Line) : List Change × List Line :=
  let idx := lines.zipIdx 1
  (idx.filterMap fun (l, i) => if sub l ≠ l then some ⟨i, findingsFor results i⟩ else none, lines.map sub)

/-- `SastRegexTransformerPipeline._apply`: only lines on which a result starts are substituted; a
result line the pattern does not change is reported unfixed. `results = some []` returns at once
(no changes, hence no write). Returns (changes, updated lines, unfixed line numbers). -/
def sastRegexApply (sub : Line → Line) (results : Option (List Res)) (lines : List Line) :
    List Change × List Line × List Nat :=
  match results with
  | some [] => ([], [], [])
  | _ =>
    let rs := results.getD []
    let resultLines := rs.flatMap fun r => r.locs.map (·.1)
    let idx := lines.zipIdx 1
    let upd := idx.map fun (l, i) => if resultLines.contains i then sub l else l
    let chg := idx.filterMap fun (l, i) =>
      if resultLines.contains i && sub l ≠ l then some ⟨i, findingsFor rs i⟩ else none
    let unf := idx.filterMap fun (l, i) => if resultLines.contains i && sub l = l then some i else none
    (chg, upd, unf)

/-- `apply`: no changes ⇒ `None` (nothing written); otherwise the updated lines are written unless dry-run -/
def pipeApply (dry : Bool) (changes : List Change) (updated original : List Line) : Option (List Line) × Bool :=
  if changes.isEmpty then (none, false) else (some (if dry then original else updated), true)

end CM.LinePipe
