/-
Model of the diff the report carries: `codemodder.diff.create_diff` =
`difflines_to_str(list(difflib.unified_diff(a, b)))` (n = 3 context lines, empty file names),
`calc_line_num_changes`, and a strict reference patcher.

Two levels:
* script level (proved): an edit script (`Seg` list, what `SequenceMatcher.get_opcodes` describes)
  is grouped into hunks exactly as `difflib.get_grouped_opcodes(n)` does; `applyHunks` applies them.
* text level (executable, checked against difflib / patch(1) by the correspondence): rendering of
  the hunks as unified-diff lines, `difflines_to_str`, and the parser used by `patchText`.
-/
namespace CM.Diff

abbrev Line := String

/-- one opcode of the edit script: an equal run, or a replace / delete / insert -/
inductive Seg where
  | eq (ls : List Line)
  | chg (dels inss : List Line)
  deriving DecidableEq, Repr

def src : List Seg → List Line
  | [] => []
  | .eq ls :: t => ls ++ src t
  | .chg d _ :: t => d ++ src t

def dst : List Seg → List Line
  | [] => []
  | .eq ls :: t => ls ++ dst t
  | .chg _ a :: t => a ++ dst t

inductive Item where
  | ctx (l : Line) | del (l : Line) | ins (l : Line)
  deriving DecidableEq, Repr

structure Hunk where
  start : Nat                 -- 0-based index of the hunk's first source line
  items : List Item
  deriving DecidableEq, Repr

def srcI : List Item → List Line
  | [] => []
  | .ctx l :: t => l :: srcI t
  | .del l :: t => l :: srcI t
  | .ins _ :: t => srcI t

def dstI : List Item → List Line
  | [] => []
  | .ctx l :: t => l :: dstI t
  | .del _ :: t => dstI t
  | .ins l :: t => l :: dstI t

def chgItems (d a : List Line) : List Item := d.map .del ++ a.map .ins

/-- `get_grouped_opcodes(n)` on the script: `i` = current index into the source, `cur` = the open
group (start index, items so far). A leading equal run keeps its last `n` lines, a trailing one its
first `n`; an inner equal run longer than `2n` closes the group after `n` lines and opens the next
one `n` lines before its end. -/
def group (n : Nat) : Nat → Option (Nat × List Item) → List Seg → List Hunk
  | _, cur, [] => match cur with
    | some (st, its) => [⟨st, its⟩]
    | none => []
  | i, cur, .chg d a :: t =>
    match cur with
    | none => group n (i + d.length) (some (i, chgItems d a)) t
    | some (st, its) => group n (i + d.length) (some (st, its ++ chgItems d a)) t
  | i, cur, .eq ls :: t =>
    match cur, t with
    | none, [] => []
    | none, _ :: _ => group n (i + ls.length) (some (i + (ls.length - n), (ls.drop (ls.length - n)).map .ctx)) t
    | some (st, its), [] => [⟨st, its ++ (ls.take n).map .ctx⟩]
    | some (st, its), _ :: _ =>
      if 2 * n < ls.length then
        ⟨st, its ++ (ls.take n).map .ctx⟩ ::
          group n (i + ls.length) (some (i + ls.length - n, (ls.drop (ls.length - n)).map .ctx)) t
      else group n (i + ls.length) (some (st, its ++ ls.map .ctx)) t

def hunks (n : Nat) (s : List Seg) : List Hunk := group n 0 none s

/-- strict application of one hunk body: context and deleted lines must match the source -/
def applyItems : List Item → List Line → Option (List Line × List Line)
  | [], s => some ([], s)
  | .ins l :: t, s => (applyItems t s).map fun (o, r) => (l :: o, r)
  | .ctx _ :: _, [] => none
  | .del _ :: _, [] => none
  | .ctx l :: t, x :: s => if l = x then (applyItems t s).map fun (o, r) => (l :: o, r) else none
  | .del l :: t, x :: s => if l = x then applyItems t s else none

/-- apply hunks in order; `pos` = index in the original source of the head of `s` -/
def applyHunks : List Hunk → Nat → List Line → Option (List Line)
  | [], _, s => some s
  | h :: hs, pos, s =>
    if h.start < pos then none
    else if s.length < h.start - pos then none
    else
      match applyItems h.items (s.drop (h.start - pos)) with
      | none => none
      | some (out, rest) =>
        (applyHunks hs (h.start + (srcI h.items).length) rest).map fun r => s.take (h.start - pos) ++ out ++ r

/-! ### text level -/

def prefixed (c : Char) (l : Line) : Line := String.singleton c ++ l

def dropS (s : String) (n : Nat) : String := String.ofList (s.toList.drop n)

/-- `_format_range_unified(start, stop)` -/
def formatRange (start stop : Nat) : String :=
  let len := stop - start
  let beginning := if len = 0 then start else start + 1
  if len = 1 then toString beginning else toString beginning ++ "," ++ toString len

def hunkLines (h : Hunk) (dstStart : Nat) : List Line :=
  let a := srcI h.items
  let b := dstI h.items
  ("@@ -" ++ formatRange h.start (h.start + a.length) ++ " +" ++ formatRange dstStart (dstStart + b.length) ++ " @@\n") ::
    h.items.map fun
      | .ctx l => prefixed ' ' l
      | .del l => prefixed '-' l
      | .ins l => prefixed '+' l

/-- the hunks with the start index of each in the destination -/
def withDstStarts : List Hunk → Int → List (Hunk × Nat)
  | [], _ => []
  | h :: t, delta =>
    (h, (Int.toNat (h.start + delta))) :: withDstStarts t (delta + (dstI h.items).length - (srcI h.items).length)

/-- `list(difflib.unified_diff(a, b))` given the edit script -/
def unifiedLines (s : List Seg) : List Line :=
  match hunks 3 s with
  | [] => []
  | hs => "--- \n" :: "+++ \n" :: (withDstStarts hs 0).flatMap fun (h, d) => hunkLines h d

/-- `difflines_to_str` -/
def difflinesToStr (ls : List Line) : String :=
  match ls.reverse with
  | [] => ""
  | last :: revInit => String.join (revInit.reverse.map fun l => if l.endsWith "\n" then l else l ++ "\n") ++ last

/-- `calc_line_num_changes` (the set is returned sorted) -/
def calcLineNumChanges (ls : List Line) : List Nat :=
  let rec go : List Line → Nat → Nat → List Nat → List Nat
    | [], _, _, acc => acc
    | l :: t, cur, orig, acc =>
      if l.startsWith "@@" then
        let parts := (l.splitOn " ")
        let a := ((dropS (parts.getD 1 "") 1).splitOn ",").headD "" |>.toNat!
        let b := ((dropS (parts.getD 2 "") 1).splitOn ",").headD "" |>.toNat!
        go t (b - 1) (a - 1) acc
      else if l.startsWith "+" then
        go t (cur + 1) orig (if l.startsWith "+++" then acc else acc ++ [cur + 1])
      else if l.startsWith "-" then
        go t cur (orig + 1) (if l.startsWith "---" then acc else acc ++ [orig + 1])
      else go t (cur + 1) (orig + 1) acc
  ((go ls 0 0 []).eraseDups).mergeSort (· ≤ ·)

/-- parse a `-a,b` / `+a,b` range: (0-based start, length) -/
def parseRange (s : String) : Option (Nat × Nat) :=
  match (dropS s 1).splitOn "," with
  | [a] => a.toNat?.map fun x => (x - 1, 1)
  | [a, b] => do
    let x ← a.toNat?
    let y ← b.toNat?
    pure (if y = 0 then x else x - 1, y)
  | _ => none

/-- parse the diff text back into hunks (lines keep their terminators; a body line lost its final
newline only if it is the last line of the diff text) -/
def parseDiff (text : String) : Option (List Hunk) :=
  let raw := (text.splitOn "\n")
  let ls := match raw.reverse with
    | [] => []
    | last :: revInit => revInit.reverse.map (· ++ "\n") ++ (if last.isEmpty then [] else [last])
  let rec go : List Line → Option Hunk → List Hunk → Option (List Hunk)
    | [], cur, acc => some (acc ++ cur.toList)
    | l :: t, cur, acc =>
      if l.startsWith "--- " || l.startsWith "+++ " then (if cur.isNone && acc.isEmpty then go t cur acc else
        -- a deleted / inserted line whose text starts with "-- " / "++ "
        match cur with
        | some h => go t (some { h with items := h.items ++ [if l.startsWith "-" then .del (dropS l 1) else .ins (dropS l 1)] }) acc
        | none => none)
      else if l.startsWith "@@" then
        match l.splitOn " " with
        | _ :: a :: _ =>
          match parseRange a with
          | some (st, _) => go t (some ⟨st, []⟩) (acc ++ cur.toList)
          | none => none
        | _ => none
      else
        match cur with
        | none => none
        | some h =>
          let it := if l.startsWith "+" then Item.ins (dropS l 1) else if l.startsWith "-" then .del (dropS l 1) else .ctx (dropS l 1)
          go t (some { h with items := h.items ++ [it] }) acc
  go ls none []

def chomp (l : Line) : Line := if l.endsWith "\n" then String.ofList (l.toList.dropLast) else l

def chompItem : Item → Item
  | .ctx l => .ctx (chomp l)
  | .del l => .del (chomp l)
  | .ins l => .ins (chomp l)

/-- apply a diff text to source lines. `difflines_to_str` completes every diff line but the last
with a newline, so whether the last line of a file had one is not recoverable from the text: lines
are compared and returned without their terminator ("up to the presence of a final newline"). -/
def patchText (text : String) (a : List Line) : Option (List Line) :=
  if text.isEmpty then some (a.map chomp)
  else (parseDiff text).bind fun hs =>
    applyHunks (hs.map fun h => { h with items := h.items.map chompItem }) 0 (a.map chomp)

end CM.Diff
