/-
Model of `ThreadPoolExecutor(max_workers=cap).map(job, files)` as used by `BaseCodemod._apply`:
jobs are submitted in order; a job is started only while fewer than `cap` jobs are running; a running
job may finish at any time; `map` yields results in submission order once all have finished.
-/
namespace CM.Sched

structure S where
  pending : List Nat
  running : List Nat
  done : List Nat
  deriving DecidableEq, Repr

def init (n : Nat) : S := { pending := List.range n, running := [], done := [] }

inductive Ev where
  | start            -- the pool starts the next pending job
  | finish (j : Nat) -- running job j completes
  deriving DecidableEq, Repr

/-- one step; `none` when the event is not enabled -/
def step (cap : Nat) (s : S) : Ev → Option S
  | .start =>
    match s.pending with
    | [] => none
    | j :: t => if s.running.length < cap then some { s with pending := t, running := j :: s.running } else none
  | .finish j =>
    if s.running.contains j then some { s with running := s.running.erase j, done := j :: s.done } else none

def exec (cap : Nat) : S → List Ev → Option S
  | s, [] => some s
  | s, e :: es => match step cap s e with
    | some s' => exec cap s' es
    | none => none

/-- the largest number of simultaneously running jobs along a trace -/
def maxInflight (cap : Nat) : S → List Ev → Nat
  | s, [] => s.running.length
  | s, e :: es => match step cap s e with
    | some s' => max s.running.length (maxInflight cap s' es)
    | none => s.running.length

end CM.Sched
