/-
Model of `codemodder.result.ResultSet` (a `dict[str, dict[Path, list[Result]]]`):
`add_result`, `results_for_rule_and_file` (the `.get(rule, {}).get(file, [])` lookups),
`files_for_rule`, `all_rule_ids`, `__or__` + `list_dict_or`, `__ior__`.
Python dicts are association lists in insertion order.
-/
namespace CM.RS

abbrev AL (α : Type) := List (String × α)

def keys {α} (l : AL α) : List String := l.map (·.1)

/-- `d.get(k, default)` -/
def getD {α} (l : AL α) (k : String) (d : α) : α := (l.lookup k).getD d

/-- `d[k] = v` : replace in place when the key exists, else append. -/
def set {α} : AL α → String → α → AL α
  | [], k, v => [(k, v)]
  | (k', v') :: t, k, v => if k' == k then (k', v) :: t else (k', v') :: set t k v

/-- A result set over payloads `ρ` (the `Result` objects, compared by identity in the harness). -/
abbrev RSet (ρ : Type) := AL (AL (List ρ))

/-- `self.get(rule, {}).get(file, [])` -/
def get {ρ} (rs : RSet ρ) (rule file : String) : List ρ := getD (getD rs rule []) file []

/-- one step of `add_result`: `self.setdefault(rule, {}).setdefault(file, []).append(r)` -/
def addAt {ρ} (rs : RSet ρ) (rule file : String) (r : ρ) : RSet ρ :=
  set rs rule (set (getD rs rule []) file (getD (getD rs rule []) file [] ++ [r]))

/-- `add_result`: one entry per location (file) of the result. -/
def addResult {ρ} (rs : RSet ρ) (rule : String) (files : List String) (r : ρ) : RSet ρ :=
  files.foldl (fun acc f => addAt acc rule f r) rs

def filesForRule {ρ} (rs : RSet ρ) (rule : String) : List String := keys (getD rs rule [])
def allRuleIds {ρ} (rs : RSet ρ) : List String := keys rs

/-- key order of `a | b` for dicts: `a`'s keys, then the keys only `b` has. -/
def keysUnion (a b : List String) : List String := a ++ b.filter (fun k => !a.contains k)

/-- `list_dict_or(dictionary, other)`: `other | dictionary` fixes the key order, every value is
`dictionary.get(k, []) + other.get(k, [])`. -/
def listDictOr {ρ} (d o : AL (List ρ)) : AL (List ρ) :=
  (keysUnion (keys o) (keys d)).map fun k => (k, getD d k [] ++ getD o k [])

/-- `ResultSet.__or__` -/
def merge {ρ} (a b : RSet ρ) : RSet ρ :=
  (keysUnion (keys a) (keys b)).map fun k => (k, listDictOr (getD a k []) (getD b k []))

/-- `ResultSet.__ior__`: `merged = self | other; self.clear(); self.update(merged)` -/
def imerge {ρ} (a b : RSet ρ) : RSet ρ := ([] : RSet ρ) ++ merge a b

/-- the accumulation loops `for f in files: acc |= read(f)` -/
def fold {ρ} (sets : List (RSet ρ)) : RSet ρ := sets.foldl imerge []

end CM.RS
