/-
Model of `codemodder.codemods.xml_transformer`: the SAX + lexical event stream the transformer
receives, the event-stream maps of `ElementAttributeXMLTransformer` / `NewElementXMLTransformer`
(with the `match_result` gate), and the serialisation performed by `XMLGenerator` plus the
hand-written comment / CDATA / DTD writers of `XMLTransformer`.
-/
namespace CM.XmlEv

abbrev Attrs := List (String × String)

inductive Ev where
  | startDoc
  | endDoc
  | startElem (name : String) (attrs : Attrs) (line col : Nat)   -- locator position when the event fires
  | endElem (name : String) (line : Nat)
  | chars (s : String)
  | ignorable (s : String)
  | pi (target data : String)
  | comment (s : String)
  | startCDATA
  | endCDATA
  | startDTD (name : String) (pub sys : Option String)
  | endDTD
  deriving DecidableEq, Repr

/-- `xml.sax.saxutils.escape` on characters -/
def escapeL : List Char → List Char
  | [] => []
  | c :: t =>
    (if c = '&' then ['&', 'a', 'm', 'p', ';'] else if c = '>' then ['&', 'g', 't', ';']
     else if c = '<' then ['&', 'l', 't', ';'] else [c]) ++ escapeL t

/-- `xml.sax.saxutils.escape` -/
def escape (s : String) : String := String.ofList (escapeL s.toList)

/-- what an XML parser reads back from escaped character data (the three entities `escape` produces) -/
def unescapeL : List Char → List Char
  | '&' :: 'a' :: 'm' :: 'p' :: ';' :: t => '&' :: unescapeL t
  | '&' :: 'g' :: 't' :: ';' :: t => '>' :: unescapeL t
  | '&' :: 'l' :: 't' :: ';' :: t => '<' :: unescapeL t
  | c :: t => c :: unescapeL t
  | [] => []

/-- `xml.sax.saxutils.quoteattr` -/
def quoteattr (s : String) : String :=
  let e := String.join (s.toList.map fun c =>
    if c = '&' then "&amp;" else if c = '>' then "&gt;" else if c = '<' then "&lt;"
    else if c = '\n' then "&#10;" else if c = '\r' then "&#13;" else if c = '\t' then "&#9;" else String.singleton c)
  if s.toList.contains '"' then
    if s.toList.contains '\'' then "\"" ++ e.replace "\"" "&quot;" ++ "\"" else "'" ++ e ++ "'"
  else "\"" ++ e ++ "\""

def optStr : Option String → String
  | some s => s
  | none => "None"          -- Python's f-string of `None`

/-- what the generator writes for one event; `inCdata`: between `startCDATA` and `endCDATA` character
data is written literally -/
def ser1 (inCdata : Bool) : Ev → String
  | .startDoc => "<?xml version=\"1.0\" encoding=\"utf-8\"?>\n"
  | .endDoc => ""
  | .startElem n attrs _ _ => "<" ++ n ++ String.join (attrs.map fun (k, v) => " " ++ k ++ "=" ++ quoteattr v) ++ ">"
  | .endElem n _ => "</" ++ n ++ ">"
  | .chars s => if inCdata then s else escape s
  | .ignorable s => s
  | .pi t d => "<?" ++ t ++ " " ++ d ++ "?>"
  | .comment s => "<!--" ++ s ++ "-->\n"
  | .startCDATA => "<![CDATA["
  | .endCDATA => "]]>"
  | .startDTD n p s =>
    "<!DOCTYPE " ++ n ++
      (match p, s with
       | some p, s => " PUBLIC \"" ++ p ++ "\" \"" ++ optStr s ++ "\""
       | none, some s => " SYSTEM \"" ++ s ++ "\""
       | none, none => "") ++ ">\n"
  | .endDTD => ""

def serFrom : Bool → List Ev → String
  | _, [] => ""
  | c, e :: t =>
    ser1 c e ++ serFrom (match e with | .startCDATA => true | .endCDATA => false | _ => c) t

def ser (evs : List Ev) : String := serFrom false evs

structure Loc where
  line : Nat
  col : Nat          -- 1-based tool column
  deriving DecidableEq, Repr

/-- `match_result(line, column)`; `results = none` ⇒ everything matches -/
def matchResult (results : Option (List (List Loc))) (lineOnly : Bool) (line col : Nat) : Bool :=
  match results with
  | none => true
  | some rs => rs.any fun locs => locs.any fun l => (lineOnly && l.line == line) || (l.line == line && l.col == col + 1)

/-- `attrs._attrs | new` for insertion-ordered dicts -/
def mergeAttrs (a new : Attrs) : Attrs :=
  (a.map fun (k, v) => (k, (new.lookup k).getD v)) ++ new.filter fun (k, _) => !(a.map (·.1)).contains k

/-- `ElementAttributeXMLTransformer`: returns the output events and the change lines -/
def attrTransform (m : List (String × Attrs)) (results : Option (List (List Loc))) (lineOnly : Bool) :
    List Ev → List Ev × List Nat
  | [] => ([], [])
  | e :: t =>
    let (out, ch) := attrTransform m results lineOnly t
    match e with
    | .startElem n attrs line col =>
      match (if matchResult results lineOnly line col then m.lookup n else none) with
      | some new => (.startElem n (mergeAttrs attrs new) line col :: out, line :: ch)
      | none => (e :: out, ch)
    | _ => (e :: out, ch)

structure NewEl where
  name : String
  parent : String
  content : String
  attrs : Attrs
  deriving DecidableEq, Repr

/-- `NewElementXMLTransformer`: every end tag of a parent gets the new elements written before it -/
def newElTransform (news : List NewEl) : List Ev → List Ev × List Nat
  | [] => ([], [])
  | e :: t =>
    let (out, ch) := newElTransform news t
    match e with
    | .endElem n line =>
      let adds := news.filter (fun x => x.parent == n)
      (adds.flatMap (fun x => [Ev.startElem x.name x.attrs line 0, .chars x.content, .endElem x.name line]) ++ e :: out,
       adds.map (fun _ => line) ++ ch)
    | _ => (e :: out, ch)

end CM.XmlEv
