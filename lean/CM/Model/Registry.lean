/-
Model of `codemodder.registry.CodemodRegistry.match_codemods`, `_compile_pattern`
(src/codemodder/registry.py) and `codemodder.cli.CsvListAction` (src/codemodder/cli.py).
-/
namespace CM.Registry

structure Codemod where
  id : String
  origin : String
  deriving DecidableEq, Repr

/-- all suffixes, longest first -/
def tails {α} : List α → List (List α)
  | [] => [[]]
  | a :: t => (a :: t) :: tails t

/-- `_compile_pattern(p).fullmatch(s)`: `*` is the only wildcard, the match is anchored. -/
def globMatch : List Char → List Char → Bool
  | [], s => s.isEmpty
  | '*' :: p, s => (tails s).any (globMatch p)
  | _ :: _, [] => false
  | a :: p, c :: s => a == c && globMatch p s

def glob (pat s : String) : Bool := globMatch pat.toList s.toList

def hasStar (s : String) : Bool := s.toList.contains '*'

/-- `bool(sast_only) != bool(codemod.origin == "pixee")` -/
def eligible (sast : Bool) (c : Codemod) : Bool := sast != (c.origin == "pixee")

/-- first occurrence of each id kept (`dict.setdefault(id, codemod)` + `values()`) -/
def dedupIds : List Codemod → List Codemod → List Codemod
  | acc, [] => acc.reverse
  | acc, c :: t => if acc.any (·.id == c.id) then dedupIds acc t else dedupIds (c :: acc) t

/-- `self._codemods_by_id[name]` -/
def lookupId (reg : List Codemod) (name : String) : Option Codemod := reg.find? (·.id == name)

/-- the include loop: what each requested name contributes, in order -/
def includeMatches (reg : List Codemod) (name : String) : List Codemod :=
  if hasStar name then reg.filter (fun c => glob name c.id)
  else match lookupId reg name with
    | some c => [c]
    | none => []

/-- `match_codemods(codemod_include, codemod_exclude, sast_only)`; `[]` stands for `None`/empty. -/
def matchCodemods (reg : List Codemod) (defaultExcluded : List String)
    (incl excl : List String) (sast : Bool) : List Codemod :=
  let excl' := if excl.isEmpty then defaultExcluded else excl
  if incl.isEmpty then
    let names := excl'.filter (fun e => !hasStar e)
    let pats := excl'.filter hasStar
    reg.filter fun c => !(names.contains c.id || pats.any (fun p => glob p c.id)) && eligible sast c
  else
    dedupIds [] (incl.flatMap (includeMatches reg))

/-- `CsvListAction`: `list(dict.fromkeys(values.split(",")))` -/
def dedupStr : List String → List String → List String
  | acc, [] => acc.reverse
  | acc, s :: t => if acc.contains s then dedupStr acc t else dedupStr (s :: acc) t

def csvList (v : String) : List String :=
  dedupStr [] ((v.toList.splitOn ',').map String.ofList)

end CM.Registry
