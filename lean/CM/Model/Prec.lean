/-
Model of the *syntactic* side of the expression rewrites: Python's operator precedence for the
fragment the boolean codemods touch, libcst's `lpar`/`rpar` flags, and the three rewrites as they are
written in
  core_codemods/combine_calls_base.py   (leave_BooleanOperation, the three match shapes, the two folds),
  core_codemods/invert_boolean_check.py (leave_UnaryOperation, report_new_comparison),
  core_codemods/use_walrus_if.py        (_parenthesize_if_needed, the three shapes of the `if` test).

A tree is *well parenthesised* (`WP m e`) when generating code from it and parsing the code again gives
the same tree back in a slot that accepts precedence level `m`; a rewrite that returns a tree that is
not well parenthesised changes what the file means (or makes it unparsable).
-/
namespace CM.Prec

inductive Cop where
  | eq | ne | lt | ge | gt | le | in_ | notIn | is_ | isNot
  deriving DecidableEq, Repr

inductive BK where
  | arith | and | or
  deriving DecidableEq, Repr

/-- expressions; `par` = the node carries its own parentheses (`lpar`/`rpar` non-empty) -/
inductive E where
  | atom  (name : String) (par : Bool)                          -- Name, Attribute, Subscript, literal, display
  | call  (recv : String) (pats : List String) (par : Bool)     -- `recv.startswith(p)` / `recv.startswith((p₁, …))`
  | neg   (e : E) (par : Bool)                                  -- `-e`
  | lnot  (e : E) (par : Bool)                                  -- `not e`
  | bin   (k : BK) (l r : E) (par : Bool)                       -- `l + r`, `l and r`, `l or r`
  | cmp   (op : Cop) (l r : E) (par : Bool)                     -- a single comparison
  | chain (l : E) (op₁ : Cop) (m : E) (op₂ : Cop) (r : E) (par : Bool)   -- `l op₁ m op₂ r`
  | ifx   (t c f : E) (par : Bool)                              -- `t if c else f`
  | named (n : String) (v : E) (par : Bool)                     -- `n := v`
  | tup   (a b : E) (par : Bool)                                -- `a, b` (a tuple display; bare only where a statement allows it)
  deriving DecidableEq, Repr

namespace E

def par : E → Bool
  | atom _ p | call _ _ p | neg _ p | lnot _ p | bin _ _ _ p | cmp _ _ _ p | chain _ _ _ _ _ p | ifx _ _ _ p | named _ _ p | tup _ _ p => p

def setPar (b : Bool) : E → E
  | atom n _ => atom n b | call r ps _ => call r ps b | neg e _ => neg e b | lnot e _ => lnot e b
  | bin k l r _ => bin k l r b | cmp o l r _ => cmp o l r b | chain l a m c r _ => chain l a m c r b
  | ifx t c f _ => ifx t c f b | named n v _ => named n v b | tup x y _ => tup x y b

/-- precedence of the top operator (Python grammar: bare tuple < `:=` < `if`–`else` < `or` < `and` <
`not` < comparison < `+` < unary `-` < primary) -/
def opLevel : E → Nat
  | tup .. => 0 | named .. => 1 | ifx .. => 2 | bin .or .. => 3 | bin .and .. => 4 | lnot .. => 5
  | cmp .. => 6 | chain .. => 6 | bin .arith .. => 7 | neg .. => 8 | atom .. => 10 | call .. => 10

/-- level at which the printed node binds: parentheses make anything a primary -/
def level (e : E) : Nat := if e.par then 10 else e.opLevel

end E
open E

/-- slot levels of the two operands of a binary operator -/
def slotL : BK → Nat | .arith => 7 | .and => 4 | .or => 3
def slotR : BK → Nat | .arith => 8 | .and => 5 | .or => 4

/-- `WP m e`: every node sits in a slot that accepts it without (further) parentheses.
Slots: `-□` 8 · `□ + □` 7, 8 · comparison operands 7 · `not □` 5 · `□ and □` 4, 5 · `□ or □` 3, 4 ·
`□ if □ else □` 3, 3, 2 · `n := □` 2 · tuple elements 2 (1 inside parentheses: `(x := 1, y)`).
Contexts: the right-hand side of an assignment is a slot of level 0 (a bare tuple may stand there),
the test of an `if` is a slot of level 1 (a bare `:=` may stand there, a bare tuple may not). -/
def WP (m : Nat) : E → Bool
  | atom n p => decide (m ≤ (atom n p).level)
  | call r ps p => decide (m ≤ (call r ps p).level)
  | neg x p => decide (m ≤ (neg x p).level) && WP 8 x
  | lnot x p => decide (m ≤ (lnot x p).level) && WP 5 x
  | bin k l r p => decide (m ≤ (bin k l r p).level) && WP (slotL k) l && WP (slotR k) r
  | cmp o l r p => decide (m ≤ (cmp o l r p).level) && WP 7 l && WP 7 r
  | chain l a x c r p => decide (m ≤ (chain l a x c r p).level) && WP 7 l && WP 7 x && WP 7 r
  | ifx t c f p => decide (m ≤ (ifx t c f p).level) && WP 3 t && WP 3 c && WP 2 f
  | named n v p => decide (m ≤ (named n v p).level) && WP 2 v
  | tup a b p => decide (m ≤ (tup a b p).level) && WP (if p then 1 else 2) a && WP (if p then 1 else 2) b

/-- what may stand on the right of `n = …`: an expression (no bare `:=`), or a bare tuple of expressions -/
def WPrhs : E → Bool
  | tup a b false => WP 2 a && WP 2 b
  | e => WP 2 e

/-! ## combine-startswith-endswith / combine-isinstance-issubclass -/

/-- a pattern written as a string literal (the only elements `combine_args` can tell apart: it compares
`evaluated_value`, which names and other expressions do not have) -/
def isLit (s : String) : Bool :=
  match s.toList with
  | '\'' :: _ => true
  | '"' :: _ => true
  | _ => false

/-- `combine_args`: elements of both calls; a *literal* that has been seen already is dropped, anything
else (a name, an attribute, a call) is kept even when it repeats -/
def dedup : List String → List String
  | [] => []
  | x :: xs => x :: (dedup xs).filter (fun y => !(isLit x && y == x))

/-- `combine_calls(c₁, c₂)`: a fresh `Call` (no parentheses of its own) -/
def combineCalls (r : String) (p₁ p₂ : List String) : E := call r (dedup (p₁ ++ p₂)) false

def isBoolOp : BK → Bool | .and | .or => true | .arith => false

/-- `leave_BooleanOperation` on a node whose children have been rewritten already: the three match
shapes in the order of the code. `keepPar = false` is the code before the fix (the folds built a bare
`BooleanOperation`, dropping the parentheses of the node they replace). -/
def combineStep (keepPar : Bool) (e : E) : E :=
  match e with
  | bin .or l r p =>
    match l, r with
    | call r₁ p₁ _, call r₂ p₂ _ => if r₁ = r₂ then combineCalls r₁ p₁ p₂ else e
    | call r₁ p₁ _, bin k (call r₂ p₂ _) rr _ =>
      if isBoolOp k && r₁ = r₂ then bin k (combineCalls r₁ p₁ p₂) rr (keepPar && p) else e
    | bin k ll (call r₁ p₁ _) _, call r₂ p₂ _ =>
      if isBoolOp k && r₁ = r₂ then bin k ll (combineCalls r₁ p₁ p₂) (keepPar && p) else e
    | _, _ => e
  | _ => e

/-- the whole transformer: children first (libcst `leave_*`), then the node -/
def combine (keepPar : Bool) : E → E
  | atom n p => atom n p
  | call r ps p => call r ps p
  | neg x p => neg (combine keepPar x) p
  | lnot x p => lnot (combine keepPar x) p
  | bin k l r p => combineStep keepPar (bin k (combine keepPar l) (combine keepPar r) p)
  | cmp o l r p => cmp o (combine keepPar l) (combine keepPar r) p
  | chain l a x c r p => chain (combine keepPar l) a (combine keepPar x) c (combine keepPar r) p
  | ifx t c f p => ifx (combine keepPar t) (combine keepPar c) (combine keepPar f) p
  | named n v p => named n (combine keepPar v) p
  | tup a b p => tup (combine keepPar a) (combine keepPar b) p

/-! ## invert-boolean-check -/

def inv : Cop → Cop
  | .eq => .ne | .ne => .eq | .lt => .ge | .ge => .lt | .gt => .le | .le => .gt
  | .in_ => .notIn | .notIn => .in_ | .is_ => .isNot | .isNot => .is_

/-- `lpar=[*outer.lpar, *new.lpar]` -/
def addPar (outer : Bool) (e : E) : E := e.setPar (outer || e.par)

/-- `report_new_comparison` / `_negated`: the expression that stands for `not (l op r)`. The two `is True` /
`is False` shapes, otherwise a fresh `Comparison`. `not (<comparison> is True)` is the negation of the
inner comparison (`deep = false` is the code before the fix: it wrote `not <comparison>`, which the
next run flipped). -/
def newComparison (op : Cop) (l r : E) (deep : Bool := true) : E :=
  match op, r with
  | .is_, atom "True" _ =>
    match deep, l with
    | true, cmp op' l' r' _ => newComparison op' l' r' true
    | _, _ => lnot l false
  | .is_, atom "False" _ => l
  | _, _ => cmp (inv op) l r false
termination_by structural l

/-- `leave_UnaryOperation` on a node whose child has been rewritten already; chains are left alone.
`keepPar = false` / `deep = false` is the code before the two fixes. -/
def invertStep (keepPar : Bool) (e : E) (deep : Bool := true) : E :=
  match e with
  | lnot (cmp op l r _) pn => if keepPar then addPar pn (newComparison op l r deep) else newComparison op l r deep
  | _ => e

/-- the pass as it was before the second-application fix (for the counter-example only) -/
def invertShallow : E → E
  | atom n p => atom n p
  | call r ps p => call r ps p
  | neg x p => neg (invertShallow x) p
  | lnot x p => invertStep true (lnot (invertShallow x) p) false
  | bin k l r p => bin k (invertShallow l) (invertShallow r) p
  | cmp o l r p => cmp o (invertShallow l) (invertShallow r) p
  | chain l a x c r p => chain (invertShallow l) a (invertShallow x) c (invertShallow r) p
  | ifx t c f p => ifx (invertShallow t) (invertShallow c) (invertShallow f) p
  | named n v p => named n (invertShallow v) p
  | tup a b p => tup (invertShallow a) (invertShallow b) p

def invert (keepPar : Bool) : E → E
  | atom n p => atom n p
  | call r ps p => call r ps p
  | neg x p => neg (invert keepPar x) p
  | lnot x p => invertStep keepPar (lnot (invert keepPar x) p)
  | bin k l r p => bin k (invert keepPar l) (invert keepPar r) p
  | cmp o l r p => cmp o (invert keepPar l) (invert keepPar r) p
  | chain l a x c r p => chain (invert keepPar l) a (invert keepPar x) c (invert keepPar r) p
  | ifx t c f p => ifx (invert keepPar t) (invert keepPar c) (invert keepPar f) p
  | named n v p => named n (invert keepPar v) p
  | tup a b p => tup (invert keepPar a) (invert keepPar b) p

/-- node classes that have a `.value` attribute; `report_new_comparison` reads `comparator.value` of an `is` comparison
without looking at the class first, so any other comparator makes the transformer raise (the file is then reported failed) -/
def hasValueAttr : E → Bool
  | atom .. | named .. => true
  | _ => false

/-- does `_negated` raise on `l op r` (it follows `newComparison` into the left operand of `… is True`) -/
def negatedRaises (op : Cop) (l r : E) : Bool :=
  match op with
  | .is_ =>
    if !hasValueAttr r then true else
    match r, l with
    | atom "True" _, cmp op' l' r' _ => negatedRaises op' l' r'
    | _, _ => false
  | _ => false
termination_by structural l

def invertStepRaises : E → Bool
  | lnot (cmp op l r _) _ => negatedRaises op l r
  | _ => false

/-- does `leave_UnaryOperation` raise somewhere during the pass -/
def invertRaises : E → Bool
  | atom .. => false
  | call .. => false
  | neg x _ => invertRaises x
  | lnot x p => invertRaises x || invertStepRaises (lnot (invert true x) p)
  | bin _ l r _ => invertRaises l || invertRaises r
  | cmp _ l r _ => invertRaises l || invertRaises r
  | chain l _ x _ r _ => invertRaises l || invertRaises x || invertRaises r
  | ifx t c f _ => invertRaises t || invertRaises c || invertRaises f
  | named _ v _ => invertRaises v
  | tup a b _ => invertRaises a || invertRaises b

/-! ## use-walrus-if -/

def isAtomic : E → Bool
  | atom .. | call .. => true
  | _ => false

/-- `_parenthesize_if_needed` -/
def parenIfNeeded (e : E) : E := if isAtomic e || e.par then e else e.setPar true

/-- the shape of the `if` test that reads the assigned name -/
inductive Test where
  | name                         -- `if val:`
  | notName (p : Bool)           -- `if not val:`
  | cmpName (op : Cop) (rhs : E) (p : Bool)   -- `if val <op> rhs:`

/-- `on_visit`: a bare tuple (or `yield`) on the right of the assignment gets parentheses before
anything else is done with it -/
def parenTuple : E → E
  | tup a b false => tup a b true
  | e => e

/-- what `leave_If` writes for `n = value` followed by the test; `single` = the name is read nowhere
else (the value is inlined), otherwise a walrus is used. `guard = false` is the code before the fixes
(the value was put in the operand position as it is, a bare tuple stayed bare). -/
def walrus (guard : Bool) (n : String) (value0 : E) (single : Bool) (t : Test) : E :=
  let value := if guard then parenTuple value0 else value0
  match t with
  | .name => if single then value else named n value false
  | .notName p =>
    let x := if single then value else named n value true
    lnot (if guard then parenIfNeeded x else x) p
  | .cmpName op rhs p =>
    let x := if single then value else named n value true
    cmp op (if guard then parenIfNeeded x else x) rhs p

/-! ## values of the boolean fragment (for the semantic theorems about `combine`) -/

structure Env where
  name : String → Bool              -- value of a name / other atom used as a condition
  recv : String → List Char         -- the string a receiver name is bound to

def startsAny (s : List Char) (ps : List String) : Bool := ps.any fun p => p.toList.isPrefixOf s

/-- value of the boolean fragment (`none` outside it) -/
def evalB (env : Env) : E → Option Bool
  | atom n _ => some (env.name n)
  | call r ps _ => some (startsAny (env.recv r) ps)
  | lnot x _ => (evalB env x).map (!·)
  | bin .and l r _ => do let a ← evalB env l; let b ← evalB env r; pure (a && b)
  | bin .or l r _ => do let a ← evalB env l; let b ← evalB env r; pure (a || b)
  | ifx t c f _ => do let tv ← evalB env t; let cv ← evalB env c; let fv ← evalB env f; pure (if cv then tv else fv)
  | _ => none

/-- does this node match one of the two fold shapes *through an `and`* -/
def andFoldHere : E → Bool
  | bin .or (call r₁ _ _) (bin .and (call r₂ _ _) _ _) _ => r₁ == r₂
  | bin .or (bin .and _ (call r₁ _ _) _) (call r₂ _ _) _ => r₁ == r₂
  | _ => false

/-- does the bottom-up pass meet that shape anywhere (judged on the node as it is when the pass reaches it) -/
def andFolds : E → Bool
  | atom .. => false
  | call .. => false
  | neg x _ => andFolds x
  | lnot x _ => andFolds x
  | bin k l r p => andFolds l || andFolds r || andFoldHere (bin k (combine true l) (combine true r) p)
  | cmp _ l r _ => andFolds l || andFolds r
  | chain l _ x _ r _ => andFolds l || andFolds x || andFolds r
  | ifx t c f _ => andFolds t || andFolds c || andFolds f
  | named _ v _ => andFolds v
  | tup a b _ => andFolds a || andFolds b

/-! ## values over the integers (for the semantic theorem about `invert`) -/

def b2i (b : Bool) : Int := if b then 1 else 0

/-- `l op r` on integers, as 0 / 1; `none` for the operators outside the fragment -/
def cmpZ : Cop → Int → Int → Option Int
  | .eq, a, b => some (b2i (a == b)) | .ne, a, b => some (b2i (a != b))
  | .lt, a, b => some (b2i (decide (a < b))) | .le, a, b => some (b2i (decide (a ≤ b)))
  | .gt, a, b => some (b2i (decide (a > b))) | .ge, a, b => some (b2i (decide (a ≥ b)))
  | _, _, _ => none

def evalZ (env : String → Int) : E → Option Int
  | atom n _ => some (env n)
  | neg x _ => (evalZ env x).map (- ·)
  | lnot x _ => (evalZ env x).map fun v => b2i (v == 0)
  | bin .arith l r _ => do let a ← evalZ env l; let b ← evalZ env r; pure (a + b)
  | bin .and l r _ => do let a ← evalZ env l; let b ← evalZ env r; pure (if a == 0 then a else b)
  | bin .or l r _ => do let a ← evalZ env l; let b ← evalZ env r; pure (if a != 0 then a else b)
  | cmp o l r _ => do let a ← evalZ env l; let b ← evalZ env r; cmpZ o a b
  | chain l o₁ x o₂ r _ => do
      let a ← evalZ env l; let b ← evalZ env x; let c ← evalZ env r
      let u ← cmpZ o₁ a b; let v ← cmpZ o₂ b c
      pure (if u == 0 then u else v)
  | ifx t c f _ => do let tv ← evalZ env t; let cv ← evalZ env c; let fv ← evalZ env f; pure (if cv != 0 then tv else fv)
  | _ => none

/-! ## normal forms of `combine` and `invert` (for the second-application theorems, Props/PrecIdem) -/

/-- does `combineStep` fold this node -/
def foldsHere : E → Bool
  | bin .or (call r₁ _ _) (call r₂ _ _) _ => r₁ == r₂
  | bin .or (call r₁ _ _) (bin k (call r₂ _ _) _ _) _ => isBoolOp k && r₁ == r₂
  | bin .or (bin k _ (call r₁ _ _) _) (call r₂ _ _) _ => isBoolOp k && r₁ == r₂
  | _ => false

/-- normal form: no node that `combineStep` folds -/
def NF : E → Bool
  | atom .. => true
  | call .. => true
  | neg x _ => NF x
  | lnot x _ => NF x
  | bin k l r p => NF l && NF r && !foldsHere (bin k l r p)
  | cmp _ l r _ => NF l && NF r
  | chain l _ x _ r _ => NF l && NF x && NF r
  | ifx t c f _ => NF t && NF c && NF f
  | named _ v _ => NF v
  | tup a b _ => NF a && NF b

def isCmp : E → Bool
  | cmp .. => true
  | _ => false

/-- normal form: no `not <single comparison>` -/
def NFi : E → Bool
  | atom .. => true
  | call .. => true
  | neg x _ => NFi x
  | lnot x _ => NFi x && !isCmp x
  | bin _ l r _ => NFi l && NFi r
  | cmp _ l r _ => NFi l && NFi r
  | chain l _ x _ r _ => NFi l && NFi x && NFi r
  | ifx t c f _ => NFi t && NFi c && NFi f
  | named _ v _ => NFi v
  | tup a b _ => NFi a && NFi b

/-! ## rendering (what libcst's code generator prints for the tree) -/

def Cop.str : Cop → String
  | .eq => "==" | .ne => "!=" | .lt => "<" | .ge => ">=" | .gt => ">" | .le => "<="
  | .in_ => "in" | .notIn => "not in" | .is_ => "is" | .isNot => "is not"

def wrap (p : Bool) (s : String) : String := if p then "(" ++ s ++ ")" else s

def render : E → String
  | atom n p => wrap p n
  | call r ps p =>
    wrap p (r ++ ".startswith(" ++ (match ps with | [x] => x | _ => "(" ++ ", ".intercalate ps ++ ")") ++ ")")
  | neg x p => wrap p ("-" ++ render x)
  | lnot x p => wrap p ("not " ++ render x)
  | bin .arith l r p => wrap p (render l ++ " + " ++ render r)
  | bin .and l r p => wrap p (render l ++ " and " ++ render r)
  | bin .or l r p => wrap p (render l ++ " or " ++ render r)
  | cmp o l r p => wrap p (render l ++ " " ++ o.str ++ " " ++ render r)
  | chain l a x c r p => wrap p (render l ++ " " ++ a.str ++ " " ++ render x ++ " " ++ c.str ++ " " ++ render r)
  | ifx t c f p => wrap p (render t ++ " if " ++ render c ++ " else " ++ render f)
  | named n v p => wrap p (n ++ " := " ++ render v)
  | tup a b p => wrap p (render a ++ ", " ++ render b)

end CM.Prec
