/-
Model of the two boolean rewrites whose meaning is decided by the rewrite alone:
`core_codemods/invert_boolean_check.py` (`_invert_comparisons`, the `is True / is False` cases, the
single-comparison guard) and `core_codemods/combine_calls_base.py` (folding
`r.f(a) or r.f(b)` into `r.f((a, b))`), over a small value domain that has a total order (ints), a
partial order (finite sets under inclusion) and an incomparable value (NaN).
-/
namespace CM.BoolRw

inductive Val where
  | int (n : Int)
  | set (s : List Nat)      -- a finite set; order is inclusion
  | nan
  deriving DecidableEq, Repr

inductive Op where
  | eq | ne | lt | le | gt | ge
  deriving DecidableEq, Repr

def subset (a b : List Nat) : Bool := a.all (b.contains ·)

/-- `a op b` in Python for the modelled values (`none` = TypeError) -/
def cmp : Op → Val → Val → Option Bool
  | op, .int a, .int b =>
    some (match op with | .eq => a == b | .ne => a != b | .lt => a < b | .le => a ≤ b | .gt => a > b | .ge => a ≥ b)
  | op, .set a, .set b =>
    some (match op with
      | .eq => subset a b && subset b a | .ne => !(subset a b && subset b a)
      | .lt => subset a b && !subset b a | .le => subset a b
      | .gt => subset b a && !subset a b | .ge => subset b a)
  | op, .nan, _ => some (match op with | .ne => true | _ => false)
  | op, _, .nan => some (match op with | .ne => true | _ => false)
  | .eq, _, _ => some false
  | .ne, _, _ => some true
  | _, _, _ => none

/-- the inversion table of `_invert_comparisons` -/
def inv : Op → Op
  | .eq => .ne | .ne => .eq | .lt => .ge | .gt => .le | .le => .gt | .ge => .lt

/-- a comparison chain `a op₁ b op₂ c …`: every link must hold (short-circuit on the first false) -/
def chain : Val → List (Op × Val) → Option Bool
  | _, [] => some true
  | a, (op, b) :: t =>
    match cmp op a b with
    | none => none
    | some false => some false
    | some true => chain b t

/-- `not (chain)` -/
def notChain (a : Val) (l : List (Op × Val)) : Option Bool := (chain a l).map (!·)

/-- what the codemod writes for `not a op b` — chained comparisons are left alone -/
def invertRewrite (a : Val) (l : List (Op × Val)) : Option Bool :=
  match l with
  | [(op, b)] => cmp (inv op) a b
  | _ => notChain a l

/-- the rewrite before the single-comparison guard was added: every link inverted -/
def invertRewriteAllLinks (a : Val) (l : List (Op × Val)) : Option Bool := chain a (l.map fun (op, b) => (inv op, b))

/-- `s.startswith(p)` / `s.startswith((p₁, …, pₙ))` on character lists -/
def startsWith (s p : List Char) : Bool := p.isPrefixOf s
def startsWithAny (s : List Char) (ps : List (List Char)) : Bool := ps.any (startsWith s)

end CM.BoolRw
