/-
Model of the shared argument editor of the hardening codemods
(`LibcstResultTransformer.replace_args`, `_match_with_existing_arg`, `make_new_arg`,
`add_arg_to_call`, `update_call_target`, `update_arg_target` in
src/codemodder/codemods/libcst_transformer.py). An argument is its keyword (if any), its star prefix
and the source text of its value.
-/
namespace CM.Args

inductive Star where
  | none | one | two
  deriving DecidableEq, Repr

structure Arg where
  kw : Option String
  star : Star
  val : String
  /-- the value is a generator expression without parentheses of its own (`f(x for x in y)`) -/
  gen : Bool := false
  deriving DecidableEq, Repr

/-- `NewArg(name, value, add_if_missing)` -/
structure NewArg where
  name : String
  value : String
  addIfMissing : Bool
  deriving DecidableEq, Repr

/-- `_match_with_existing_arg`: index of the first spec whose name is the argument's keyword -/
def matchIdx (a : Arg) : List NewArg → Option Nat
  | [] => none
  | n :: t => if a.kw = some n.name then some 0 else (matchIdx a t).map (· + 1)

/-- `make_new_arg(value, name, existing_arg)`: a plain keyword argument -/
def mkKw (name value : String) : Arg := { kw := some name, star := .none, val := value }

/-- `replace_args(node, args_info)` -/
def replaceArgs : List Arg → List NewArg → List Arg
  | [], info => (info.filter (·.addIfMissing)).map fun n => mkKw n.name n.value
  | a :: t, info =>
    match matchIdx a info with
    | some i => mkKw ((info.getD i ⟨"", "", false⟩).name) ((info.getD i ⟨"", "", false⟩).value) :: replaceArgs t (info.eraseIdx i)
    | none => a :: replaceArgs t info

/-- `add_arg_to_call(node, name, value)` -/
def addArg (args : List Arg) (name value : String) : List Arg := args ++ [mkKw name value]

/-- the argument list `update_call_target` starts from -/
def callTargetArgs (args : List Arg) (replacement : Option (List Arg)) : List Arg :=
  match replacement with
  | some r => if r.isEmpty then args else r      -- `replacement_args if replacement_args else original_node.args`
  | none => args

/-- argument classes for the call-site ordering rule -/
inductive Cls where
  | pos | kw | star | dstar
  deriving DecidableEq, Repr

def cls (a : Arg) : Cls :=
  match a.star, a.kw with
  | .one, _ => .star
  | .two, _ => .dstar
  | .none, some _ => .kw
  | .none, none => .pos

/-- CPython's rule: no positional argument after a keyword argument or `**`; no `*` after `**` -/
def wfC : Bool → Bool → List Cls → Bool
  | _, _, [] => true
  | seenKw, seenDs, c :: t =>
    match c with
    | .pos => !seenKw && !seenDs && wfC seenKw seenDs t
    | .kw => wfC true seenDs t
    | .star => !seenDs && wfC seenKw seenDs t
    | .dstar => wfC true true t

def wf (args : List Arg) : Bool := wfC false false (args.map cls)

/-- `_parenthesize_bare_generators`: once a call has two arguments or more, a generator gets its own parentheses -/
def parenGens (args : List Arg) : List Arg :=
  if args.length < 2 then args
  else args.map fun a => if a.gen then { a with gen := false, val := "(" ++ a.val ++ ")" } else a

/-- `update_arg_target(node, new_args)` as it is now -/
def updateArgTarget (newArgs : List Arg) : List Arg := parenGens newArgs

/-- `add_arg_to_call(node, name, value)` as it is now -/
def addArgToCall (args : List Arg) (name value : String) : List Arg := parenGens (addArg args name value)

/-- `update_call_target(node, new_target, new_func, replacement_args)`: (callee text, args). `guard = false` is
the code before the fix (a bare generator of the original call was put next to the new first argument as it was). -/
def callTarget (callName : String) (args : List Arg) (newTarget : String) (newFunc : Option String)
    (replacement : Option (List Arg)) (guard : Bool := true) : String × List Arg :=
  (newTarget ++ "." ++ newFunc.getD callName,
   if guard then parenGens (callTargetArgs args replacement) else callTargetArgs args replacement)

/-- the ordering rule plus: a bare generator is only legal as the sole argument -/
def wfGen (args : List Arg) : Bool := wf args && (decide (args.length ≤ 1) || args.all (!·.gen))

end CM.Args
