/-
Model of the dependency-manifest logic: `packaging.utils.canonicalize_name` (as used by
`PackageStore.has_requirement`), `DependencyWriter.add`, `RequirementsTxtParser._clean_lines`,
`RequirementsTxtWriter.add_to_file`, `SetupCfgWriter.build_new_lines`
(src/codemodder/dependency_management/*.py, src/codemodder/project_analysis/file_parsers/*.py).
-/
namespace CM.Deps

/-- PEP 503 normalisation: lower-case, runs of `-`, `_`, `.` become one `-` -/
def canonL : Bool → List Char → List Char
  | _, [] => []
  | prevSep, c :: t =>
    if c = '-' ∨ c = '_' ∨ c = '.' then (if prevSep then canonL true t else '-' :: canonL true t)
    else c.toLower :: canonL false t

def canon (s : String) : String := String.ofList (canonL false s.toList)

/-- `PackageStore.has_requirement` -/
def hasRequirement (declared : List String) (name : String) : Bool :=
  (declared.map canon).contains (canon name)

/-- `DependencyWriter.add`: the requirements not yet declared (and the store after recording them) -/
def add (declared : List String) (deps : List String) : List String × List String :=
  deps.foldl (fun (acc : List String × List String) d =>
    if hasRequirement acc.1 d then acc else (acc.1 ++ [d], acc.2 ++ [d])) (declared, [])

/-- `original_lines[-1] += "\n"` when it lacks one -/
def fixLast : List String → List String
  | [] => []
  | [l] => [if l.endsWith "\n" then l else l ++ "\n"]
  | a :: t => a :: fixLast t

/-- `RequirementsTxtWriter.add_to_file`: `none` when the file has no line at all (IndexError) -/
def reqAdd (lines : List String) (reqs : List String) : Option (List String) :=
  if lines.isEmpty then none else some (fixLast lines ++ reqs.map (· ++ "\n"))

/-- line numbers reported for the added requirements (`original_lines_strategy`) -/
def reqChangeLines (lines : List String) (reqs : List String) : List Nat :=
  (List.range reqs.length).map fun i => lines.length + i + 1

def stripS (s : String) : String := s.trimAscii.toString

/-- `_clean_lines` on already split lines: drops comment lines and `-r` includes, strips inline comments -/
def reqClean (lines : List String) : List String :=
  (lines.filter fun l => !(l.startsWith "#" || l.startsWith "-r ")).map fun l => stripS ((l.splitOn "#").headD "")

/-- `SetupCfgWriter.build_new_lines`, newline-separated case: the new requirements go right after the
line whose stripped text equals the last declared dependency (first occurrence: `list.index`), with
that line's leading whitespace -/
def leadingWs (s : String) : String := String.ofList (s.toList.takeWhile Char.isWhitespace)

/-- a line with its terminator -/
def terminate (s : String) : String := if s.endsWith "\n" then s else s ++ "\n"

def cfgBuildNewline (lines : List String) (lastDep : String) (reqs : List String) : Option (List String) :=
  match (lines.map stripS).idxOf? lastDep with
  | none => none
  | some idx =>
    let ws := leadingWs (lines.getD idx "")
    -- the last dependency may be the last line of a file without a final newline: it is terminated first
    some (lines.take idx ++ [terminate (lines.getD idx "")] ++ reqs.map (fun r => ws ++ r ++ "\n") ++ lines.drop (idx + 1))

end CM.Deps
