import re
p='/verif/harness/props/c08.py'
s=open(p).read()
add = '''
    # 4. what the model calls the *value* of a tree (evalZ over the integers, evalB over names and receivers) against CPython's
    #    evaluation of the code libcst generates for it; the values after `invert` / `combine` come with it
    INTOPS = ["eq", "ne", "lt", "le", "gt", "ge"]
    def gen_z(d):
        if d == 0 or rng.random() < 0.2:
            return {"k": "atom", "n": rng.choice(["a", "b", "c", "flag"]), "p": rng.random() < 0.1}
        k = rng.choice(["neg", "lnot", "lnot", "arith", "and", "or", "cmp", "cmp", "chain", "ifx"])
        p, sub = rng.random() < 0.3, (lambda: gen_z(d - 1))
        if k in ("neg", "lnot"): return {"k": k, "e": sub(), "p": p}
        if k in ("arith", "and", "or"): return {"k": "bin", "op": k, "l": sub(), "r": sub(), "p": p}
        if k == "cmp": return {"k": "cmp", "op": rng.choice(INTOPS), "l": sub(), "r": sub(), "p": p}
        if k == "chain": return {"k": "chain", "l": sub(), "o1": rng.choice(INTOPS), "m": sub(), "o2": rng.choice(INTOPS), "r": sub(), "p": p}
        return {"k": "ifx", "t": sub(), "c": sub(), "f": sub(), "p": p}
    def gen_b(d):
        if d == 0 or rng.random() < 0.25:
            if rng.random() < 0.6:
                return {"k": "call", "r": rng.choice(["s", "t"]), "ps": rng.sample(["'a'", "'b'", "'ab'", "''"], rng.choice([1, 2])), "p": False}
            return {"k": "atom", "n": rng.choice(["a", "b", "flag"]), "p": False}
        k = rng.choice(["lnot", "and", "or", "or", "or", "ifx"])
        p, sub = rng.random() < 0.3, (lambda: gen_b(d - 1))
        if k == "lnot": return {"k": k, "e": sub(), "p": p}
        if k in ("and", "or"): return {"k": "bin", "op": k, "l": sub(), "r": sub(), "p": p}
        return {"k": "ifx", "t": sub(), "c": sub(), "f": sub(), "p": p}
    def unquote(t):
        t = json.loads(json.dumps(t))
        def walk(x):
            if x["k"] == "call": x["ps"] = [q.strip("'") for q in x["ps"]]
            for _, key in preccorr.children(x): walk(x[key])
        walk(t)
        return t
    reqs, exps = [], []
    for _ in range(ctx.pick(300, 3000)):
        t = preccorr.repair(gen_z(rng.randint(1, 4)))
        env = {n: rng.randint(-2, 3) for n in ["a", "b", "c", "flag"]}
        code = preccorr.code_of(preccorr.to_cst(t))
        reqs.append({"op": "prec_eval", "e": t, "ints": [{"n": k, "v": v} for k, v in env.items()], "strs": []})
        exps.append(("z", int(eval(code, {}, dict(env))), code, env))
    for _ in range(ctx.pick(300, 3000)):
        t = preccorr.repair(gen_b(rng.randint(1, 4)))
        env = {n: rng.choice([0, 1]) for n in ["a", "b", "flag"]}
        strs = {"s": rng.choice(["abc", "b", ""]), "t": rng.choice(["ab", "xyz"])}
        code = preccorr.code_of(preccorr.to_cst(t))
        pyenv = {k: bool(v) for k, v in env.items()} | strs
        reqs.append({"op": "prec_eval", "e": unquote(t), "ints": [{"n": k, "v": v} for k, v in env.items()], "strs": [{"n": k, "v": v} for k, v in strs.items()]})
        exps.append(("b", bool(eval(code, {}, pyenv)), code, pyenv))
    for (kind, want, code, env), a in zip(exps, common.lean_ask(reqs)):
        if "err" in a:
            ctx.broke("prec_eval driver op", str(a)); break
        after = a["z_inverted"] if kind == "z" else (a["b_combined"] if not a["and_folds"] else want)
        ctx.corr_case("prec_eval", {"code": code, "env": env}, {"value": want, "after_rewrite": want}, {"value": a[kind], "after_rewrite": after}, True,
                      "eval:" + kind + (":and-fold" if a.get("and_folds") and kind == "b" else ""))
'''
anchor = "\n\ndef execute(code: str, cwd) -> str:"
assert anchor in s
s = s.replace(anchor, add + anchor, 1)
s = s.replace('LEAN_TARGETS = ["CM.Props.Lift", "CM.Props.C08", "CM.Props.Prec", "CM.Props.C08Gen", "CM.Props.PrecSem"]','LEAN_TARGETS = ["CM.Props.Lift", "CM.Props.C08", "CM.Props.Prec", "CM.Props.C08Gen", "CM.Props.PrecSem", "CM.Props.PrecSemInv"]')
s = s.replace('''    "CM.Prec.C08_combine_and_fold_changes_value",''','''    "CM.Prec.C08_combine_and_fold_changes_value",
    "CM.Prec.C08_invert_preserves_value",''')
open(p,'w').write(s)
print("patched")
