import sys, random, json, copy
sys.path.insert(0,'/verif/harness')
import common; common.setup_env()
from pathlib import Path
common.LEAN_DIR = Path('/var/tmp/leanwork')
import preccorr as P
rng=random.Random(7)
INTOPS=["eq","ne","lt","le","gt","ge"]
def genZ(d):
    if d==0 or rng.random()<0.2: return {"k":"atom","n":rng.choice(["a","b","c","flag"]),"p":rng.random()<0.1}
    k=rng.choice(["neg","lnot","lnot","arith","and","or","cmp","cmp","chain","ifx"])
    p=rng.random()<0.3; s=lambda: genZ(d-1)
    if k in("neg","lnot"): return {"k":k,"e":s(),"p":p}
    if k in("arith","and","or"): return {"k":"bin","op":k,"l":s(),"r":s(),"p":p}
    if k=="cmp": return {"k":"cmp","op":rng.choice(INTOPS),"l":s(),"r":s(),"p":p}
    if k=="chain": return {"k":"chain","l":s(),"o1":rng.choice(INTOPS),"m":s(),"o2":rng.choice(INTOPS),"r":s(),"p":p}
    return {"k":"ifx","t":s(),"c":s(),"f":s(),"p":p}
def genB(d):
    if d==0 or rng.random()<0.25:
        if rng.random()<0.6: return {"k":"call","r":rng.choice(["s","t"]),"ps":rng.sample(["'a'","'b'","'ab'","''"],rng.choice([1,2])),"p":False}
        return {"k":"atom","n":rng.choice(["a","b","flag"]),"p":False}
    k=rng.choice(["lnot","and","or","or","or","ifx"]); p=rng.random()<0.3; s=lambda: genB(d-1)
    if k=="lnot": return {"k":k,"e":s(),"p":p}
    if k in("and","or"): return {"k":"bin","op":k,"l":s(),"r":s(),"p":p}
    return {"k":"ifx","t":s(),"c":s(),"f":s(),"p":p}
def unquote(t):
    t=copy.deepcopy(t)
    def w(x):
        if x["k"]=="call": x["ps"]=[q.strip("'") for q in x["ps"]]
        for _,key in P.children(x): w(x[key])
    w(t); return t
reqs=[];exp=[]
for _ in range(1500):
    t=P.repair(genZ(rng.randint(1,4)))
    env={n:rng.randint(-2,3) for n in ["a","b","c","flag"]}
    code=P.code_of(P.to_cst(t))
    reqs.append({"op":"prec_eval","e":t,"ints":[{"n":k,"v":v} for k,v in env.items()],"strs":[]})
    exp.append(("z", int(eval(code,{},dict(env))), code, env))
for _ in range(1500):
    t=P.repair(genB(rng.randint(1,4)))
    env={n:rng.choice([0,1]) for n in ["a","b","flag"]}; strs={"s":rng.choice(["abc","b",""]),"t":rng.choice(["ab","xyz"])}
    code=P.code_of(P.to_cst(t))
    pyenv={k:bool(v) for k,v in env.items()}; pyenv.update(strs)
    reqs.append({"op":"prec_eval","e":unquote(t),"ints":[{"n":k,"v":v} for k,v in env.items()],"strs":[{"n":k,"v":v} for k,v in strs.items()]})
    exp.append(("b", bool(eval(code,{},pyenv)), code, pyenv))
ans=common.lean_ask(reqs)
bad=0
for (kind,want,code,env),a in zip(exp,ans):
    got=a.get(kind)
    inv=a.get("z_inverted") if kind=="z" else a.get("b_combined")
    if got!=want or (kind=="z" and inv!=want) or (kind=="b" and not a["and_folds"] and inv!=want):
        bad+=1
        if bad<8: print(kind, code, env, "py",want,"model",got,"after",inv, a.get("and_folds"))
print(len(exp), "bad", bad, "and_folds:", sum(1 for a in ans if a.get("and_folds")))
