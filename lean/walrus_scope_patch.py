# adds the walrus "single access" correspondence to harness/scopecorr.py and harness/props/c02.py
p='/verif/harness/scopecorr.py'
s=open(p).read()
s+='''

def walrus_program(rng):
    """a function with `w = 1` directly followed by `if w:` at its top level, other reads / assignments of `w` around it (same level
    and enclosed scopes); returns (code, body in the model's terms with the `if` test as a read)"""
    before, after = gen_body(rng, 1), gen_body(rng, 1)
    for part in (before, after):
        for s in part:
            if s["k"] != "scope" and rng.random() < 0.35:
                s["n"] = "w"
        for s in part:
            if s["k"] == "scope":
                for t in s["b"]:
                    if t["k"] != "scope" and rng.random() < 0.4:
                        t["n"] = "w"
    # no other `w = ..` directly followed by a plain read that would be rendered as an `if`: reads are rendered as print(..)
    counter = [0]
    code = "def f():\\n" + render(before, 1, counter) + "    w = 1\\n    if w:\\n        pass\\n" + render(after, 1, counter) + "    return None\\n"
    return code


def walrus_body(code: str):
    """the body of `f` with the `if w:` test as a read of `w`"""
    def stmts(block):
        out = []
        for st in block.body:
            if isinstance(st, cst.FunctionDef):
                out.append({"k": "scope", "b": stmts(st.body)}); continue
            if isinstance(st, cst.If):
                out.append({"k": "read", "n": st.test.value}); continue
            for small in st.body:
                if isinstance(small, cst.Assign):
                    out.append({"k": "assign", "n": small.targets[0].target.value})
                elif isinstance(small, cst.Expr) and isinstance(small.value, cst.Call):
                    out.append({"k": "read", "n": small.value.args[0].value.value})
                elif isinstance(small, cst.Expr) and isinstance(small.value, cst.Lambda):
                    out.append({"k": "scope", "b": [{"k": "read", "n": el.value.value} for el in small.value.body.elements]})
        return out
    return stmts(cst.parse_module(code).body[0].body)
'''
open(p,'w').write(s)
p='/verif/harness/props/c02.py'
s=open(p).read()
s=s.replace('''def search(ctx):
    res = progspace.run_pass(ctx.tier, ctx.seed)''','''    # use-walrus-if asks the same question ("is the name read anywhere else?") before it inlines the value: the real codemod's choice
    # (value inlined / walrus kept) against the model's count of own reads + references from enclosed scopes
    import preccorr
    codes = [scopecorr.walrus_program(rng) for _ in range(ctx.pick(80, 600))]
    outs = preccorr.run_codemod("pixee:python/use-walrus-if", codes)
    bodies = [scopecorr.walrus_body(c) for c in codes]
    for code, out, b, a in zip(codes, outs, bodies, common.lean_ask([{"op": "scope_clean", "body": b} for b in bodies])):
        m_own, m_nl = dict(map(tuple, a["own_reads"])), dict(map(tuple, a["nested_libcst"]))
        count = m_own.get("w", 0) + m_nl.get("w", 0)
        want = "inlined" if count == 1 else "walrus"
        got = "failed" if out is None else ("walrus" if ":=" in out else ("inlined" if "if 1:" in out else "unchanged"))
        ctx.corr_case("walrus_single_access", {"program": code}, got, want, True, "walrus:" + want)
        ctx.search_case("walrus-inline", {"program": code}, True)
        if out is not None:
            u0, u1 = scopes.unresolved(code), scopes.unresolved(out)
            if u0 is not None and u1 is not None and not set(u1) <= set(u0):
                ctx.fail({"kind": "new-unresolved-name", "codemod": "pixee:python/use-walrus-if"},
                         f"use-walrus-if: the rewritten function reads {sorted(set(u1) - set(u0))} which nothing binds", {"before": code, "after": out})


def search(ctx):
    res = progspace.run_pass(ctx.tier, ctx.seed)''')
open(p,'w').write(s)
print("patched")
