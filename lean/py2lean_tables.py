"""Translator for *tables* written as `match` statements over libcst node classes (DESIGN §2, Layer B).

`_invert_comparisons` in core_codemods/invert_boolean_check.py maps the operator class of a comparison to the class of
the inverted operator. The table is read off the source with `ast` and emitted as a Lean function over `CM.Prec.Cop`,
followed by the statement that it is the model's `inv` (checked by the kernel on every run: a changed table breaks it).
"""
from __future__ import annotations

import ast

import common

COP = {"Equal": "eq", "NotEqual": "ne", "LessThan": "lt", "GreaterThanEqual": "ge", "GreaterThan": "gt", "LessThanEqual": "le",
       "In": "in_", "NotIn": "notIn", "Is": "is_", "IsNot": "isNot"}
ORDER = ["eq", "ne", "lt", "ge", "gt", "le", "in_", "notIn", "is_", "isNot"]


class Untranslatable(Exception):
    pass


def _cls(node) -> str:
    """`cst.X()` / `cst.X` -> X"""
    if isinstance(node, ast.Call):
        node = node.func
    if isinstance(node, ast.Attribute) and isinstance(node.value, ast.Name) and node.value.id == "cst":
        return node.attr
    raise Untranslatable(f"not a libcst class: {ast.dump(node)[:80]}")


def invert_table() -> dict[str, str]:
    src = (common.REPO / "src/core_codemods/invert_boolean_check.py").read_text()
    tree = ast.parse(src)
    fn = next((n for n in ast.walk(tree) if isinstance(n, ast.FunctionDef) and n.name == "_invert_comparisons"), None)
    if fn is None:
        raise Untranslatable("_invert_comparisons not found")
    matches = [n for n in ast.walk(fn) if isinstance(n, ast.Match)]
    if len(matches) != 1:
        raise Untranslatable("expected one match statement")
    table: dict[str, str] = {}
    default_identity = False
    for case in matches[0].cases:
        if len(case.body) != 1 or not isinstance(case.body[0], ast.Assign) or case.guard is not None:
            raise Untranslatable("case body is not a single assignment")
        value = case.body[0].value
        pat = case.pattern
        if isinstance(pat, ast.MatchAs) and pat.pattern is None:          # case _:
            if not (isinstance(value, ast.Attribute) and value.attr == "operator"):
                raise Untranslatable("default case is not the identity")
            default_identity = True
            continue
        if not isinstance(pat, ast.MatchClass) or pat.patterns or pat.kwd_patterns:
            raise Untranslatable("pattern is not a bare class pattern")
        src_cls, dst_cls = _cls(pat.cls), _cls(value)
        if src_cls not in COP or dst_cls not in COP:
            raise Untranslatable(f"operator class outside the model: {src_cls} -> {dst_cls}")
        if COP[src_cls] in table:
            continue      # an earlier case wins, as in Python
        table[COP[src_cls]] = COP[dst_cls]
    for k in ORDER:
        if k not in table:
            if not default_identity:
                raise Untranslatable(f"no case for {k} and no identity default")
            table[k] = k
    return table


def block():
    """returns (defs text, theorems text, info)"""
    info = {"tables_translated": [], "tables_untranslatable": {}}
    try:
        t = invert_table()
        arms = " ".join(f"| .{k} => .{t[k]}" for k in ORDER)
        defs = ("open CM.Prec\n\n/-- translated from src/core_codemods/invert_boolean_check.py `_invert_comparisons` (the `match` over operator classes) -/\n"
                f"def gen_inv : Cop → Cop\n  {arms}\n")
        thms = "open CM.Prec\n\ntheorem gen_inv_eq (o : Cop) : gen_inv o = inv o := by cases o <;> rfl\n"
        info["tables_translated"].append("invert_comparisons")
    except (Untranslatable, SyntaxError, OSError) as e:
        info["tables_untranslatable"]["invert_comparisons"] = str(e)
        defs = f"open CM.Prec\n\n/-- NOT TRANSLATED ({e}): falls back to the model; tie by correspondence only -/\ndef gen_inv : Cop → Cop := inv\n"
        thms = "open CM.Prec\n\ntheorem gen_inv_eq (o : Cop) : gen_inv o = inv o := rfl\n"
    return defs, thms, info
