p='/verif/harness/props/c02.py'
s=open(p).read()
s=s.replace('import common\nimport progspace\nimport scopes\n','import common\nimport progspace\nimport scopecorr\nimport scopes\n')
s=s.replace('LEAN_TARGETS = ["CM.Props.Lift"]','LEAN_TARGETS = ["CM.Props.Lift", "CM.Props.C02Scope"]')
s=s.replace('''    "CM.Pipeline.processFile_write_preserves",
]''','''    "CM.Pipeline.processFile_write_preserves",
    "CM.Scope.clean_scope_safe",
    "CM.Scope.refs_le_libcst",
    "CM.Scope.C02_clean_scope_safe",
    "CM.Scope.C02_clean_scope_safe_python",
    "CM.Scope.C02_clean_old_unbinds_closure_read",
]''')
s=s.replace('''LEVEL_NOTE = (
    "Partial: import insertion/removal''','''LEVEL_TEXT += (
    " Mechanism (CM.Scope): function bodies as assignments, reads and nested scopes; the clean-up pass RemoveUnusedVariables with its "
    "liveness test as the code has it now (reads at the same level, or a non-empty `references` set as libcst attributes it) is proved to "
    "leave no name unresolved that was resolved (C02_clean_scope_safe, via refs_le_libcst: Python's references are among what libcst "
    "attributes); the test as it was before a fix (same-level reads only) is a proved counter-example. Tied to the code by running the "
    "real transformer and libcst's ScopeProvider on generated bodies."
)
LEVEL_NOTE = (
    "Partial: import insertion/removal''')
s=s.replace('''def search(ctx):
    res = progspace.run_pass(ctx.tier, ctx.seed)''','''def corr(ctx):
    """CM.Scope against libcst's scope analysis and the real RemoveUnusedVariables transformer"""
    rng = ctx.rng
    bodies = [scopecorr.gen_body(rng) for _ in range(ctx.pick(250, 2500))]
    codes = [scopecorr.program(b) for b in bodies]
    inputs = [scopecorr.parse_back(c) for c in codes]      # the rendering decides def / lambda: the model sees what was rendered
    for b, code, a in zip(inputs, codes, common.lean_ask([{"op": "scope_clean", "body": b} for b in inputs])):
        if "err" in a:
            ctx.broke("scope_clean driver op", str(a)); break
        own, refs = scopecorr.libcst_counts(code)
        after = scopecorr.real_clean(code)
        m_own, m_nl = dict(map(tuple, a["own_reads"])), dict(map(tuple, a["nested_libcst"]))
        impl_ans = {"own_reads": own, "alive": {n: own[n] > 0 or refs[n] > 0 for n in own}, "cleaned": scopecorr.parse_back(after)}
        model_ans = {"own_reads": m_own, "alive": {n: m_own[n] + m_nl[n] > 0 for n in m_own}, "cleaned": a["cleaned"]}
        removed = impl_ans["cleaned"] != b
        ctx.corr_case("scope_clean", {"program": code}, impl_ans, model_ans, removed,
                      "scope:" + ("removes" if removed else "keeps") + (":closure-read" if a["cleaned"] != a["cleaned_old"] else ""))
        # the property on the real output: no name of the function became unresolved
        ctx.search_case("clean-up-pass", {"program": code}, removed)
        u0, u1 = scopes.unresolved(code), scopes.unresolved(after)
        if u0 is not None and u1 is not None and not set(u1) <= set(u0):
            ctx.fail({"kind": "new-unresolved-name", "codemod": "RemoveUnusedVariables"},
                     f"RemoveUnusedVariables: the cleaned function reads {sorted(set(u1) - set(u0))} which nothing binds", {"before": code, "after": after})


def search(ctx):
    res = progspace.run_pass(ctx.tier, ctx.seed)''')
open(p,'w').write(s)
print("patched")
