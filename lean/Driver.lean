import Lean.Data.Json
import CM.Driver.Ops
/-! Line protocol: one JSON request per line on stdin, one JSON answer per line on stdout. -/
open Lean

partial def loop (h : IO.FS.Stream) (out : IO.FS.Stream) : IO Unit := do
  let line ← h.getLine
  if line.isEmpty then return ()
  let ans : Json :=
    match Json.parse line with
    | .error e => Json.mkObj [("err", Json.str ("bad-json: " ++ e))]
    | .ok j =>
      match CM.Driver.dispatch j with
      | .ok r => r
      | .error e => Json.mkObj [("err", Json.str e)]
  out.putStrLn ans.compress
  out.flush
  loop h out

def main : IO Unit := do
  loop (← IO.getStdin) (← IO.getStdout)
