import sys, random, json
sys.path.insert(0,'/var/tmp/leanwork'); sys.path.insert(1,'/verif/harness')
import common; common.setup_env()
from pathlib import Path
common.LEAN_DIR = Path('/var/tmp/leanwork')
import scopecorr as S
rng=random.Random(3)
bodies=[S.gen_body(rng) for _ in range(600)]
codes=[S.program(b) for b in bodies]
for c in codes[:1]: print(c)
# the rendering decides lambda/def; parse back to get the model input consistent with rendering
inputs=[S.parse_back(c) for c in codes]
ans=common.lean_ask([{"op":"scope_clean","body":b} for b in inputs])
bad=0; removed=0; closure=0
for b,c,a in zip(inputs,codes,ans):
    if "err" in a: print(a); break
    own,refs=S.libcst_counts(c)
    m_own=dict(map(tuple,a["own_reads"])); m_refs=dict(map(tuple,a["refs"]))
    real=S.parse_back(S.real_clean(c))
    m_nl=dict(map(tuple,a["nested_libcst"]))
    # libcst: references = own reads after the first assignment + what enclosed scopes hand up; alive iff own reads or references
    ok = own==m_own and all((m_own[n]+m_nl[n]>0)==(own[n]>0 or refs[n]>0) for n in own) and real==a["cleaned"]
    if real!=b: removed+=1
    if a["cleaned"]!=a["cleaned_old"]: closure+=1
    if not ok:
        bad+=1
        if bad<5: print("DIS", c, own, m_own, refs, m_refs, json.dumps(real)[:200], json.dumps(a["cleaned"])[:200])
print(len(bodies),"bad",bad,"programs with removal",removed,"where old pass differs",closure)
