"""Correspondence for CM.Scope: the model's reference counts against libcst's scope analysis (what `find_accesses` and
`assignment.references` give), and the model's clean-up pass against the real `RemoveUnusedVariables` transformer, on generated
function bodies made of assignments, reads and nested scopes (inner functions, lambdas)."""
from __future__ import annotations

import libcst as cst
from libcst.codemod import CodemodContext
from libcst.metadata import MetadataWrapper, ScopeProvider

NAMES = ["a", "b", "tag", "v"]


def gen_body(rng, depth=0):
    out = []
    for _ in range(rng.randint(1, 5)):
        k = rng.random()
        if k < 0.4:
            out.append({"k": "assign", "n": rng.choice(NAMES)})
        elif k < 0.7 or depth >= 2:
            out.append({"k": "read", "n": rng.choice(NAMES)})
        else:
            out.append({"k": "scope", "b": gen_body(rng, depth + 1)})
    return out


def render(body, indent=1, counter=None) -> str:
    counter = counter if counter is not None else [0]
    pad = "    " * indent
    lines = []
    for s in body:
        if s["k"] == "assign":
            lines.append(f"{pad}{s['n']} = 1\n")
        elif s["k"] == "read":
            lines.append(f"{pad}print({s['n']})\n")
        else:
            b = s["b"]
            if b and all(x["k"] == "read" for x in b) and s.get("as") != "def" and len(b) <= 2 and counter[0] % 2 == 1:
                counter[0] += 1
                lines.append(f"{pad}(lambda: ({', '.join(x['n'] for x in b)},))\n")
            else:
                counter[0] += 1
                lines.append(f"{pad}def g{counter[0]}():\n" + render(b, indent + 1, counter) + f"{pad}    return None\n")
    return "".join(lines)


def program(body) -> str:
    return "def f():\n" + render(body) + "    return None\n"


def parse_back(code: str):
    """the body of `f` in the model's terms"""
    def stmts(block):
        out = []
        for st in block.body:
            if isinstance(st, cst.FunctionDef):
                out.append({"k": "scope", "b": stmts(st.body)})
                continue
            for small in st.body:
                if isinstance(small, cst.Assign):
                    out.append({"k": "assign", "n": small.targets[0].target.value})
                elif isinstance(small, cst.Expr) and isinstance(small.value, cst.Call):
                    out.append({"k": "read", "n": small.value.args[0].value.value})
                elif isinstance(small, cst.Expr) and isinstance(small.value, cst.Lambda):
                    tup = small.value.body
                    out.append({"k": "scope", "b": [{"k": "read", "n": el.value.value} for el in tup.elements]})
        return out
    return stmts(cst.parse_module(code).body[0].body)


def libcst_counts(code: str):
    """per name assigned at the level of `f`: (reads at that level, references from anywhere) as libcst sees them"""
    wrapper = MetadataWrapper(cst.parse_module(code))
    scopes = wrapper.resolve(ScopeProvider)
    fdef = wrapper.module.body[0]
    fscope = scopes[fdef.body.body[0]] if fdef.body.body else None
    own, refs = {}, {}
    for st in fdef.body.body:
        if isinstance(st, cst.SimpleStatementLine) and isinstance(st.body[0], cst.Assign):
            tgt = st.body[0].targets[0].target
            scope = scopes[tgt]
            own[tgt.value] = len(scope.accesses[tgt])
            r = set()
            for asg in scope[tgt.value]:
                r |= set(asg.references)
            refs[tgt.value] = len(r)
    return own, refs


def real_clean(code: str) -> str:
    from codemodder.utils.clean_code import RemoveUnusedVariables

    return RemoveUnusedVariables(CodemodContext()).transform_module(cst.parse_module(code)).code


def strip_render_hints(body):
    return [{"k": s["k"], "n": s["n"]} if s["k"] != "scope" else {"k": "scope", "b": strip_render_hints(s["b"])} for s in body]
