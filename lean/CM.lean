import CM.Model.Exit
import CM.Props.C20
import CM.Driver.Ops
