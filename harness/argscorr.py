"""Correspondence of the shared argument editor (CM.Args) with LibcstResultTransformer.replace_args / add_arg_to_call,
and of the model's call-site ordering rule (wf) with CPython's compile()."""
from __future__ import annotations

import common


def arg_text(a):
    if a["kw"] is not None:
        return f"{a['kw']}={a['val']}"
    return a["star"] + a["val"]      # a bare generator's text carries no parentheses, a parenthesised one's does


def to_model(node_args):
    import libcst as cst
    m = cst.Module([])
    out = []
    for a in node_args:
        out.append({"kw": a.keyword.value if a.keyword else None, "star": a.star, "val": m.code_for_node(a.value),
                    "gen": isinstance(a.value, cst.GeneratorExp) and not a.value.lpar})
    return out


def gen_args(rng, malformed=False):
    kws = ["verify", "timeout", "shell", "a", "b"]
    vals = ["x", "1", "False", "f(y)", "[1, 2]", "'s'"]
    n = rng.randint(0, 5)
    args, seen_kw, seen_ds = [], False, False
    if rng.random() < 0.12:
        # a generator argument: bare as the only argument, with its own parentheses (or wrongly bare) next to others
        g = {"kw": None, "star": "", "val": "u for u in us", "gen": True}
        if rng.random() < 0.6:
            return [g]
        g2 = g if malformed else {"kw": None, "star": "", "val": "(u for u in us)", "gen": False}
        return [g2, {"kw": rng.choice(kws), "star": "", "val": rng.choice(vals), "gen": False}]
    for _ in range(n):
        k = rng.random()
        if malformed:
            kind = rng.choice(["pos", "kw", "star", "dstar"])
        elif seen_ds:
            kind = rng.choice(["kw", "dstar"])
        elif seen_kw:
            kind = rng.choice(["kw", "kw", "star", "dstar"])
        else:
            kind = rng.choice(["pos", "pos", "kw", "star", "dstar"])
        if kind == "pos": args.append({"kw": None, "star": "", "val": rng.choice(vals), "gen": False})
        elif kind == "kw": args.append({"kw": rng.choice(kws), "star": "", "val": rng.choice(vals), "gen": False}); seen_kw = True
        elif kind == "star": args.append({"kw": None, "star": "*", "val": rng.choice(["xs", "f()"]), "gen": False})
        else: args.append({"kw": None, "star": "**", "val": rng.choice(["kw", "d()"]), "gen": False}); seen_kw = seen_ds = True
    return args


def corr(ctx, n_quick=250, n_thorough=2000):
    import libcst as cst
    from codemodder.codemods.libcst_transformer import LibcstResultTransformer, NewArg

    obj = object.__new__(LibcstResultTransformer)
    rng = ctx.rng
    reqs, impls = [], []
    for _ in range(ctx.pick(n_quick, n_thorough)):
        args = gen_args(rng, malformed=rng.random() < 0.15)
        # duplicate keywords and orderings CPython rejects do not parse: keep what libcst can parse
        src = "f(" + ", ".join(arg_text(a) for a in args) + ")"
        try:
            call = cst.parse_expression(src)
        except Exception:
            continue
        spec = [{"name": rng.choice(["verify", "timeout", "shell", "zz"]), "value": rng.choice(["True", "60", "False"]), "add_if_missing": rng.random() < 0.6}
                for _ in range(rng.randint(1, 2))]
        if len({s["name"] for s in spec}) != len(spec):
            continue
        if rng.random() < 0.25:
            name, value = rng.choice(["timeout", "verify"]), rng.choice(["60", "True"])
            new = obj.add_arg_to_call(call, name, value)
            out = to_model(new.args)
            rendered = cst.Module([]).code_for_node(new)
            reqs.append({"op": "add_arg", "args": to_model(call.args), "name": name, "value": value})
            impls.append({"args": out, "rendered": rendered, "src": src})
            continue
        if rng.random() < 0.2:
            # update_call_target, as the codemods use it: the callee swapped, optionally with the old callee as the new first argument
            with_repl = rng.random() < 0.6
            func = rng.choice(["run", None])
            repl = [cst.Arg(call.func), *call.args] if with_repl else None
            new = obj.update_call_target(call, "safe_command", func, replacement_args=repl)
            reqs.append({"op": "call_target", "args": to_model(call.args), "name": "f", "target": "safe_command", "func": func,
                         "replacement": to_model(repl) if repl is not None else None})
            impls.append({"args": to_model(new.args), "rendered": cst.Module([]).code_for_node(new), "src": src, "callee": cst.Module([]).code_for_node(new.func)})
            continue
        new_args = obj.replace_args(call, [NewArg(**s) for s in spec])
        new = call.with_changes(args=new_args)
        twice = obj.replace_args(new, [NewArg(**s) for s in spec])
        upd = obj.update_arg_target(call, new_args)      # what the codemods do with the result
        reqs.append({"op": "replace_args", "args": to_model(call.args), "spec": spec})
        impls.append({"args": to_model(new_args), "twice": to_model(twice), "rendered": cst.Module([]).code_for_node(new), "src": src,
                      "updated": to_model(upd.args), "rendered_updated": cst.Module([]).code_for_node(upd)})
    for rq, im, mo in zip(reqs, impls, common.lean_ask(reqs)):
        def ok(code):
            try:
                compile(code, "x", "eval"); return True
            except SyntaxError as e:
                return "keyword argument repeated" in str(e)   # duplicates are a separate (semantic) compile error
        if rq["op"] == "call_target":
            impl_ans = {"args": im["args"], "callee": im["callee"], "wf_out": ok(im["rendered"]) if ok(im["src"]) else None}
            model_ans = {"args": mo.get("args"), "callee": mo.get("callee"), "wf_out": mo.get("wf_out") if ok(im["src"]) else None}
            changed = im["args"] != rq["args"]
            ctx.corr_case(rq["op"], {k: v for k, v in rq.items() if k != "op"}, impl_ans, model_ans, changed, "call_target" + ("-repl" if rq["replacement"] else "") + ("-paren" if mo.get("args") != mo.get("old_args") else ""))
            yield rq, im, impl_ans
            continue
        impl_ans = {"args": im["args"], "wf_in": ok(im["src"]), "wf_out": ok(im["rendered"])}
        model_ans = {"args": mo["args"], "wf_in": mo["wf_in"], "wf_out": mo["wf_out"]}
        if "twice" in im:
            impl_ans["twice"] = im["twice"]; model_ans["twice"] = mo["twice"]
            impl_ans["updated"] = im["updated"]; model_ans["updated"] = mo["updated"]
            impl_ans["wf_updated"] = ok(im["rendered_updated"]); model_ans["wf_updated"] = mo["wf_updated"]
        changed = im["args"] != rq["args"]
        ctx.corr_case(rq["op"], {k: v for k, v in rq.items() if k != "op"}, impl_ans, model_ans, changed, rq["op"] + ("-changed" if changed else ""))
        yield rq, im, impl_ans
