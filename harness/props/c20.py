"""C20 — exit status. Model CM.Exit; tie = the real CLI over the condition lattice."""
from __future__ import annotations

import itertools
import json
import os
import shutil
from pathlib import Path

import common
import impl

LEAN_TARGETS = ["CM.Props.C20"]
THEOREMS = [
    "CM.Exit.C20_parse_spec",
    "CM.Exit.C20_run_spec",
    "CM.Exit.C20_status_spec",
    "CM.Exit.C20_report_written_zero",
    "CM.Exit.C20_nonzero_no_report",
    "CM.Exit.C20_unwritable_is_2",
]
RULE = (
    "argv built from the token grammar of CM.Exit.Tok (every token sequence up to length 2 around the "
    "directory operand exhaustively, random longer ones) x the condition lattice (directory, sarif, result "
    "file, AI env, output path kinds); each executed through the real codemodder.run in-process (a few as "
    "real subprocesses); non-trivial = distinct (token list, conditions) whose documented status is not "
    "decided by the very first token"
)
ASSUMPTIONS = [
    "argparse is modelled by outcome class of each token (CM.Exit.Tok); option abbreviations are not generated",
    "the semgrep binary is replaced by an empty-result double for these runs (exit status does not depend on it)",
    "an unparsable SARIF file (uncaught JSONDecodeError, interpreter status 1) is outside the documented table and not generated",
]

OK_OPTS = [
    ["--verbose"], ["--dry-run"], ["--no-dry-run"], ["--project-name", "p"], ["--max-workers", "2"],
    ["--path-include", "*.py"], ["--path-exclude", "x/**"], ["--log-format", "json"], ["--output-format", "codetf"],
]
AI_ENVS = [
    {"CODEMODDER_AZURE_OPENAI_API_KEY": "k"},
    {"CODEMODDER_AZURE_OPENAI_ENDPOINT": "https://e.invalid"},
    {"CODEMODDER_AZURE_LLAMA_API_KEY": "k"},
    {"CODEMODDER_AZURE_LLAMA_ENDPOINT": "https://e.invalid"},
    # one of the pair set, the other present but empty (`VAR=$UNSET_SECRET` in CI): still only one of the two is given
    {"CODEMODDER_AZURE_OPENAI_API_KEY": "k", "CODEMODDER_AZURE_OPENAI_ENDPOINT": ""},
    {"CODEMODDER_AZURE_LLAMA_API_KEY": "", "CODEMODDER_AZURE_LLAMA_ENDPOINT": "https://e.invalid"},
]
# configurations in which no client is asked for: nothing set, or a variable present but empty
AI_OK_ENVS = [{}, {}, {"CODEMODDER_AZURE_OPENAI_API_KEY": ""}, {"CODEMODDER_AZURE_LLAMA_ENDPOINT": ""},
              {"CODEMODDER_AZURE_OPENAI_API_KEY": "", "CODEMODDER_AZURE_OPENAI_ENDPOINT": ""}]
SEMGREP_SARIF = {"version": "2.1.0", "runs": [{"tool": {"driver": {"name": "Semgrep OSS"}}, "results": []}]}
CODEQL_SARIF = {"version": "2.1.0", "runs": [{"tool": {"driver": {"name": "CodeQL"}}, "results": []}]}


def concretize(case, root: Path, rng_pick):
    """(tokens, conds) -> argv, env, output path."""
    toks, c = case["toks"], case["conds"]
    proj = root / "proj"
    proj.mkdir()
    (proj / "a.py").write_text("x = 1\n")
    directory = str(proj) if c["dirExists"] else str(root / "no-such-dir")
    argv, out_path = [], None
    first_pos = True
    k = 0
    for t in toks:
        if t == "help": argv += ["--help"]
        elif t == "version": argv += ["--version"]
        elif t == "list": argv += ["--list"]
        elif t == "describe": argv += ["--describe"]
        elif t == "unknownOpt": argv += ["--no-such-flag"]
        elif t == "missingOperand": argv += ["--project-name"]
        elif t == "badChoice": argv += [["--output-format", "xml"], ["--log-format", "yaml"]][k % 2]
        elif t == "badInt": argv += ["--max-workers", "two"]
        elif t == "incl": argv += ["--codemod-include", "pixee:python/use-generator"]
        elif t == "excl": argv += ["--codemod-exclude", "pixee:python/secure-random"]
        elif t == "okOpt": argv += OK_OPTS[(k + case.get("variant", 0)) % len(OK_OPTS)]
        elif t == "positional":
            argv += [directory if first_pos else "extra-operand"]
            first_pos = False
        k += 1
    extra = []
    v = case.get("variant", 0)
    def sarif_file(name, doc):
        (root / name).write_text(json.dumps(doc))
        return str(root / name)
    if c["sarif"] == "missing":
        # a named SARIF file does not exist - alone, after well-formed files of both tools, or first
        lists = [[str(root / "missing.sarif")],
                 [sarif_file("q1.sarif", CODEQL_SARIF), sarif_file("s1.sarif", SEMGREP_SARIF), str(root / "missing.sarif")],
                 [str(root / "missing.sarif"), sarif_file("s1.sarif", SEMGREP_SARIF)]]
        extra += ["--sarif", ",".join(lists[v % 3])]
    elif c["sarif"] == "duplicateTool":
        # two files of one tool - adjacent, or with a file of the other tool in between / before
        S, Q = SEMGREP_SARIF, CODEQL_SARIF
        # ... or one of the two files has a run the detectors cannot read (no driver name) in front of the tool's run
        SM = dict(S, runs=[{"tool": {"driver": {}}, "results": []}] + list(S["runs"]))
        lists = [[("s1", S), ("s2", S)], [("q1", Q), ("s1", S), ("q2", Q)], [("s1", S), ("q1", Q), ("s2", S)], [("q1", Q), ("q2", Q)], [("q1", Q), ("s1", S), ("s2", S)],
                 [("s1", S), ("sm", SM)], [("sm", SM), ("s2", S)]]
        extra += ["--sarif", ",".join(sarif_file(n + ".sarif", d) for n, d in lists[v % 7])]
    elif v % 3 == 1:
        extra += ["--sarif", sarif_file("s1.sarif", SEMGREP_SARIF)]
    elif v % 7 == 2:
        extra += ["--sarif", sarif_file("q1.sarif", CODEQL_SARIF) + "," + sarif_file("s1.sarif", SEMGREP_SARIF)]
    if c["resultFileMissing"]:
        opt = ["--sonar-issues-json", "--sonar-hotspots-json", "--defectdojo-findings-json"][case.get("variant", 0) % 3]
        # a named result file that does not exist: a plain missing path, an empty entry after an existing file (trailing comma),
        # or the empty name alone (an unset shell variable)
        ok_doc = {"--sonar-issues-json": {"issues": []}, "--sonar-hotspots-json": {"hotspots": []}, "--defectdojo-findings-json": {"results": []}}[opt]
        (root / "present.json").write_text(json.dumps(ok_doc))
        value = [str(root / "missing.json"), str(root / "present.json") + ",", "", str(root / "present.json") + "," + str(root / "missing.json")][(case.get("variant", 0) // 3) % 4]
        extra += [f"{opt}={value}"]
    if c["output"] == "writable" and case.get("variant", 0) % 5 == 4:
        # a writable path that is not a regular file (the report goes there; there is nothing to read back)
        out_path = Path("/dev/null")
    elif c["output"] == "writable":
        out_path = root / "out" / "r.codetf"
        out_path.parent.mkdir()
    elif c["output"] == "unwritable":
        kind = case.get("variant", 0) % 3
        if kind == 0:
            out_path = root / "no-such-parent" / "r.codetf"
        elif kind == 1:
            out_path = root / "isdir"
            out_path.mkdir()
        else:
            # the path is fine, the report is not: a command-line argument with a byte that is not UTF-8 (a lone surrogate once
            # decoded) ends up in run.commandLine and cannot be serialised
            out_path = root / "out-unencodable" / "r.codetf"
            out_path.parent.mkdir()
            extra += ["--project-name", "caf\udce9"]
    if out_path is not None:
        extra += ["--output", str(out_path)]
    # the extra (well-formed) options go right after the first token so that they are parsed
    # before a trailing missing-operand token; they are okOpt tokens for the model
    env = {k2: None for e in AI_ENVS for k2 in e}
    if c["aiMisconfigured"]:
        env.update(AI_ENVS[case.get("variant", 0) % len(AI_ENVS)])
    else:
        env.update(AI_OK_ENVS[case.get("variant", 0) % len(AI_OK_ENVS)])
    return argv, extra, env, out_path


def model_tokens(case):
    """Token list the model sees: the extra well-formed options are okOpt tokens placed first."""
    return ["okOpt"] + list(case["toks"])


def execute(case):
    root = common.tmpdir("c20")
    try:
        argv, extra, env, out_path = concretize(case, root, None)
        full = extra + argv
        os.environ["PATH"] = str(common.VERIF / "harness" / "bin") + ":" + os.environ["PATH"]
        if case.get("subprocess"):
            import subprocess, sys
            e2 = dict(os.environ)
            for k, v in env.items():
                if v is None: e2.pop(k, None)
                else: e2[k] = v
            p = subprocess.run([sys.executable, "-c", "import sys; from codemodder.codemodder import main; sys.argv[0]='codemodder'; main()"] + full, env=e2, stdout=subprocess.DEVNULL,
                               stderr=subprocess.DEVNULL, cwd=str(root), timeout=300)
            res = ("exit", p.returncode)
        else:
            cwd = os.getcwd()
            os.chdir(root)
            try:
                res = impl.run_cli(full, env)
            finally:
                os.chdir(cwd)
        written = bool(out_path is not None and out_path.is_file() and impl.read_report(out_path) is not None)
        if out_path is not None and str(out_path) == "/dev/null":
            written = None     # nothing can be read back from the device: only the status is observed
        return {"res": list(res), "written": written, "argv": [a.replace(str(root), "$ROOT") for a in full]}
    finally:
        shutil.rmtree(root, ignore_errors=True)


TOKS = ["help", "version", "list", "describe", "unknownOpt", "missingOperand", "badChoice", "badInt", "incl", "excl",
        "okOpt", "positional"]


def valid_tokens(toks):
    # a missing-operand token must not be followed by a bare word (argparse would take it as the operand)
    for a, b in zip(toks, toks[1:]):
        if a == "missingOperand" and b == "positional":
            return False
    return True


def cases(ctx):
    base = {"dirExists": True, "sarif": "ok", "resultFileMissing": False, "aiMisconfigured": False, "output": "none"}
    out = []
    # (a) exhaustive token sequences of length <= 2, with and without the directory operand, plain conditions
    seqs = [()] + [(a,) for a in TOKS] + [(a, b) for a in TOKS for b in TOKS]
    n = 0
    for s in seqs:
        for withdir in ([], ["positional"]):
            for place in (0, 1):
                toks = (withdir + list(s)) if place == 0 else (list(s) + withdir)
                if place == 1 and not withdir:
                    continue
                if not valid_tokens(toks):
                    continue
                n += 1
                out.append({"toks": toks, "conds": dict(base, output="writable"), "variant": n})
    ctx.exhaustive_parts.append(f"token sequences of length <= 2 around the directory operand: {len(out)} argv")
    # (b) exhaustive condition lattice with a plain command line and with one trailing decisive token
    lattice = []
    for d, s, r, a, o in itertools.product([True, False], ["ok", "missing", "duplicateTool"], [False, True],
                                           [False, True], ["none", "writable", "unwritable"]):
        lattice.append({"dirExists": d, "sarif": s, "resultFileMissing": r, "aiMisconfigured": a, "output": o})
    for i, c in enumerate(lattice):
        for dv in range(6):
            out.append({"toks": ["positional"], "conds": c, "variant": i + dv + (ctx.seed % 5)})
    for i, c in enumerate(lattice):
        if i % 4 == ctx.seed % 4:
            out.append({"toks": ["positional", "unknownOpt"], "conds": c, "variant": i})
            out.append({"toks": ["positional", "help"], "conds": c, "variant": i})
    # every way of naming two files of one tool, in every run
    for k in range(7):
        for o in ("none", "writable"):
            out.append({"toks": ["positional"], "conds": dict(base, sarif="duplicateTool", output=o), "variant": k})
    ctx.exhaustive_parts.append(f"condition lattice: {len(lattice)} combinations x 6 concretisations")
    # (c) random longer command lines x random conditions
    for i in range(ctx.pick(60, 600)):
        L = ctx.rng.randint(3, 6)
        toks = [ctx.rng.choice(TOKS + ["okOpt", "okOpt", "positional", "incl", "excl"]) for _ in range(L)]
        if not valid_tokens(toks):
            continue
        out.append({"toks": toks, "conds": ctx.rng.choice(lattice), "variant": ctx.rng.randint(0, 50)})
    # (d) a few real subprocess runs (sys.exit path of main())
    for c in (dict(base), dict(base, output="unwritable"), dict(base, dirExists=False), dict(base, aiMisconfigured=True)):
        out.append({"toks": ["positional"], "conds": c, "variant": 0, "subprocess": True})
    out.append({"toks": ["positional", "badChoice"], "conds": dict(base), "variant": 0, "subprocess": True})
    if not ctx.thorough:
        # quick: all of (b),(d), a seed-dependent third of (a), all of (c)
        a_part = [c for c in out[: n] if True]
        keep = [c for i, c in enumerate(a_part) if i % 3 == ctx.seed % 3]
        out = keep + out[n:]
    return out


def documented(case):
    """Independent Python reading of the property text (the oracle for failing inputs)."""
    toks, c = model_tokens(case), case["conds"]
    seen = []
    for t in toks:
        if t in ("help", "version", "list", "describe"):
            return 0, False
        if t in ("missingOperand", "badChoice", "badInt"):
            return 3, False
        if (t == "incl" and "excl" in seen) or (t == "excl" and "incl" in seen):
            return 3, False
        seen.append(t)
    if toks.count("positional") != 1 or "unknownOpt" in toks:
        return 3, False
    if not c["dirExists"]:
        return 1, False
    if c["sarif"] != "ok" or c["resultFileMissing"]:
        return 1, False
    if c["aiMisconfigured"]:
        return 3, False
    if c["output"] == "unwritable":
        return 2, False
    return 0, c["output"] == "writable"


def corr(ctx):
    cs = cases(ctx)
    reqs = [dict(op="exit_status", toks=model_tokens(c), **c["conds"]) for c in cs]
    model = common.lean_ask(reqs) if ctx.driver_ok else [None] * len(cs)
    got = impl.pool_map(execute, cs)
    for c, m, g in zip(cs, model, got):
        if g[0] != "ok":
            ctx.broke("harness execute", g[1])
            continue
        g = g[1]
        impl_ans = {"status": g["res"][1] if g["res"][0] == "exit" else "uncaught:" + g["res"][1], "written": g["written"]}
        doc_status, doc_written = documented(c)
        if impl_ans["written"] is None:
            impl_ans["written"] = doc_written
        nontrivial = c["toks"][:1] not in (["help"], ["version"], ["list"], ["describe"]) and len(c["toks"]) >= 1
        key = {"toks": c["toks"], "conds": c["conds"]}
        if m is not None:
            ctx.corr_case("exit_status", key, impl_ans, m, nontrivial, branch=f"status={impl_ans['status']}")
        # property oracle on the real code
        ctx.search_case("cli", key, nontrivial)
        bad = None
        if impl_ans["status"] != doc_status:
            bad = f"exit status {impl_ans['status']} but documented {doc_status}"
        elif impl_ans["written"] and impl_ans["status"] != 0:
            bad = f"report written but status {impl_ans['status']}"
        if bad:
            sig = {"kind": "exit-status", "documented": doc_status, "got": impl_ans["status"],
                   "output": c["conds"]["output"]}
            ctx.fail(sig, f"{bad} for argv {g['argv']}", {"case": c, "argv": g["argv"], "impl": impl_ans})

LEVEL_TEXT = (
    "Lean 4 theorems over CM.Exit: for every argument vector (token list) and every combination of run "
    "conditions the model's exit status equals the documented decision list (C20_status_spec), a written report "
    "implies status 0 (C20_report_written_zero). The model is tied to the code on every run by executing the real "
    "CLI over the exhaustive length-<=2 token grammar and the full condition lattice and comparing status and "
    "report-written with the model; each run is also judged by an independent reading of the documented table."
)
LEVEL_NOTE = (
    "Trusted: Lean kernel, axioms propext/Quot.sound only; the harness (token concretisation, in-process run of "
    "codemodder.run, 5 real subprocess runs); argparse modelled by token outcome class; semgrep replaced by an "
    "empty-result double; unparsable SARIF (uncaught exception, status 1) outside the documented table."
)
TECHNIQUE = "Lean 4 proof over hand-written model + exhaustive CLI correspondence"
