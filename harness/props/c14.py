"""C14 — adding a dependency keeps the manifest valid, complete and duplicate-free. Models CM.Deps / CM.Pipeline;
tie = the real writers and PackageStore; search = dependency-adding codemods on generated manifests of the four kinds."""
from __future__ import annotations

import ast
import configparser
import json
import random
import shutil
import tomllib
import uuid
from pathlib import Path

import common
from packaging.utils import canonicalize_name
import e2e
import impl

LEAN_TARGETS = ["CM.Props.C14"]
THEOREMS = [
    "CM.Deps.C14_declared_nothing_added",
    "CM.Deps.C14_canon_examples",
    "CM.Deps.C14_add_then_declared",
    "CM.Deps.C14_second_add_nothing",
    "CM.Deps.C14_req_preserves",
    "CM.Deps.C14_req_each_once",
    "CM.Deps.C14_cfg_preserves",
    "CM.Deps.C14_cfg_each_once",
    "CM.Pipeline.C14_at_most_one_store",
    "CM.Pipeline.C14_no_store_reports",
]
RULE = (
    "canonical names: random spellings (case, runs of - _ .) vs packaging.canonicalize_name; DependencyWriter.add on random stores; "
    "RequirementsTxtWriter.add_to_file and SetupCfgWriter.build_new_lines on generated manifests vs the Lean text surgery; CLI: the "
    "dependency-adding codemods on generated manifests in the four formats (comments, blank lines, markers, extras, -r includes, inline / "
    "multi-line lists, poetry tables, CRLF, missing final newline, whitespace-only file, package already present under another spelling) "
    "with format parsers as oracles, a second run, several manifests at once, and no manifest; non-trivial = distinct manifest text that "
    "gets a requirement added"
)
ASSUMPTIONS = [
    "validity of the result in the manifest's own format is third-party (tomlkit, configparser, libcst for setup.py): judged by parsing the file after the run",
    "chardet's encoding detection in RequirementsTxtParser is not modelled",
]
LEVEL_TEXT = (
    "Lean 4 theorems: requirement names are compared in PEP 503 normal form, so a package declared in any version, case or separator "
    "spelling is never added again (C14_declared_nothing_added) and after one addition a second one adds nothing (C14_second_add_nothing); "
    "the requirements.txt writer keeps every original line (the last one completed with a newline) and appends each new requirement "
    "exactly once (C14_req_preserves, C14_req_each_once); the setup.cfg writer inserts the new lines contiguously and keeps all others "
    "(C14_cfg_preserves); process_dependencies writes at most one manifest (C14_at_most_one_store) and with no manifest the run goes on "
    "and records the failed dependency (C14_no_store_reports). Tied to the code by running PackageStore.has_requirement, "
    "DependencyWriter.add, RequirementsTxtWriter.add_to_file and SetupCfgWriter.build_new_lines on the same inputs as the Driver; the "
    "format-validity clauses are searched through the real CLI with format parsers as oracles."
)
LEVEL_NOTE = (
    "Partial: pyproject.toml (tomlkit) and setup.py (libcst) writers are exercised by the CLI search only. Trusted: Lean kernel (propext, "
    "Quot.sound, Classical.choice). Known findings: setup.cfg first-occurrence index, comma-separated install_requires, CRLF manifests."
)
TECHNIQUE = "Lean 4 proof over manifest text-surgery model + differential correspondence with the real writers + CLI search with format parsers"


def corr(ctx):
    from packaging.requirements import Requirement
    from packaging.utils import canonicalize_name

    from codemodder.dependency import Dependency, License
    from codemodder.dependency_management.base_dependency_writer import DependencyWriter
    from codemodder.dependency_management.requirements_txt_writer import RequirementsTxtWriter
    from codemodder.dependency_management.setupcfg_writer import SetupCfgWriter
    from codemodder.project_analysis.file_parsers.package_store import FileType, PackageStore
    from codemodder.project_analysis.file_parsers.requirements_txt_file_parser import RequirementsTxtParser

    rng = ctx.rng
    base = ["security", "Flask-WTF", "defusedxml", "ruamel.yaml", "a_b", "A--B", "x.y_z", "requests"]
    def spell(n):
        out = ""
        for ch in n:
            if ch in "-_.":
                out += rng.choice(["-", "_", ".", "--", "_."])
            else:
                out += ch.upper() if rng.random() < 0.3 else ch.lower()
        return out
    names = [spell(rng.choice(base)) for _ in range(ctx.pick(200, 1500))]
    mo = common.lean_ask([{"op": "canon", "names": names}])[0]
    for n, m in zip(names, mo["canon"]):
        ctx.corr_case("canon", n, canonicalize_name(n), m, n != m, "canon")

    def dep(s):
        return Dependency(Requirement(s), "d", License("MIT", "u"), "o", "p")

    class W(DependencyWriter):
        def add_to_file(self, dependencies, dry_run=False):
            return None

    reqs, impls = [], []
    for _ in range(ctx.pick(150, 1000)):
        declared = [spell(rng.choice(base)) + rng.choice(["", "==1.0", ">=2"]) for _ in range(rng.randint(0, 4))]
        deps = [spell(rng.choice(base)) + rng.choice(["==1.3.1", ""]) for _ in range(rng.randint(1, 3))]
        store = PackageStore(FileType.REQ_TXT, Path("requirements.txt"), set(declared), [])
        w = W(store, Path("."))
        new = w.add([dep(d) for d in deps])
        im = {"new": [str(d.requirement) for d in new]}
        # the model works on names
        rq = {"op": "deps_add", "declared": [Requirement(d).name for d in declared], "deps": [Requirement(d).name for d in deps]}
        reqs.append((rq, [Requirement(str(d.requirement)).name for d in new]))
    for (rq, im), m in zip(reqs, common.lean_ask([r for r, _ in reqs])):
        ctx.corr_case("deps_add", rq, {"new": im}, {"new": m["new"]}, bool(im), "add-" + ("some" if im else "none"))
        # oracle: a name whose canonical form is declared is not added; others are, once
        cd = {canonicalize_name(x) for x in rq["declared"]}
        exp, seen = [], set(cd)
        for d in rq["deps"]:
            if canonicalize_name(d) not in seen:
                seen.add(canonicalize_name(d)); exp.append(d)
        ctx.search_case("add", rq, bool(exp))
        if im != exp:
            spelling = any(canonicalize_name(d) in cd for d in im)
            ctx.fail({"kind": "already-declared" if spelling else "add-wrong", "spelling": "case" if spelling else ""},
                     f"DependencyWriter.add(declared={rq['declared']}, deps={rq['deps']}) added {im}, expected {exp}", {"request": rq})

    tmp = common.tmpdir("c14")
    reqs, impls, metas = [], [], []
    for _ in range(ctx.pick(150, 1000)):
        lines = []
        for _ in range(rng.randint(0, 5)):
            lines.append(rng.choice(["requests==2.31.0", "flask>=2 # web", "# comment", "", "-r other.txt", "black ; python_version>'3.8'", "pkg[extra]~=1.0", "  indented"]) + "\n")
        if lines and rng.random() < 0.3 and lines[-1] != "\n":
            lines[-1] = lines[-1].rstrip("\n")
        new = [rng.choice(["security==1.3.1", "defusedxml==0.7.1", "flask-wtf==1.2.1"]) for _ in range(rng.randint(1, 2))]
        f = tmp / f"req-{uuid.uuid4().hex}.txt"
        f.write_text("".join(lines), newline="")
        store = PackageStore(FileType.REQ_TXT, f, set(), [])
        try:
            cs = RequirementsTxtWriter(store, tmp).add_to_file([dep(x) for x in new], dry_run=False)
            im = {"lines": f.read_bytes().decode().splitlines(keepends=True), "change_lines": [c.lineNumber for c in cs.changes]} if cs else {"none": True}
            if cs:
                im["clean"] = sorted(RequirementsTxtParser(tmp)._clean_lines(f.read_text().splitlines()))
        except IndexError:
            im = {"raised": True}
        reqs.append({"op": "req_add", "lines": lines, "reqs": new}); impls.append(im); metas.append((lines, new))
    for rq, im, m, (lines, new) in zip(reqs, impls, common.lean_ask(reqs), metas):
        if "clean" in m:
            m = dict(m, clean=sorted(set(m["clean"])))
        ctx.corr_case("req_add", rq, im, m, "lines" in im, "req-" + ("raised" if "raised" in im else "ok"))
        ctx.search_case("req-writer", rq, "lines" in im)
        if "lines" in im:
            out = im["lines"]
            ok = [x.rstrip("\n") for x in out[: len(lines)]] == [x.rstrip("\n") for x in lines] and out[len(lines):] == [x + "\n" for x in new]
            if not ok:
                ctx.fail({"kind": "req-writer-not-append-only"}, "requirements.txt writer altered existing lines or did not append each requirement once", {"request": rq, "impl": im})
    # setup.cfg build_new_lines (newline-separated)
    reqs, impls = [], []
    for _ in range(ctx.pick(100, 600)):
        deps_block = [rng.choice(["requests", "flask>=2", "six", "click"]) for _ in range(rng.randint(1, 3))]
        head = rng.choice([["[metadata]\n", "name = x\n", "\n"], ["[metadata]\n", "requires-dist =\n", "    " + deps_block[-1] + "\n", "\n"], []])
        lines = head + ["[options]\n", "install_requires =\n"] + [f"    {d}\n" for d in deps_block] + rng.choice([[], ["python_requires = >=3.8\n"], ["\n", "[options.extras_require]\n", "dev =\n", "    pytest\n"]])
        if rng.random() < 0.25:
            lines[-1] = lines[-1].rstrip("\n")      # a file without a final newline (its last line may be the last dependency)
        new = [rng.choice(["security==1.3.1", "defusedxml==0.7.1"])]
        store = PackageStore(FileType.SETUP_CFG, tmp / "setup.cfg", set(), [])
        out = SetupCfgWriter(store, tmp).build_new_lines(list(lines), "\n" + "\n".join(deps_block), [dep(x) for x in new])
        reqs.append({"op": "cfg_build", "lines": lines, "last_dep": deps_block[-1], "reqs": new})
        impls.append({"lines": out} if out else {"none": True})
    for rq, im, m in zip(reqs, impls, common.lean_ask(reqs)):
        ctx.corr_case("cfg_build", rq, im, m, "lines" in im, "cfg")
    shutil.rmtree(tmp, ignore_errors=True)


# ------------------------------------------------------------------------------------------ CLI


def parse_reqs(kind, text):
    """requirements declared by a manifest, through the format's own parser; None = does not parse"""
    from packaging.requirements import InvalidRequirement, Requirement
    try:
        if kind == "requirements.txt":
            out = []
            for ln in text.replace("\\\n", " ").splitlines():      # a backslash at the end of a line continues it
                s = ln.split("#")[0].strip()
                if not s or s.startswith("-"):
                    continue
                s = s.split(" --")[0].strip()                     # per-requirement options (--hash=...)
                out.append(canonicalize_name(Requirement(s).name))
            return out
        if kind == "pyproject.toml":
            d = tomllib.loads(text)
            out = [canonicalize_name(Requirement(x).name) for x in d.get("project", {}).get("dependencies", [])]
            out += [canonicalize_name(k) for k in d.get("tool", {}).get("poetry", {}).get("dependencies", {}) if k != "python"]
            return out
        if kind == "setup.cfg":
            c = configparser.ConfigParser()
            c.read_string(text)
            raw = c["options"].get("install_requires", "") if "options" in c else ""
            # setuptools reads install_requires as "list-semi": one requirement per line, or ';'-separated on one line (commas do not separate)
            items = [x.strip() for x in raw.split("\n") if x.strip()] if "\n" in raw.strip() else [x.strip() for x in raw.split(";") if x.strip()]
            return [canonicalize_name(Requirement(x).name) for x in items]
        if kind == "setup.py":
            tree = ast.parse(text)
            for n in ast.walk(tree):
                if isinstance(n, ast.keyword) and n.arg == "install_requires" and isinstance(n.value, ast.List):
                    return [canonicalize_name(Requirement(ast.literal_eval(e)).name) for e in n.value.elts]
            return []
    except (InvalidRequirement, Exception):
        return None


def poetry_entries(text):
    """every dependency entry of a poetry pyproject.toml, by table: {"<table>/<name>": "<constraint as written>"}"""
    try:
        po = tomllib.loads(text).get("tool", {}).get("poetry", {})
    except Exception:
        return {}
    out = {}
    tables = {"dependencies": po.get("dependencies", {}), "dev-dependencies": po.get("dev-dependencies", {})}
    for g, body in (po.get("group") or {}).items():
        tables[f"group.{g}"] = (body or {}).get("dependencies", {})
    for t, deps in tables.items():
        for k, v in (deps or {}).items():
            out[f"{t}/{k}"] = json.dumps(v, sort_keys=True)
    return out


EXTRA_MANIFESTS = {
    "requirements.txt": ["requests==2.31.0\r\nflask>=2\r\n", "requests\ndefusedxml==0.7.1\t# pinned\nflask\n", "defusedxml==0.7.1# pinned\n",
                         "requests\ndefusedxml==0.7.1 \\\n    --hash=sha256:" + "ab" * 32 + "\n", "requests\n\n# trailing comment", "Security==1.0\n", "DEFUSEDXML\nflask_wtf\n", "defusedxml>=0.6 # pinned\n",
                         "black ; python_version > '3.8'\npkg[extra]~=1.0\n", "-r base.txt\n"],
    "pyproject.toml": ['[project]\nname = "x"\nversion = "0.1"\ndependencies = []\n', '[project]\nname = "x"\nversion = "0.1"\ndependencies = [\n  "Defusedxml>=0.1",\n  "requests",\n]\n',
                       '[tool.poetry]\nname = "x"\nversion = "0.1"\n[tool.poetry.dependencies]\npython = "^3.10"\n\n[tool.poetry.group.dev.dependencies]\nmypy = "*"\n',
                       # a type checker and the stub package of the dependency, pinned by the project: the pin stays
                       '[tool.poetry]\nname = "x"\nversion = "0.1"\n[tool.poetry.dependencies]\npython = "^3.10"\nrequests = "^2"\n\n[tool.poetry.group.dev.dependencies]\nmypy = "^1.0"\ntypes-defusedxml = "~0.6"\n',
                       '[tool.poetry]\nname = "x"\nversion = "0.1"\n[tool.poetry.dependencies]\npython = "^3.10"\nmypy = "^1.0"\ntypes-defusedxml = "~0.6"\n'] + [
                       # poetry tables that already declare the package, in the constraint spellings poetry accepts
                       f'[tool.poetry]\nname = "x"\nversion = "0.1"\n\n[tool.poetry.dependencies]\npython = "^3.10"\n{name} = "{spec}"\nrequests = "^2"\n'
                       for name, spec in [("defusedxml", "^0"), ("DefusedXML", "^0"), ("defusedxml", "^0.7"), ("Defusedxml", "^0.7.1"), ("defusedxml", ">=0.7"), ("defusedxml", "~0.7"), ("defusedxml", "0.7.1")]],
    "setup.py": ['from setuptools import setup\nsetup(name="x", install_requires=["requests", "defusedxml"])\n',
                 "from setuptools import setup\nsetup(name='x', python_requires='>=3.8', install_requires=['requests', 'defusedxml'])\n",
                 "from setuptools import setup\nsetup(name='x', install_requires=['requests'])\n", 'from setuptools import setup\nsetup(name="x")\n'],
    "setup.cfg": ["[metadata]\nname = x\nrequires-dist =\n    requests\n\n[options]\ninstall_requires =\n    flask\n    requests\n",
                  "[metadata]\nname = x\n\n[options]\ninstall_requires =\n    requests\n    flask",      # no final newline "[options]\ninstall_requires =\n    requests\n",
                  "[options]\ninstall_requires =\n    Defusedxml\n    requests\n", "[metadata]\nname = x\n"],
}


def cli_case(case):
    seeds = e2e.load_seeds()
    root = common.tmpdir("c14")
    try:
        proj = root / "p"
        cid, pkg = case.get("codemod", "pixee:python/use-defusedxml"), case.get("pkg", "defusedxml")
        files = {"app.py": seeds[cid][0]}
        for kind, text in case["manifests"]:
            files[kind] = text.encode() if isinstance(text, str) else text
        e2e.write_project(proj, files)
        before = e2e.read_tree(proj)
        r1 = e2e.run(proj, ["--codemod-include", cid])
        mid = e2e.read_tree(proj)
        r2 = e2e.run(proj, ["--codemod-include", cid])
        after2 = e2e.read_tree(proj)
        kinds = [k for k, _ in case["manifests"]]
        out = {"rc": [r1["rc"], r2["rc"]], "changed": [k for k in kinds if before[k] != mid[k]], "second_changed": [k for k in kinds if mid[k] != after2[k]],
               "manifests": {}, "desc_notice": None, "app_changed": before["app.py"] != mid["app.py"], "pkg": pkg}
        res = (r1["report"] or {}).get("results", [])
        if res:
            d = res[0]["description"]
            # the two notices of codemodder/dependency.py (build_dependency_notification / build_failed_dependency_notification)
            claims_added, says_failed = "automatically added this dependency" in d, "unable to automatically add" in d
            out["desc_notice"] = "added" if claims_added else ("could not be added" if (says_failed or "could not" in d.lower() or "manually" in d.lower()) else None)
            out["report_manifest_changes"] = [cs["path"] for cs in res[0]["changeset"] if cs["path"] in kinds]
        for k in kinds:
            out["manifests"][k] = {"before": parse_reqs(k, before[k].decode("utf-8", "replace")), "after": parse_reqs(k, mid[k].decode("utf-8", "replace")),
                                   "text_before": before[k].decode("utf-8", "replace"), "text_after": mid[k].decode("utf-8", "replace"),
                                   "crlf_lost": b"\r\n" in before[k] and b"\r\n" not in mid[k] and before[k] != mid[k],
                                   "poetry_before": poetry_entries(before[k].decode("utf-8", "replace")) if k == "pyproject.toml" else {},
                                   "poetry_after": poetry_entries(mid[k].decode("utf-8", "replace")) if k == "pyproject.toml" else {}}
        return out
    finally:
        shutil.rmtree(root, ignore_errors=True)


def search(ctx):
    rng = ctx.rng
    cases = []
    for kind in e2e.MANIFESTS:
        for text in e2e.MANIFESTS[kind] + EXTRA_MANIFESTS[kind]:
            cases.append({"manifests": [(kind, text)]})
    for _ in range(ctx.pick(6, 40)):
        ks = rng.sample(list(e2e.MANIFESTS), rng.randint(2, 4))
        cases.append({"manifests": [(k, rng.choice(e2e.MANIFESTS[k] + EXTRA_MANIFESTS[k])) for k in ks]})
    # the other dependency adders, with their package already declared under spellings PEP 503 identifies
    for cid, pkg, spellings in [("pixee:python/flask-enable-csrf-protection", "flask-wtf", ["Flask_WTF", "flask.wtf>=1.0", "FLASK-WTF", "flask-wtf"]),
                                ("pixee:python/harden-pickle-load", "fickling", ["Fickling", "fickling>=0.1"])]:
        for kind in e2e.MANIFESTS:
            cases.append({"manifests": [(kind, rng.choice(e2e.MANIFESTS[kind]))], "codemod": cid, "pkg": pkg})
        for sp in spellings[: ctx.pick(2, 4)]:
            cases.append({"manifests": [("requirements.txt", f"requests\n{sp}\n")], "codemod": cid, "pkg": pkg})
            cases.append({"manifests": [("pyproject.toml", f'[project]\nname = "x"\nversion = "0.1"\ndependencies = [\n  "{sp}",\n  "requests",\n]\n')], "codemod": cid, "pkg": pkg})
            cases.append({"manifests": [("setup.cfg", f"[options]\ninstall_requires =\n    {sp}\n    requests\n")], "codemod": cid, "pkg": pkg})
    # two or three manifests that could each take the package: exactly one of them gets it
    M = e2e.MANIFESTS
    for ks in [("pyproject.toml", "requirements.txt"), ("requirements.txt", "setup.cfg"), ("setup.py", "requirements.txt"), ("pyproject.toml", "setup.py", "setup.cfg"),
               ("pyproject.toml", "requirements.txt", "setup.cfg")]:
        cases.append({"manifests": [(k, M[k][0]) for k in ks]})
    # a pyproject.toml that cannot take it (no dependency table) in front of manifests that can
    cases.append({"manifests": [("pyproject.toml", '[build-system]\nrequires = ["setuptools"]\n'), ("requirements.txt", "requests\n"), ("setup.cfg", "[options]\ninstall_requires =\n    requests\n")]})
    cases.append({"manifests": []})
    # manifests that parse into a store but cannot be extended: nothing is written, and the report must not claim otherwise
    cases.append({"manifests": [("setup.py", 'from setuptools import setup\n\nREQUIRES = ["requests"]\nsetup(name="x", install_requires=REQUIRES)\n')]})
    cases.append({"manifests": [("pyproject.toml", '[project]\nname = "x"\nversion = "0.1"\ndynamic = ["dependencies"]\n')]})
    cases.append({"manifests": [("pyproject.toml", '[project]\nname = "x"\nversion = "0.1"\ndynamic = ["dependencies"]\n'),
                                ("setup.py", 'from setuptools import setup\n\nREQUIRES = ["requests"]\nsetup(name="x", install_requires=REQUIRES)\n')]})
    # a manifest the parser accepts (chardet) but that is not UTF-8: it cannot be updated and must be left alone
    cases.append({"manifests": [("requirements.txt", "requests\nflask\n".encode("utf-16"))], "expect_untouched": True})
    cases.append({"manifests": [("setup.cfg", "[options]\ninstall_requires =\n    requests>=2\n")]})
    for c, r in zip(cases, impl.pool_map(cli_case, cases)):
        if r[0] != "ok":
            ctx.broke("c14 cli harness", r[1]); continue
        r = r[1]
        kinds = [k for k, _ in c["manifests"]]
        ctx.search_case("cli-manifest", {"manifests": [[k, t if isinstance(t, str) else "<bytes>"] for k, t in c["manifests"]]}, bool(r["changed"]))
        rep = {"case": c, "result": r}
        def fail(kind, what, **sig):
            ctx.fail(dict({"kind": kind, "manifest": (r["changed"] or kinds or ["none"])[0]}, **sig), what + f" (manifests {kinds})", rep)
        if r["rc"] != [["exit", 0], ["exit", 0]]:
            fail("cli-crash", f"CLI failed {r['rc']}"); continue
        if c.get("expect_untouched") and r["changed"]:
            fail("undecodable-manifest-rewritten", f"a manifest that cannot be decoded as UTF-8 was rewritten: {r['manifests'][r['changed'][0]]['text_after'][:80]!r}")
            continue
        if len(r["changed"]) > 1:
            fail("several-manifests-updated", f"more than one manifest updated: {r['changed']}")
        for k in r["changed"]:
            m = r["manifests"][k]
            layout = "comma" if k == "setup.cfg" and "," in (m["text_before"].split("install_requires", 1) + [""])[1].split("\n")[0] else ("crlf" if "\r\n" in m["text_before"] else "")
            if k == "requirements.txt" and "\\\n" in m["text_before"]:
                layout = "backslash-continuation"
            pkg = r["pkg"]
            if k == "setup.cfg" and "requires-dist" in m["text_before"] and pkg in m["text_after"].split("[options]")[0].lower():
                fail("cfg-inserted-in-wrong-section", "setup.cfg: the requirement was inserted under [metadata] requires-dist, not into install_requires", layout="first-occurrence")
                continue
            if m["after"] is None:
                fail("manifest-invalid-after", f"{k} does not parse after the update:\n{m['text_after'][:300]}", layout=layout)
            elif m["before"] is not None:
                lost = [x for x in m["before"] if x not in m["after"]]
                n_new = m["after"].count(pkg) - m["before"].count(pkg)
                if lost:
                    fail("requirement-lost", f"{k}: previously declared requirements {lost} are gone", layout=layout)
                elif n_new != (0 if pkg in m["before"] else 1):
                    present = pkg in m["before"]
                    fail("already-declared" if present else "new-requirement-count", f"{k}: {pkg} now declared {m['after'].count(pkg)} time(s) (before {m['before'].count(pkg)})",
                         layout=layout, spelling="case" if present else "")
            altered = sorted(e for e, v in m["poetry_before"].items() if m["poetry_after"].get(e) != v)
            if altered:
                fail("declared-entry-altered", f"{k}: entries the project declared were changed or removed: " + ", ".join(f"{e}: {m['poetry_before'][e]} -> {m['poetry_after'].get(e)}" for e in altered), layout="poetry")
            if m["crlf_lost"]:
                fail("crlf-manifest-rewritten", f"{k}: CRLF line endings rewritten with LF", layout="crlf")
        if r["second_changed"]:
            k = r["second_changed"][0]
            m = r["manifests"][k]
            layout = "comma" if k == "setup.cfg" and "," in (m["text_before"].split("install_requires", 1) + [""])[1].split("\n")[0] else ""
            ctx.fail({"kind": "second-run-adds", "manifest": k, "layout": layout}, f"a second run modified {r['second_changed']} again", rep)
        if not r["changed"] and r["app_changed"]:
            declared = any(r["pkg"] in (r["manifests"][k]["before"] or []) for k in kinds)
            if not declared and r["desc_notice"] != "could not be added":
                fail("no-manifest-not-reported", f"no manifest was updated and the description does not say so (notice: {r['desc_notice']})")
