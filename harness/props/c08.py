"""C08 — refactoring codemods preserve behaviour. Lifting theorem CM.Pipeline.C08_run_equiv + evaluation-preservation
theorems for the comparison inversion (CM.BoolRw); search = exec-differential over generated closed programs."""
from __future__ import annotations

import itertools
import json
import os
import random
import shutil
import subprocess
import sys

import common
import e2e
import impl
import preccorr

LEAN_TARGETS = ["CM.Props.Lift", "CM.Props.C08", "CM.Props.Prec", "CM.Props.C08Gen", "CM.Props.PrecSem", "CM.Props.PrecSemInv", "CM.Props.C02Scope"]
THEOREMS = [
    "CM.Pipeline.C08_run_equiv",
    "CM.Pipeline.run_preserves",
    "CM.BoolRw.C08_invert_single_total",
    "CM.BoolRw.C08_invert_membership",
    "CM.BoolRw.C08_invert_chain_fails",
    "CM.BoolRw.C08_invert_partial_order_fails",
    "CM.BoolRw.C08_combine_or_same_receiver",
    "CM.BoolRw.C08_combine_regroup_fails",
    "CM.Prec.C08_combine_preserves_wp",
    "CM.Prec.C08_invert_preserves_wp",
    "CM.Prec.C08_walrus_preserves_wp",
    "CM.Prec.C08_combine_old_drops_parentheses",
    "CM.Prec.C08_invert_old_drops_parentheses",
    "CM.Prec.C08_walrus_old_loses_precedence",
    "CM.Prec.C01_walrus_old_bare_tuple",
    "CM.Prec.C08_combine_preserves_value",
    "CM.Prec.C08_combine_and_fold_changes_value",
    "CM.Prec.C08_invert_preserves_value",
    "CM.Generated.gen_inv_eq",
    "CM.Prec.C08_inv_table_from_source",
    "CM.Prec.C08_inv_source_involutive",
    "CM.Prec.C08_invert_source_total",
    "CM.Scope.C08_clean_keeps_effects",
    "CM.Scope.C08_clean_old_drops_effect",
]
RULE = (
    "generated closed deterministic programs per refactoring family (operand kinds, and/or/not nesting and parenthesisation, tuple vs "
    "scalar arguments, chained comparisons, scopes, edge values incl. empty string/tuple, NaN, sets, objects with printing __eq__/__bool__) "
    "for the codemods listed in the property; each program the codemod changes is executed before and after in a subprocess (stdout and "
    "raised exception type compared, the original must be deterministic over two runs); non-trivial = distinct program changed by the codemod"
)
ASSUMPTIONS = [
    "contract Equiv K for each refactoring transformer: validated by executing generated programs, not proved (CPython's evaluation semantics are the oracle)",
    "the Lean evaluator of CM.BoolRw covers the comparison / membership fragment over integers, sets and NaN-like incomparable values",
]
LEVEL_TEXT = (
    "Lean 4 theorems: (lifting) if every codemod keeps each file's observation (output and raised exception type), any sequence on any "
    "project does (C08_run_equiv); (mechanism) over a small-step value model with total orders, partial orders (sets) and incomparable values "
    "(NaN): negating a single ==, !=, <, <=, >, >= comparison equals the inverted operator on totally ordered operands, `not x in y` equals "
    "`x not in y`, and the two shapes the code used to mishandle are proved counter-examples (chained comparisons - now declined by the "
    "code after a fix -, ordering operators on partial orders - a recorded known finding); combining `r.startswith(a) or r.startswith(b)` "
    "into one call with a tuple preserves the value, regrouping `A or (B and c)` does not. The per-transformer contract is validated by "
    "executing generated programs before and after the rewrite."
)
LEVEL_NOTE = (
    "Partial: only the comparison-inversion and call-combination rewrites have a Lean model; the other refactorings are covered by the "
    "exec-differential search. Trusted: Lean kernel (propext, Quot.sound, Classical.choice); CPython as the oracle of behaviour."
)
TECHNIQUE = "Lean 4 proof (lifting + evaluation preservation of comparison inversion / call combination) + exec-differential search"

PRELUDE = '''
class Loud:
    def __init__(self, v): self.v = v
    def __eq__(self, o): print("eq", self.v); return self.v == getattr(o, "v", o)
    def __lt__(self, o): print("lt", self.v); return self.v < getattr(o, "v", o)
    def __le__(self, o): print("le", self.v); return self.v <= getattr(o, "v", o)
    def __bool__(self): print("bool", self.v); return bool(self.v)
    def __hash__(self): return hash(self.v)
def noisy(x):
    print("call", x)
    return x
'''


def fam_invert(rng):
    vals = ["1", "2", "'a'", "'b'", "{1}", "{2}", "{1, 2}", "float('nan')", "None", "True", "[1]", "(1, 2)", "Loud(1)", "Loud(2)"]
    ops = ["==", "!=", "<", "<=", ">", ">=", "in", "not in", "is", "is not"]
    out = []
    for _ in range(60):
        a, b = rng.choice(vals), rng.choice(vals)
        op = rng.choice(ops)
        if op in ("in", "not in"):
            b = rng.choice(["[1, 2]", "{1}", "(1,)", "'ab'", "{'a': 1}"])
        k = rng.random()
        if k < 0.6: expr = f"not a {op} b"
        elif k < 0.75: expr = f"not a {op} b {rng.choice(ops[:6])} c"
        elif k < 0.9: expr = f"not (a {op} b)"
        elif k < 0.95: expr = f"(not a {op} b) and True"
        else: expr = rng.choice([f"(not a {op} b) + 1", f"-(not a {op} b)", f"[not a {op} b][0]", f"(not a {op} b) == (not b {op} a)"])
        out.append(PRELUDE + f"a = {a}\nb = {b}\nc = {rng.choice(vals[:8])}\ntry:\n    print({expr})\nexcept Exception as e:\n    print('EXC', type(e).__name__)\nif {expr}:\n    print('taken')\n")
    return out


def fam_combine(rng, fn):
    recv = ["'xyz'", "'abc'", "''", "'\\\\n tail'", "'\\n tail'"]
    args = ["'x'", "'a'", "''", "('x', 'q')", "('a',)", "pfx", "tup", '"\\n"', 'r"\\n"', "'x'", '"x"']
    out = []
    for _ in range(50):
        r = rng.choice(recv)
        a1, a2, a3 = rng.choice(args), rng.choice(args), rng.choice(args)
        pure = False
        if rng.random() < 0.2:
            pure = True
            # literals with the same text between the quotes but another meaning (raw / plain, either order, inside a tuple)
            pair = rng.choice([['"\\n"', 'r"\\n"'], ['"\\t"', 'r"\\t"'], ['"\\x41b"', 'r"\\x41b"']])   # neither value is a prefix / suffix of the other
            rng.shuffle(pair)
            a1, a2 = pair
            # the receiver matches one of the two literals only
            lit = rng.choice(pair)
            r = f"{lit} + ' tail'" if fn == "startswith" else f"'head ' + {lit}"
            if rng.random() < 0.3: a2 = f"({a2}, 'zz')"
            r += "   # must"
        shape = rng.choice(["{A} or {B}", "{A} or {B} or {C}", "({A} or {B}) and {F}", "{A} or {B} and {F}", "{F} and ({A} or {B})", "{A} or ({B} or {C})",
                            "not ({A} or {B})", "{A} or {B} if {F} else {C}", "{A} or {O}", "{F} and {A} or {B}", "not ({F} or {A} or {B})", "not ({A} or {B} or {F})"])
        if pure:   # shapes outside the recorded regrouping finding, so that a difference is the literals' doing
            shape = rng.choice(["{A} or {B}", "not ({A} or {B})", "{A} or {B} or {A}", "{A} or ({B} or {A})"])
        expr = shape.format(A=f"s.{fn}({a1})", B=f"s.{fn}({a2})", C=f"s.{fn}({a3})", F="flag", O=f"t.{fn}({a2})")
        out.append(f"s = {r}\nt = 'xq'\npfx = 'x'\ntup = ('x', 'z')\nflag = {rng.choice(['True', 'False'])}\ntry:\n    print({expr})\nexcept Exception as e:\n    print('EXC', type(e).__name__)\n")
    return out


def fam_isinstance(rng):
    objs = ["1", "'s'", "b'b'", "None", "[1]", "True"]
    tys = ["int", "str", "bytes", "(int, str)", "list", "bool", "tyalias"]
    out = []
    for _ in range(40):
        o = rng.choice(objs)
        t1, t2, t3 = rng.choice(tys), rng.choice(tys), rng.choice(tys)
        shape = rng.choice(["isinstance(o, A) or isinstance(o, B)", "isinstance(o, A) or isinstance(o, B) or isinstance(o, C)",
                            "isinstance(o, A) or isinstance(o, B) and flag", "(isinstance(o, A) or isinstance(o, B)) and flag", "isinstance(o, A) or isinstance(p, B)"])
        expr = shape.replace("A", t1).replace("B", t2).replace("C", t3)
        out.append(f"o = {o}\np = 2.5\ntyalias = (float, bytes)\nflag = {rng.choice(['True', 'False'])}\ntry:\n    print({expr})\nexcept Exception as e:\n    print('EXC', type(e).__name__)\n")
    return out


def fam_generator(rng):
    out = []
    for _ in range(30):
        fn = rng.choice(["any", "all", "sum", "min", "max", "sorted", "list"])
        elt = rng.choice(["x", "x > 1", "noisy(x)", "noisy(x) > 1", "x * 2"])
        src = rng.choice(["[1, 2, 3]", "range(4)", "[0, 1, 0]", "[3]"])
        extra = rng.choice(["", "", ", 10" if fn == "sum" else "", ", default=0" if fn in ("min", "max") else "", ", key=lambda v: -v" if fn in ("min", "max", "sorted") else ""])
        # the call is the right-hand side of an assignment: as an argument of `print(...)` the codemod leaves it alone
        out.append(PRELUDE + f"try:\n    r = {fn}([{elt} for x in {src}]{extra})\n    print(r)\nexcept Exception as e:\n    print('EXC', type(e).__name__)\n")
    # `any` / `all` over a generator stop at the first decisive element: an element expression with an effect runs fewer times
    out.append(PRELUDE + "r = any([noisy(x) > 1 for x in [1, 2, 3]])\nprint(r)   # must\n")
    out.append(PRELUDE + "r = sum([noisy(x) for x in [1, 2, 3]], 10)\nprint(r)   # must\n")
    return out


def fam_setliteral(rng):
    out = []
    for _ in range(20):
        inner = rng.choice(["[1, 2, 2]", "(1, 2)", "[]", "()", "[noisy(1), noisy(1)]", "['a', 'b']"])
        out.append(PRELUDE + f"s = set({inner})\nprint(sorted(s, key=str), type(s).__name__, len(s))\n")
    return out


def fam_walrus(rng):
    out = []
    # the value is itself a comparison / arithmetic / boolean expression and the test compares the name: inlining must not re-associate
    for rhs, op in [("a < b", "=="), ("a == b", "!="), ("a + b", "=="), ("a or b", "is not"), ("not a", "=="), ("a if b else 0", "==")]:
        out.append("def f(a, b, expected):\n    ok = " + rhs + "\n    if ok " + op + " expected:\n        print('same')\n    else:\n        print('other')\n"
                   + "for args in [(1, 2, True), (3, 2, False), (1, 2, 2), (2, 2, 2), (0, 0, 0), (0, 5, 5), (1, 1, True)]:\n    f(*args)   # must\n")
    for _ in range(25):
        v = rng.choice(["noisy(1)", "noisy(0)", "[]", "'x'", "None"])
        body = rng.choice(["print('yes', val)", "print('yes')\n    val = 5\n    print(val)"])
        tail = rng.choice(["print('after', val)", "print('end')", ""])
        if rng.random() < 0.3:
            a, b = rng.choice(["0", "1", "[]"]), rng.choice(["0", "2", "'x'"])
            out.append(PRELUDE + f"def f(a, b):\n    val = a or b\n    if not val:\n        print('none')\n    else:\n        print('some')\n    val2 = noisy(a) if a else b\n    if val2:\n        print('v2')\nf({a}, {b})\n"
                       + f"def g():\n    val = noisy({a})\n    if val:\n        return lambda: val\n    return lambda: 'no'\ntry:\n    print(g()())\nexcept Exception as e:\n    print('EXC', type(e).__name__)\n")
            continue
        out.append(PRELUDE + f"def f():\n    val = {v}\n    if val:\n        {body.replace(chr(10), chr(10) + '    ')}\n    else:\n        print('no', val)\n    {tail}\nf()\nval = {v}\nif val is not None:\n    print('module', val)\n")
    return out


def fam_fstr(rng):
    out = []
    for _ in range(15):
        s = rng.choice(['f"plain"', "f'x y'", 'f"{{braces}}"', 'f"a" "b"', 'f""', 'f"tab\\t"', 'f"100%"'])
        out.append(f"v = {s}\nprint(repr(v))\n")
    return out


def fam_imports(rng):
    out = []
    mods = ["os", "sys", "json", "re", "math", "collections", "itertools"]
    for _ in range(20):
        ms = rng.sample(mods, rng.randint(2, 4))
        used = rng.sample(ms, rng.randint(1, len(ms)))
        lines = [rng.choice([f"import {m}", f"import {m} as {m}_alias", f"from {m} import *" if False else f"import {m}"]) for m in ms]
        if rng.random() < 0.4:
            lines.insert(0, "from __future__ import annotations")
        if rng.random() < 0.3:
            lines.insert(0, "from __future__ import print_function, division")
        body = [f"print({m}.__name__)" for m in used if f"import {m}" in lines]
        out.append("\n".join(lines) + "\n" + "\n".join(body) + "\nprint(sorted(k for k in globals() if not k.startswith('_'))[:0])\n")
    for _ in range(8):
        # the same import spelled twice (module level and function level, one of them unused); one object under two names
        m, m2 = rng.sample(mods, 2)
        top_used, inner_used = rng.choice([(True, False), (False, True), (True, True)])
        out.append(f"import {m2}\nimport {m}\n" + (f"print({m}.__name__)\n" if top_used else "") +
                   f"def f():\n    import {m}\n" + (f"    return {m}.__name__\n" if inner_used else "    return 1\n") +
                   f"def g():\n    import {m}\n    return {m}.__name__\nprint(f(), g(), {m2}.__name__)\n")
        out.append("import sys\nfrom os.path import join\nimport json\nfrom os.path import join as pjoin, basename\n"
                   "print(join('a', 'b'), pjoin('c', 'd'), basename('x/y'), json.dumps(1), sys.argv[:0])\n")
    return out


def fam_logging(rng):
    out = []
    head = "import logging, sys\nlogging.basicConfig(stream=sys.stdout, level=logging.DEBUG, format='%(levelname)s:%(message)s')\nlog = logging.getLogger('x')\n"
    for _ in range(30):
        v = rng.choice(["'v'", "3", "('a', 'b')", "None", "{'k': 1}", "'%s'", "1.5"])
        call = rng.choice(["logging.info('val %s' % v)", "log.warning('a ' + str(v))", "logging.error('x: ' + name)", "log.info('%s and %s' % (v, v))",
                           "logging.warn('old')", "log.warn('old %s', v)", "logging.info('n=%d' % 3)", "log.debug('pct 100%% ' + name)"])
        out.append(head + f"v = {v}\nname = 'nm'\ntry:\n    {call}\nexcept Exception as e:\n    print('EXC', type(e).__name__)\n")
    return out


def fam_misc(rng):
    out = []
    for _ in range(12):
        o = rng.choice(["len", "3", "Loud(1)", "C()", "D()", "lambda: 1"])
        out.append(PRELUDE + f"class C:\n    def __call__(self): return 1\nclass D:\n    pass\nd = D()\nd.__call__ = lambda: 2\nobj = {o}\nprint(hasattr(obj, '__call__'), hasattr(d, '__call__'))\n")
    for _ in range(10):
        out.append("import abc\nclass A(abc.ABC):\n    @abc.abstractproperty\n    def p(self):\n        pass\nclass B(A):\n    p = 3\nprint(B().p)\ntry:\n    A()\nexcept TypeError as e:\n    print('EXC TypeError')\n")
    for _ in range(10):
        mode = rng.choice(["'w'", "'a'"])
        out.append(f"import os, tempfile\nd = tempfile.mkdtemp()\np = os.path.join(d, 'f.txt')\nf = open(p, {mode})\nf.write('hello')\nf.flush()\nprint(open(p).read())\ng = open(p)\ndata = g.read()\nprint(len(data))\n")
    for _ in range(8):
        out.append("import os, tempfile\nd = tempfile.mkdtemp()\np = os.path.join(d, 'f.txt')\nopen(p, 'w').write('l1\\nl2\\nl3\\n')\nh = open(p)\nr = h\nprint(r.readline())\nprint(h.read())\n"
                   + rng.choice(["", "q = open(p)\nz = q\ny = z\nprint(y.readline())\nprint(q.readline())\nprint(z.read())\n"]))
    for _ in range(10):
        out.append("import threading\nlock = threading.Lock()\nwith lock:\n    print('in', lock.locked())\nprint('out', lock.locked())\nwith threading.RLock():\n    print('r')\n")
        # the name the codemod picks for the new lock object must be free everywhere it is put: module level, functions, methods
        kind = rng.choice(["Lock", "RLock", "Condition", "Semaphore"])
        nm = {"Lock": "lock", "RLock": "rlock", "Condition": "condition", "Semaphore": "semaphore"}[kind]
        out.append(f"import threading\n\n\nclass Registry:\n    def register(self, key, {nm}):\n        with threading.{kind}():\n            self.key = key\n        return {nm}\n\n\nprint(Registry().register('k', 'mine'))   # must\n")
        out.append(f"import threading\n\n\ndef run({nm}):\n    with threading.{kind}():\n        pass\n    return {nm}\n\n\nprint(run('mine'))   # must\n")
    for _ in range(8):
        out.append("price = 1\ndef f():\n    global price\n    price = 2\n    print(price)\nf()\nprint(price)\nglobal unused_global\nprint('ok')\n")
    return out


def fam_sql(rng):
    out = []
    head = "import sqlite3\nconn = sqlite3.connect(':memory:')\ncur = conn.cursor()\ncur.execute('CREATE TABLE t (a TEXT, b TEXT)')\ncur.executemany('INSERT INTO t VALUES (?, ?)', [('x', '1'), ('y', '2'), ('it', '3')])\n"
    for _ in range(25):
        v = rng.choice(["'x'", "'y'", "'none'", "'it'"])
        q = rng.choice(["\"SELECT * FROM t WHERE a = '\" + name + \"'\"", "\"SELECT b FROM t WHERE a = '\" + name + \"' AND b = '1'\"",
                        "\"SELECT * FROM t WHERE a = '%s'\" % name", "f\"SELECT * FROM t WHERE a = '{name}'\"",
                        "\"SELECT * FROM t WHERE a = '\" + name + \"' OR a = '\" + other + \"'\""])
        out.append(head + f"name = {v}\nother = 'y'\ncur.execute({q})\nprint(sorted(cur.fetchall()))\n")
    # the clean-up pass of the codemod runs over the whole module: an unused local whose right-hand side has an effect
    for rhs in ["note('ran')", "[note('in list')]", "(yielded := note('walrus'))"]:
        out.append(head + "def note(msg):\n    print('NOTE', msg)\n    return 1\n\n\ndef unrelated():\n    status = " + rhs + "\n    return 5\n\n\n"
                   "def lookup(name):\n    cur.execute(\"SELECT * FROM t WHERE a = '\" + name + \"'\")\n    return sorted(cur.fetchall())\n\n\nprint(unrelated(), lookup('x'))   # must\n")
    return out


FAMILIES = {
    "pixee:python/invert-boolean-check": fam_invert,
    "pixee:python/combine-startswith-endswith": lambda r: fam_combine(r, "startswith") + fam_combine(r, "endswith"),
    "pixee:python/combine-isinstance-issubclass": fam_isinstance,
    "pixee:python/use-generator": fam_generator,
    "pixee:python/use-set-literal": fam_setliteral,
    "pixee:python/use-walrus-if": fam_walrus,
    "pixee:python/remove-unnecessary-f-str": fam_fstr,
    "pixee:python/unused-imports": fam_imports,
    "pixee:python/order-imports": fam_imports,
    "pixee:python/remove-future-imports": fam_imports,
    "pixee:python/lazy-logging": fam_logging,
    "pixee:python/fix-deprecated-logging-warn": fam_logging,
    "pixee:python/fix-hasattr-call": fam_misc,
    "pixee:python/fix-deprecated-abstractproperty": fam_misc,
    "pixee:python/fix-file-resource-leak": fam_misc,
    "pixee:python/bad-lock-with-statement": fam_misc,
    "pixee:python/remove-module-global": fam_misc,
    "pixee:python/sql-parameterization": fam_sql,
}


def depth(e):
    return 1 + max([depth(e[k]) for _, k in preccorr.children(e)] or [0])


def witness(ctx, cid, src, out, in_def=False):
    """a disagreement between the model's tree and the codemod's output: look for operand values under which the two files
    behave differently (that is the property failing on the real code)"""
    if out is None or ctx.prec_witness_budget <= 0:
        return
    ctx.prec_witness_budget -= 1
    rng = random.Random(src)
    body = lambda code: code.replace("    pass\n", "    print('T')\n" + ("    else:\n        print('F')\n" if in_def else "else:\n    print('F')\n"))
    root = common.tmpdir("c08w")
    try:
        for _ in range(30):
            vals = {n: rng.choice(["0", "1", "True", "False", "0", "1", "True", "False", "2", "''", "'a'", "[]", "[1]"]) for n in ("a", "b", "c", "flag", "xy", "d0")}
            pre = (f"class _X: y = {vals['xy']}\nx = _X()\nd = [{vals['d0']}]\na = {vals['a']}\nb = {vals['b']}\nc = {vals['c']}\nflag = {vals['flag']}\n"
                   f"s = {rng.choice(['\'abc\'', '\'bcd\'', '\'xyz\''])}\nt = {rng.choice(['\'abc\'', '\'cab\''])}\n")
            post = "try:\n    f(a, b, c, flag, x, d, s, t)\nexcept Exception as e:\n    print('EXC', type(e).__name__)\n" if in_def else ""
            wrap = (lambda code: pre + body(code) + post) if in_def else (lambda code: pre + "try:\n" + "".join("    " + ln for ln in body(code).splitlines(True)) + "except Exception as e:\n    print('EXC', type(e).__name__)\n")
            o1, o2 = execute(wrap(src), root), execute(wrap(out), root)
            if o1 != o2:
                ctx.fail({"kind": "behaviour-changed", "codemod": cid, "shape": "parenthesised"},
                         f"{cid}: {src!r} => {out!r} behaves differently ({o1[-60:]!r} -> {o2[-60:]!r}) with {vals}",
                         {"codemod": cid, "before": wrap(src), "after": wrap(out), "before_out": o1, "after_out": o2})
                return
    finally:
        shutil.rmtree(root, ignore_errors=True)


def corr(ctx):
    """CM.Prec against libcst (what `WP` means) and against the three real codemods (what they build)"""
    rng = ctx.rng
    ctx.prec_witness_budget = 12
    # 1. WP 0 e  <=>  libcst prints e and parses it back to e
    trees = list(preccorr.small_trees())
    for _ in range(ctx.pick(400, 4000)):
        t = preccorr.gen(rng, rng.randint(1, 4))
        trees.append(t)
        w = preccorr.repair(t)
        trees.append(w)
        b = preccorr.break_one(rng, w)
        if b is not None:
            trees.append(b)
    answers = common.lean_ask([{"op": "prec", "e": t} for t in trees])
    for t, a in zip(trees, answers):
        if "err" in a:
            ctx.broke("prec driver op", str(a)); break
        back, code = preccorr.reparse(t)
        ctx.corr_case("prec_wp", {"tree": t}, {"roundtrip": back == t, "code": code}, {"roundtrip": a["wp"][preccorr.IF_SLOT], "code": a["render"]}, depth(t) >= 2,
                      "wp:" + ("yes" if a["wp"][preccorr.IF_SLOT] else "no") + ":" + preccorr.kind(t))
        # the right-hand side of an assignment: a bare tuple may stand there, a bare `:=` may not
        back2, _ = preccorr.reparse(t, "rhs")
        ctx.corr_case("prec_rhs", {"tree": t}, {"roundtrip": back2 == t}, {"roundtrip": a["rhs_ok"]}, depth(t) >= 2, "rhs:" + ("yes" if a["rhs_ok"] else "no"))
    # 2. the rewrites, through the CLI, on well-parenthesised trees
    def wp_trees(n, **kw):
        out = []
        for _ in range(n):
            out.append(preccorr.repair(preccorr.gen(rng, rng.randint(2, 4), **kw)))
            if rng.random() < 0.5:   # extra, unneeded parentheses stay where they are
                out[-1] = preccorr.repair(preccorr.gen(rng, rng.randint(2, 3), **kw) | {"p": True})
        return out
    n = ctx.pick(150, 1500)
    for cid, field, trees2 in [
        ("pixee:python/combine-startswith-endswith", "combine", wp_trees(n // 3, calls=0.75, kinds=["or", "or", "or", "and", "and", "lnot", "cmp", "ifx", "arith", "neg"]) + [preccorr.gen_combine(rng) for _ in range(n)]),
        ("pixee:python/invert-boolean-check", "invert", wp_trees(n // 3, calls=0.1, kinds=["lnot", "lnot", "lnot", "cmp", "cmp", "cmp", "and", "or", "arith", "neg", "ifx", "chain", "named"]) + [preccorr.gen_invert(rng) for _ in range(n)]),
    ]:
        ans = common.lean_ask([{"op": "prec", "e": t} for t in trees2])
        srcs = [f"if {a['render']}:\n    pass\n" for a in ans]
        outs = preccorr.run_codemod(cid, srcs)
        for t, a, src, out in zip(trees2, ans, srcs, outs):
            got = preccorr.test_of(out)
            want = "failed" if (field == "invert" and a["invert_raises"]) else a[field]
            changed = a[field] != t
            if not ctx.corr_case("prec_" + field, {"source": src}, got, want, changed, field + (":changed" if changed else ":same") + (":raises" if want == "failed" else "")):
                witness(ctx, cid, src, out)
            # the property on the real output: it parses to the tree the model says, and that tree is well parenthesised
            ctx.search_case("rewrite-parse:" + cid, {"source": src}, changed)
            if got == "unparsable":
                ctx.fail({"kind": "rewritten-expression-does-not-parse", "codemod": cid}, f"{cid}: {src!r} => {out!r} does not parse", {"codemod": cid, "before": src, "after": out})
    # 3. use-walrus-if: value x test shape x single / multiple reads
    reqs, srcs = [], []
    for _ in range(ctx.pick(120, 1200)):
        value = preccorr.repair(preccorr.gen(rng, rng.randint(0, 3), calls=0.2, kinds=["or", "and", "lnot", "cmp", "arith", "neg", "ifx", "ifx", "named", "tup"]), preccorr.EXPR_SLOT)
        if rng.random() < 0.2:   # a bare tuple on the right of the assignment
            value = {"k": "tup", "a": preccorr.repair(preccorr.gen(rng, 1, calls=0.2), preccorr.EXPR_SLOT), "b": preccorr.repair(preccorr.gen(rng, 1, calls=0.2), preccorr.EXPR_SLOT), "p": False}
        shape = rng.choice(["name", "not", "not", "cmp", "cmp"])
        test = {"k": shape}
        if shape != "name": test["p"] = rng.random() < 0.2
        if shape == "cmp":
            test["op"] = rng.choice(["is_", "isNot", "eq", "ne"])
            test["rhs"] = preccorr.repair(preccorr.gen(rng, rng.randint(0, 2), calls=0.2, kinds=["arith", "neg", "lnot", "or"]), 7)
        reqs.append({"op": "prec_walrus", "name": "val", "value": value, "single": rng.random() < 0.6, "test": test})
    vals = common.lean_ask([{"op": "prec", "e": r["value"]} for r in reqs])
    rhss = common.lean_ask([{"op": "prec", "e": r["test"].get("rhs", {"k": "atom", "n": "a", "p": False})} for r in reqs])
    for r, v, rh in zip(reqs, vals, rhss):
        t = r["test"]
        tcode = {"name": "val", "not": "not val", "cmp": f"val {preccorr.COP_TEXT[t.get('op', 'eq')]} {rh['render']}"}[t["k"]]
        if t.get("p"): tcode = f"({tcode})"
        srcs.append(f"def f(a, b, c, flag, x, d, s, t):\n    val = {v['render']}\n    if {tcode}:\n        pass\n" + ("" if r["single"] else "    return val\n"))
    ans = common.lean_ask(reqs)
    outs = preccorr.run_codemod("pixee:python/use-walrus-if", srcs)
    for r, a, src, out in zip(reqs, ans, srcs, outs):
        got = preccorr.test_of(out, in_def=True)
        if not ctx.corr_case("prec_walrus", {"source": src}, got, a["out"], True, f"walrus:{r['test']['k']}:{'single' if r['single'] else 'multi'}"):
            witness(ctx, "pixee:python/use-walrus-if", src, out, in_def=True)
        ctx.search_case("rewrite-parse:pixee:python/use-walrus-if", {"source": src}, True)
        if got == "unparsable":
            ctx.fail({"kind": "rewritten-expression-does-not-parse", "codemod": "pixee:python/use-walrus-if"}, f"use-walrus-if: {src!r} => {out!r} does not parse",
                     {"codemod": "pixee:python/use-walrus-if", "before": src, "after": out})

    # 4. what the model calls the *value* of a tree (evalZ over the integers, evalB over names and receivers) against CPython's
    #    evaluation of the code libcst generates for it; the values after `invert` / `combine` come with it
    INTOPS = ["eq", "ne", "lt", "le", "gt", "ge"]
    def gen_z(d):
        if d == 0 or rng.random() < 0.2:
            return {"k": "atom", "n": rng.choice(["a", "b", "c", "flag"]), "p": rng.random() < 0.1}
        k = rng.choice(["neg", "lnot", "lnot", "arith", "and", "or", "cmp", "cmp", "chain", "ifx"])
        p, sub = rng.random() < 0.3, (lambda: gen_z(d - 1))
        if k in ("neg", "lnot"): return {"k": k, "e": sub(), "p": p}
        if k in ("arith", "and", "or"): return {"k": "bin", "op": k, "l": sub(), "r": sub(), "p": p}
        if k == "cmp": return {"k": "cmp", "op": rng.choice(INTOPS), "l": sub(), "r": sub(), "p": p}
        if k == "chain": return {"k": "chain", "l": sub(), "o1": rng.choice(INTOPS), "m": sub(), "o2": rng.choice(INTOPS), "r": sub(), "p": p}
        return {"k": "ifx", "t": sub(), "c": sub(), "f": sub(), "p": p}
    def gen_b(d):
        if d == 0 or rng.random() < 0.25:
            if rng.random() < 0.6:
                return {"k": "call", "r": rng.choice(["s", "t"]), "ps": rng.sample(["'a'", "'b'", "'ab'", "''"], rng.choice([1, 2])), "p": False}
            return {"k": "atom", "n": rng.choice(["a", "b", "flag"]), "p": False}
        k = rng.choice(["lnot", "and", "or", "or", "or", "ifx"])
        p, sub = rng.random() < 0.3, (lambda: gen_b(d - 1))
        if k == "lnot": return {"k": k, "e": sub(), "p": p}
        if k in ("and", "or"): return {"k": "bin", "op": k, "l": sub(), "r": sub(), "p": p}
        return {"k": "ifx", "t": sub(), "c": sub(), "f": sub(), "p": p}
    def unquote(t):
        t = json.loads(json.dumps(t))
        def walk(x):
            if x["k"] == "call": x["ps"] = [q.strip("'") for q in x["ps"]]
            for _, key in preccorr.children(x): walk(x[key])
        walk(t)
        return t
    reqs, exps = [], []
    for _ in range(ctx.pick(300, 3000)):
        t = preccorr.repair(gen_z(rng.randint(1, 4)))
        env = {n: rng.randint(-2, 3) for n in ["a", "b", "c", "flag"]}
        code = preccorr.code_of(preccorr.to_cst(t))
        reqs.append({"op": "prec_eval", "e": t, "ints": [{"n": k, "v": v} for k, v in env.items()], "strs": []})
        exps.append(("z", int(eval(code, {}, dict(env))), code, env))
    for _ in range(ctx.pick(300, 3000)):
        t = preccorr.repair(gen_b(rng.randint(1, 4)))
        env = {n: rng.choice([0, 1]) for n in ["a", "b", "flag"]}
        strs = {"s": rng.choice(["abc", "b", ""]), "t": rng.choice(["ab", "xyz"])}
        code = preccorr.code_of(preccorr.to_cst(t))
        pyenv = {k: bool(v) for k, v in env.items()} | strs
        reqs.append({"op": "prec_eval", "e": unquote(t), "ints": [{"n": k, "v": v} for k, v in env.items()], "strs": [{"n": k, "v": v} for k, v in strs.items()]})
        exps.append(("b", bool(eval(code, {}, pyenv)), code, pyenv))
    for (kind, want, code, env), a in zip(exps, common.lean_ask(reqs)):
        if "err" in a:
            ctx.broke("prec_eval driver op", str(a)); break
        after = a["z_inverted"] if kind == "z" else (a["b_combined"] if not a["and_folds"] else want)
        ctx.corr_case("prec_eval", {"code": code, "env": env}, {"value": want, "after_rewrite": want}, {"value": a[kind], "after_rewrite": after}, True,
                      "eval:" + kind + (":and-fold" if a.get("and_folds") and kind == "b" else ""))

    # 5. the clean-up pass of sql-parameterization (CM.Scope): which right-hand sides with an effect are left, model against the real
    #    `RemoveUnusedVariables`; the property on the real output: none of them is gone
    import scopecorr
    bodies = [scopecorr.gen_body(rng) for _ in range(ctx.pick(120, 1200))]
    bodies.append([{"k": "assign", "n": "a", "eff": True}, {"k": "assign", "n": "b", "eff": False}, {"k": "scope", "b": [{"k": "assign", "n": "v", "eff": True}]}])
    codes = [scopecorr.program(b) for b in bodies]
    inputs = [scopecorr.parse_back(c) for c in codes]
    for b, code, a in zip(inputs, codes, common.lean_ask([{"op": "scope_clean", "body": b} for b in inputs])):
        if "err" in a:
            ctx.broke("scope_clean driver op", str(a)); break
        after = scopecorr.real_clean(code)
        got = scopecorr.effects_of(scopecorr.parse_back(after))
        drops = a["cleaned"] != a["cleaned_no_guard"]
        ctx.corr_case("scope_effects", {"program": code}, {"effects_after": got}, {"effects_after": a["effects_after"]}, bool(a["effects"]),
                      "effects:" + ("none" if not a["effects"] else ("dead-effectful-assignment" if drops else "all-read")))
        if a["effects_after"] != a["effects"]:
            ctx.broke("CM.Scope.C08_clean_keeps_effects instance", code)
        ctx.search_case("clean-up-effects", {"program": code}, bool(a["effects"]))
        if got != a["effects"]:
            ctx.fail({"kind": "behaviour-changed", "codemod": "pixee:python/sql-parameterization", "shape": "clean-up-drops-effect"},
                     f"RemoveUnusedVariables (the clean-up pass of sql-parameterization) removed an assignment whose right-hand side is a call: effects {a['effects']} -> {got}",
                     {"before": code, "after": after})


def execute(code: str, cwd) -> str:
    try:
        p = subprocess.run([sys.executable, "-I", "-c", code], cwd=str(cwd), stdout=subprocess.PIPE, stderr=subprocess.PIPE, timeout=20)
    except subprocess.TimeoutExpired:
        return "TIMEOUT"
    err = p.stderr.decode("utf-8", "replace").strip().splitlines()
    exc = err[-1].split(":")[0] if p.returncode != 0 and err else ""
    return p.stdout.decode("utf-8", "replace") + f"\n#rc={p.returncode} exc={exc}"


def family_case(job):
    cid, progs = job["codemod"], job["programs"]
    root = common.tmpdir("c08")
    try:
        proj = root / "p"
        e2e.write_project(proj, {f"g{i:03d}.py": t for i, t in enumerate(progs)})
        r = e2e.run(proj, ["--codemod-include", cid])
        out = []
        work = root / "work"
        work.mkdir()
        for i, t in enumerate(progs):
            after = (proj / f"g{i:03d}.py").read_text()
            if after == t:
                out.append({"i": i, "changed": False}); continue
            o1, o2 = execute(t, work), execute(t, work)
            if o1 != o2 or "TIMEOUT" in o1:
                out.append({"i": i, "changed": True, "dropped": "nondeterministic"}); continue
            o3 = execute(after, work)
            out.append({"i": i, "changed": True, "same": o1 == o3, "before_out": o1[-300:], "after_out": o3[-300:], "after": after})
        return {"rc": r["rc"], "records": out}
    finally:
        shutil.rmtree(root, ignore_errors=True)


AND_FOLDS: dict = {}


def model_and_folds(progs):
    """for generated combine-startswith-endswith programs: does the model's pass fold through an `and` on the printed expression
    (CM.Prec.andFolds - the one shape in which C08_combine_preserves_value does not apply, i.e. the recorded regrouping finding)"""
    import libcst as cst
    trees = {}
    for p in progs:
        try:
            expr = cst.parse_module(p).body[-1]
            call = expr.body.body[0].body[0].value if isinstance(expr, cst.Try) else None   # try: print(EXPR)
            t = preccorr.from_cst(call.args[0].value) if call is not None else None
        except Exception:
            t = None
        if t is not None:
            trees[p] = t
    if trees:
        for p, a in zip(trees, common.lean_ask([{"op": "prec", "e": t} for t in trees.values()])):
            if "and_folds" in a:
                AND_FOLDS[p] = a["and_folds"]


def classify(cid, prog, rec):
    """shape class of a behaviour change (for known-findings matching)"""
    if prog in AND_FOLDS:
        # decided by the model: the value can only change through the `and`-fold (C08_combine_preserves_value)
        return "mixed-and-or" if AND_FOLDS[prog] else ("name-bound-to-tuple" if any(n in prog.split("print(")[1] for n in ("pfx", "tup")) else "other")
    if cid.endswith("invert-boolean-check"):
        if any(v in prog for v in ("{1}", "{2}", "{1, 2}", "nan", "Loud(")) : return "partial-order-or-custom-operand"
        return "other"
    if cid.endswith("combine-startswith-endswith") or cid.endswith("combine-isinstance-issubclass"):
        expr = prog.split("print(")[1] if "print(" in prog else prog
        if " and " in expr: return "mixed-and-or"
        if any(n in expr for n in ("pfx", "tup", "tyalias")): return "name-bound-to-tuple"
        return "other"
    if cid.endswith("use-generator"):
        return "any-all-short-circuit-skips-effects" if ("noisy" in prog and ("any(" in prog or "all(" in prog)) else "other"
    if cid.endswith("lazy-logging"):
        return "tuple-or-special-operand"
    return "other"


def search(ctx):
    rng = ctx.rng
    jobs = []
    for cid, fam in FAMILIES.items():
        progs = fam(rng)
        progs = list(dict.fromkeys(progs))
        if not ctx.thorough:
            rng.shuffle(progs)
            # programs built to tell one specific mistake apart take part in every run
            must = [p for p in progs if "# must" in p][:5]
            progs = must + [p for p in progs if p not in must][: 18 - len(must)]
        good = []
        for p in progs:
            try:
                compile(p, "x", "exec"); good.append(p)
            except SyntaxError:
                ctx.dropped += 1
        jobs.append({"codemod": cid, "programs": good})
    for j, r in zip(jobs, impl.pool_map(family_case, jobs)):
        if r[0] != "ok":
            ctx.broke("c08 family harness", r[1]); continue
        r = r[1]
        cid = j["codemod"]
        if r["rc"] != ["exit", 0]:
            ctx.fail({"kind": "cli-crash", "codemod": cid}, f"CLI failed {r['rc']}", {"codemod": cid}); continue
        if cid.endswith("combine-startswith-endswith"):
            model_and_folds([j["programs"][rec["i"]] for rec in r["records"] if rec["changed"] and not rec.get("dropped") and not rec["same"]])
            ctx.stat("combine-failures-classified-by-model", len(AND_FOLDS))
        ctx.stat("changed:" + cid, sum(1 for rec in r["records"] if rec["changed"]))
        for rec in r["records"]:
            prog = j["programs"][rec["i"]]
            ctx.search_case("exec:" + cid, {"codemod": cid, "program": prog[-160:]}, rec["changed"])
            if rec.get("dropped"):
                ctx.dropped += 1; continue
            if rec["changed"] and not rec["same"]:
                ctx.fail({"kind": "behaviour-changed", "codemod": cid, "shape": classify(cid, prog, rec)},
                         f"{cid}: the rewritten program behaves differently: {rec['before_out'][-120:]!r} -> {rec['after_out'][-120:]!r}",
                         {"codemod": cid, "before": prog, "after": rec["after"], "before_out": rec["before_out"], "after_out": rec["after_out"]})
