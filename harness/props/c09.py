"""C09 — a multi-codemod run equals running the codemods one at a time. Model CM.Pipeline (batch = foldl applyOne);
tie = framework correspondence for batch and for the one-at-a-time sequence; search = real core codemods pairwise."""
from __future__ import annotations

import json
import random
import shutil

import common
import e2e
import impl
import synth

LEAN_TARGETS = ["CM.Props.C09"]
THEOREMS = [
    "CM.Pipeline.C09_plan_prefilter_irrelevant",
    "CM.Pipeline.C09_applyOne_congr",
    "CM.Pipeline.C09_batch_eq_seq",
    "CM.Pipeline.C09_accs_disjoint",
    "CM.Pipeline.C09_prefilter_full_fails",
    "CM.Pipeline.C15_one_result_per_codemod",
]
RULE = (
    "framework correspondence: random scenarios with 2-4 table-driven codemods (chains where one codemod's output is another's "
    "trigger, shared files, shared manifest, semgrep-detected / SAST / detector-less mixes) run as one batch and one at a time on "
    "the evolving tree, on the real framework and on the Lean model; CLI search: ordered pairs of real core codemods on shared "
    "seeds; non-trivial = distinct scenario in which at least two codemods change something"
)
ASSUMPTIONS = [
    "the single-codemod runs of the sequence share nothing but the tree (fresh process state per run is approximated by fresh "
    "contexts and fresh result-file names in one process)",
]
LEVEL_TEXT = (
    "Lean 4 theorems over CM.Pipeline: the batch run is a left fold of applyOne; the per-codemod accumulators are only touched at the "
    "running codemod's id (C09_accs_disjoint); if every codemod's plan under the batch prefilter equals its plan under its own "
    "prefilter (PrefilterStable - true for detector-less and SAST codemods unconditionally: C09_plan_prefilter_irrelevant), batch and "
    "sequence produce the same world and the same per-codemod results (C09_batch_eq_seq); the hypothesis is necessary "
    "(C09_prefilter_full_fails: a proved counter-example, replayed as a known finding). Tied to the code by executing batch and "
    "sequence on the real framework with synthetic codemods and comparing both with the Lean run; the clause is also searched with "
    "real core codemod pairs."
)
LEVEL_NOTE = (
    "Trusted: Lean kernel (propext, Quot.sound, Classical.choice); harness synthetic codemods and semgrep double (validated against the "
    "real semgrep in the thorough tier). Known findings: semgrep prefilter computed once on the initial tree; DependencyWriter.add "
    "mutates the shared store in dry-run."
)
TECHNIQUE = "Lean 4 proof over hand-written pipeline model + framework correspondence (batch vs sequence) + CLI pair search"


def seq_real(scn, real_semgrep=False):
    """one codemod per invocation on the evolving tree"""
    world = [list(x) for x in scn["world"]]
    results = []
    for c in scn["codemods"]:
        r = synth.run_real(scn, ids=[c["id"]], world=world, real_semgrep=real_semgrep)
        results += r["results"]
        if not scn["dry"]:
            world = [[p, c2 if p not in scn["unparsable"] else dict(scn["world"])[p]] for p, c2 in r["world"]]
        if r["rc"] != ["exit", 0]:
            return {"rc": r["rc"], "world": world, "results": results}
    return {"rc": ["exit", 0], "world": world, "results": results}


def seq_models(scns):
    """model of the one-at-a-time sequence for many scenarios at once (one Driver round per codemod position)"""
    worlds = [[list(x) for x in s["world"]] for s in scns]
    results = [[] for _ in scns]
    for k in range(max(len(s["codemods"]) for s in scns)):
        idx = [i for i, s in enumerate(scns) if k < len(s["codemods"])]
        reqs = []
        for i in idx:
            s, world = scns[i], worlds[i]
            # the store state (declared requirements) is re-read from the manifest text, as a fresh process would
            txt = dict((p, t) for p, t in world)
            s2 = dict(s, stores=[dict(st, declared=[ln.strip() for ln in txt[st["path"]].splitlines()
                                                     if ln.strip() and not ln.strip().startswith("#")]) for st in s["stores"]])
            reqs.append(synth.model_request(s2, ids=[s["codemods"][k]["id"]], world=world))
        for i, ans in zip(idx, common.lean_ask(reqs)):
            results[i] += ans["results"]
            w = dict((p, t) for p, t in ans["world"])
            worlds[i] = [[p, w.get(p, t)] for p, t in worlds[i]]
    return [{"world": w, "results": r} for w, r in zip(worlds, results)]


def one(job):
    scn, real_sg = job
    return {"batch": synth.run_real(scn, real_semgrep=real_sg), "seq": seq_real(scn, real_sg)}


def strip(results):
    return [{k: v for k, v in r.items() if k in ("codemod", "changeset", "failedFiles", "unfixed")} for r in results]


def corr(ctx):
    rng = ctx.rng
    scns = []
    for _ in range(ctx.pick(30, 160)):
        s = synth.gen_scenario(rng, n_codemods=rng.randint(2, 4))
        s["dry"] = rng.random() < 0.15
        if s["stores"] and rng.random() < 0.5:
            # dependency-heavy batches: most codemods need a package, some of them already declared (in the manifest
            # from the start, or by an earlier codemod of the batch), and every codemod has something to rewrite
            present = sorted({ln.split('"')[1].split("_")[0] for p, t in s["world"] if p.endswith(".py") for ln in t.splitlines() if '"' in ln})
            st = s["stores"][0]
            txt = rng.choice(["dep-one\n", "dep-two\nrequests\n", "requests\n", "dep-one\ndep-two\n", "# none\n"])
            s["world"] = [[p, (txt if p == st["path"] else t)] for p, t in s["world"]]
            st["declared"] = [ln.strip() for ln in txt.splitlines() if ln.strip() and not ln.strip().startswith("#")]
            for c in s["codemods"]:
                if rng.random() < 0.8:
                    c["deps"] = [rng.choice(["dep-one", "dep-two", "dep-three"])]
                if present and c["det"] != "sast":
                    c["from"] = rng.choice(present)
                    if c["det"] == "semgrep": c["token"] = c["from"]
                    if c["to"] == c["from"]: c["to"] = "omega"
        scns.append(s)
    # in every run: a package that is already declared (by the manifest, or by an earlier codemod of the batch) followed by a new one
    for variant in range(3):
        s = synth.gen_scenario(rng, n_codemods=3, kinds=("none",))
        s["dry"] = False
        s["path_include"], s["path_exclude"] = [], []
        present = sorted({ln.split('"')[1].split("_")[0] for p, t in s["world"] if p.endswith(".py") for ln in t.splitlines() if '"' in ln}) or ["alpha"]
        s["world"] = [[p, t] for p, t in s["world"] if p != "requirements.txt"] + [["requirements.txt", ["dep-one\n", "requests\n", "dep-one\ndep-two\n"][variant]]]
        s["stores"] = [{"path": "requirements.txt", "declared": [["dep-one"], ["requests"], ["dep-one", "dep-two"]][variant]}]
        froms = rng.sample(present, 3) if len(present) >= 3 else [present[i % len(present)] for i in range(3)]
        for i, (c, deps) in enumerate(zip(s["codemods"], [[["dep-one"], ["dep-two"], ["dep-one"]], [["dep-two"], ["dep-two"], ["dep-three"]], [["dep-two"], ["dep-one"], ["dep-three"]]][variant])):
            c["deps"] = deps
            c["from"] = froms[i]           # distinct tokens: every codemod of the batch has something left to rewrite
            c["to"] = f"omega{i}"
            c["report_only"] = False
        scns.append(s)
    jobs = [(s, False) for s in scns]
    if ctx.thorough:
        jobs += [(s, True) for s in scns[:25]]  # the same scenarios against the real semgrep binary
    reals = impl.pool_map(one, jobs)
    mb = common.lean_ask([synth.model_request(s) for s, _ in jobs])
    mseq = seq_models([s for s, _ in jobs])
    for (s, real_sg), r, m, ms in zip(jobs, reals, mb, mseq):
        if r[0] != "ok":
            ctx.broke("synthetic framework run", r[1]); continue
        r = r[1]
        small = {"codemods": [(c["id"], c["det"], c["from"], c["to"], c["deps"]) for c in s["codemods"]], "dry": s["dry"],
                 "files": [p for p, _ in s["world"]], "real_semgrep": real_sg}
        nchanging = sum(1 for x in r["batch"]["results"] if x["changeset"])
        d1 = synth.compare(r["batch"], m, s) if "err" not in m else [str(m)]
        ctx.corr_case("run-batch", small, {"diffs": d1[:3]}, {"diffs": []}, nchanging >= 2, "batch" + ("-realsg" if real_sg else ""))
        ds = []
        rw = dict((p, c) for p, c in r["seq"]["world"])
        for p, c in ms["world"]:
            if p not in s["unparsable"] and rw.get(p) != c:
                ds.append(f"seq world[{p}] impl {rw.get(p)!r} model {c!r}")
        a = strip(r["seq"]["results"]); b = strip([dict(x) for x in ms["results"]])
        if json.dumps(a, sort_keys=True) != json.dumps(b, sort_keys=True):
            ds.append(f"seq results differ: impl {json.dumps(a)[:300]} model {json.dumps(b)[:300]}")
        ctx.corr_case("run-seq", small, {"diffs": ds[:3]}, {"diffs": []}, nchanging >= 2, "seq")
        # property oracle on the real code: batch == sequence
        ctx.search_case("synthetic-batch-vs-seq", small, nchanging >= 2)
        bw, sw = dict((p, c) for p, c in r["batch"]["world"]), dict((p, c) for p, c in r["seq"]["world"])
        wd = sorted(p for p in bw if bw[p] != sw.get(p) and p not in s["unparsable"])
        rd = json.dumps(strip(r["batch"]["results"]), sort_keys=True) != json.dumps(strip(r["seq"]["results"]), sort_keys=True)
        if wd or rd:
            sem = [c["id"] for c in s["codemods"] if c["det"] == "semgrep"]
            manifest_only = bool(wd) and all(p in [st["path"] for st in s["stores"]] for p in wd) or (not wd and rd and s["dry"])
            cause = "dependency-store" if (manifest_only or (s["dry"] and any(c["deps"] for c in s["codemods"]))) and not (wd and not manifest_only) else ("semgrep-prefilter" if sem else "other")
            ctx.fail({"kind": "batch-vs-seq", "cause": cause, "dry": bool(s["dry"])}, f"batch run != one-at-a-time run: files {wd}, results differ={rd} (codemods {[c['id'] for c in s['codemods']]})",
                     {"scenario": s, "batch": r["batch"]["results"], "seq": r["seq"]["results"]})


PAIR_POOL = ["pixee:python/use-walrus-if", "pixee:python/remove-unnecessary-f-str", "pixee:python/fix-mutable-params", "pixee:python/numpy-nan-equality",
             "pixee:python/fix-assert-tuple", "pixee:python/use-set-literal", "pixee:python/use-generator", "pixee:python/literal-or-new-object-identity",
             "pixee:python/combine-startswith-endswith", "pixee:python/remove-debug-breakpoint", "pixee:python/secure-tempfile", "pixee:python/use-defusedxml",
             "pixee:python/fix-file-resource-leak", "pixee:python/exception-without-raise", "pixee:python/str-concat-in-sequence-literals",
             "pixee:python/timezone-aware-datetime", "pixee:python/https-connection", "pixee:python/sql-parameterization"]
SEMGREP_PAIRS = [("pixee:python/add-requests-timeouts", "pixee:python/url-sandbox"), ("pixee:python/requests-verify", "pixee:python/add-requests-timeouts"),
                 ("pixee:python/secure-random", "pixee:python/limit-readline"), ("pixee:python/harden-pyyaml", "pixee:python/sandbox-process-creation")]


def pair_case(case):
    rng = random.Random(case["seed"])
    seeds = e2e.load_seeds()
    a, b = case["pair"]
    root = common.tmpdir("c09")
    try:
        files = {}
        for i, cid in enumerate([a, b, a, b]):
            pool = seeds.get(cid) or []
            if pool:
                files[f"m{i}.py"] = rng.choice(pool)
        both = rng.choice(seeds.get(a) or [""]) + "\n" + rng.choice(seeds.get(b) or [""])
        try:
            compile(both, "x", "exec")
            if not case.get("disjoint"): files["both.py"] = both
        except SyntaxError:
            pass
        if case.get("manifest"):
            files["requirements.txt"] = "requests\n"
        extra = case.get("extra_files") or {}
        files.update(extra)
        p1, p2 = root / "batch", root / "seq"
        e2e.write_project(p1, files); e2e.write_project(p2, files)
        rb = e2e.run(p1, ["--codemod-include", f"{a},{b}"])
        r1 = e2e.run(p2, ["--codemod-include", a])
        r2 = e2e.run(p2, ["--codemod-include", b])
        tb, ts = e2e.read_tree(p1), e2e.read_tree(p2)
        def res(rep):
            return [{"codemod": x["codemod"], "changeset": x["changeset"], "failedFiles": [f.split("/")[-1] for f in x.get("failedFiles") or []],
                     "unfixed": x.get("unfixedFindings") or []} for x in (rep or {}).get("results", [])]
        batch, seq = res(rb["report"]), res(r1["report"]) + res(r2["report"])
        nch = sum(1 for x in batch if x["changeset"])
        return {"rc": [rb["rc"], r1["rc"], r2["rc"]], "tree_diff": sorted(p for p in tb if tb[p] != ts.get(p)),
                "results_same": json.dumps(batch, sort_keys=True) == json.dumps(seq, sort_keys=True), "nchanging": nch,
                "batch": batch, "seq": seq, "files": files}
    finally:
        shutil.rmtree(root, ignore_errors=True)


def search(ctx):
    rng = ctx.rng
    pairs = [(a, b) for a in PAIR_POOL for b in PAIR_POOL if a != b]
    rng.shuffle(pairs)
    cases = [{"pair": p, "seed": rng.randint(0, 10**9), "manifest": rng.random() < 0.3} for p in pairs[: ctx.pick(14, 150)]]
    cases += [{"pair": p, "seed": rng.randint(0, 10**9)} for p in SEMGREP_PAIRS[: ctx.pick(2, 4)]]
    # the recorded prefilter finding (F-C09-a): replayed on every run
    cases.append({"pair": ("pixee:python/add-requests-timeouts", "pixee:python/url-sandbox"), "seed": 1,
                  "extra_files": {"known.py": 'import requests\nrequests.get("https://example.com").json()\n'}})
    # two manifests that can take a package, one of which already declares what the first codemod needs: where the second codemod's
    # package goes does not depend on what the run did before
    PYP = '[project]\nname = "x"\nversion = "0.1"\ndependencies = [\n    "{}",\n]\n'
    for first, second, declared in [("pixee:python/harden-pickle-load", "pixee:python/use-defusedxml", "fickling"), ("pixee:python/use-defusedxml", "pixee:python/harden-pickle-load", "defusedxml")]:
        cases.append({"pair": (first, second), "seed": rng.randint(0, 10**9), "tag": "declared-in-first-manifest", "disjoint": True,
                      "extra_files": {"pyproject.toml": PYP.format(declared), "requirements.txt": "requests\n"}})
        cases.append({"pair": (first, second), "seed": rng.randint(0, 10**9), "tag": "declared-in-second-manifest", "disjoint": True,
                      "extra_files": {"pyproject.toml": PYP.format("requests"), "requirements.txt": f"requests\n{declared}\n"}})
    # a file no codemod can parse: each codemod of the batch reports it failed, as each separate invocation does
    for pair in [("pixee:python/use-generator", "pixee:python/fix-assert-tuple"), ("pixee:python/numpy-nan-equality", "pixee:python/use-walrus-if")]:
        cases.append({"pair": pair, "seed": rng.randint(0, 10**9), "extra_files": {"legacy.py": 'print "python 2"\n'}, "tag": "unparsable-file"})
    # a manifest that is also a scanned source file: the first codemod's dependency lands in setup.py (shifting its
    # lines), the second codemod has a finding further down in that same file
    SETUP = ('from setuptools import setup\nimport random\nimport subprocess\n\nsetup(\n    name="x",\n    version="0.1",\n    install_requires=[\n        "requests",\n    ],\n)\n\n'
             'token = random.random()\n\n\ndef build(cmd):\n    return subprocess.run(cmd, shell=False)\n')
    for k, (first, second) in enumerate([("pixee:python/use-defusedxml", "pixee:python/secure-random"), ("pixee:python/use-defusedxml", "pixee:python/sandbox-process-creation"),
                          ("pixee:python/harden-pickle-load", "pixee:python/secure-random")][: ctx.pick(2, 3)]):
        cases.append({"pair": (first, second), "seed": rng.randint(0, 10**9), "extra_files": {"setup.py": SETUP}, "tag": "setup-py-manifest", "disjoint": k == 0 or rng.random() < 0.5})
    # the first codemod rewrites setup.py itself, its dependency is then written into setup.py by the manifest writer,
    # and the second codemod rewrites setup.py again: it must start from what is on disk
    SETUP2 = ('import random\nimport xml.etree.ElementTree as ET\nfrom setuptools import setup\n\nsetup(\n    name="x",\n    version="0.1",\n    install_requires=[\n        "requests",\n    ],\n)\n\n'
              'tree = ET.parse("pkg.xml")\nlabel = f"static label"\ntoken = random.random()\n')
    for first, second in [("pixee:python/use-defusedxml", "pixee:python/remove-unnecessary-f-str"), ("pixee:python/use-defusedxml", "pixee:python/secure-random")][: ctx.pick(2, 2)]:
        cases.append({"pair": (first, second), "seed": rng.randint(0, 10**9), "extra_files": {"setup.py": SETUP2}, "tag": "setup-py-rewritten-twice", "disjoint": True})
    # two codemods that need the same package, in a project with two manifests that can both take it
    TWO = {"pyproject.toml": '[project]\nname = "x"\nversion = "0.1"\ndependencies = [\n    "requests",\n]\n', "requirements.txt": "requests\n"}
    cases.append({"pair": ("pixee:python/sandbox-process-creation", "pixee:python/url-sandbox"), "seed": rng.randint(0, 10**9), "extra_files": dict(TWO), "tag": "same-package-two-manifests"})
    from codemodder.codemods.semgrep import SemgrepRuleDetector
    from codemodder.registry import load_registered_codemods
    sg = {c.id for c in load_registered_codemods().codemods if isinstance(c.detector, SemgrepRuleDetector)}
    for c, r in zip(cases, impl.pool_map(pair_case, cases)):
        if r[0] != "ok":
            ctx.broke("c09 pair harness", r[1]); continue
        r = r[1]
        key = {"pair": list(c["pair"]), "seed": c["seed"]}
        ctx.search_case("cli-pairs", key, r["nchanging"] >= 2)
        if any(x != ["exit", 0] for x in r["rc"]):
            ctx.fail({"kind": "cli-crash", "pair": list(c["pair"])}, f"CLI failed {r['rc']}", {"case": c})
        elif r["tree_diff"] or not r["results_same"]:
            cause = "semgrep-prefilter" if c["pair"][1] in sg else "other"
            ctx.fail({"kind": "batch-vs-seq-real", "cause": cause, "first": c["pair"][0], "second": c["pair"][1]},
                     f"{c['pair'][0]} then {c['pair'][1]}: batch != one-at-a-time (files {r['tree_diff']}, results same={r['results_same']})",
                     {"case": c, "files": r["files"], "batch": r["batch"], "seq": r["seq"]})
