"""C12 — no finding lost or altered. Model CM.RS / CM.Readers; tie = real ResultSet objects and readers."""
from __future__ import annotations

import itertools
import json
import uuid
from collections import Counter
from pathlib import Path

import common

LEAN_TARGETS = ["CM.Props.C12", "CM.Props.C12Readers", "CM.Props.C12Detect"]
THEOREMS = [
    "CM.Readers.detectTools_eq_fold",
    "CM.Readers.C12_detect_reads_all",
    "CM.Readers.C12_detect_complete",
    "CM.Readers.C12_detect_duplicate_iff",
    "CM.RS.C12_get_merge",
    "CM.RS.C12_imerge_eq_merge",
    "CM.RS.C12_fold",
    "CM.RS.C12_perm",
    "CM.RS.C12_merge_assoc",
    "CM.RS.C12_length_merge",
    "CM.Readers.C12_read_all",
    "CM.Readers.C12_sonar_reader",
    "CM.Readers.C12_sonar_open_only",
    "CM.Readers.C12_sonar_entry_intact",
    "CM.Readers.C12_semgrep_reader",
    "CM.Readers.C12_dd_reader",
]
RULE = (
    "result sets built with the real add_result from random (rule, files, tag) lists over a 4-rule x 3-file alphabet; "
    "all ordered pairs for | and |=, all permutations of <=3 (quick) / <=4 (thorough) sets through the real accumulation "
    "loops; generated Sonar / SARIF / DefectDojo documents (mostly valid + malformed stream) read by the real readers; "
    "non-trivial = distinct request whose merged/read set is non-empty"
)
ASSUMPTIONS = [
    "json.load and pathlib.Path normalisation are not modelled (paths are generated in normal form)",
    "str.lower() is modelled for ASCII statuses / tool names only",
    "code flows and related locations of SARIF / Sonar results are read but not compared",
]
LEVEL_TEXT = (
    "Lean 4 theorems over CM.RS/CM.Readers: (a|b)[r][f] = a[r][f] ++ b[r][f] for all result sets (C12_get_merge), |= equals |, "
    "any number of files folds to the concatenation and permuting the files permutes the findings (C12_fold, C12_perm); after "
    "reading, results_for_rule_and_file is exactly the reference extraction (C12_read_all) for Sonar (issues+hotspots, open only), "
    "SARIF (all runs/results/locations) and DefectDojo. Tied to the code by running the real ResultSet.__or__/__ior__, add_result, "
    "SonarResultSet.from_json, Semgrep/CodeQLResultSet.from_sarif, DefectDojoResultSet.from_json, detect_sarif_tools and the "
    "process_*_findings accumulation loops on the same inputs as the Lean Driver and comparing the ordered structures; every case is "
    "also judged by an independent multiset-union / reference-extraction oracle."
)
LEVEL_NOTE = (
    "Trusted: Lean kernel (axioms propext, Quot.sound); harness translation of JSON documents into the model's record shapes; "
    "json/pathlib not modelled; detect_sarif_tools' detectors (`semgrep` / `CodeQL` in the driver name) are modelled as they stand in the two classes."
)
TECHNIQUE = "Lean 4 proof over hand-written model + differential correspondence with the real readers/merge"

RULES = ["r1", "python:S5", "a.b.r3", "r4"]
FILES = ["a.py", "b.py", "d/c.py"]


def _classes():
    from codemodder.result import LineInfo, Location, ResultSet, SASTResult

    class L(Location):
        pass

    return LineInfo, L, ResultSet, SASTResult


def build(adds, cls=None):
    LineInfo, L, ResultSet, SASTResult = _classes()
    rs = (cls or ResultSet)()
    for rule, files, tag in adds:
        rs.add_result(
            SASTResult(rule_id=rule, finding_id=str(tag),
                       locations=[L(file=Path(f), start=LineInfo(1), end=LineInfo(1)) for f in files]))
    return rs


def dump_tags(rs):
    return [[rule, [[str(f), [int(r.finding_id) for r in lst]] for f, lst in fm.items()]] for rule, fm in rs.items()]


def dump_payloads(rs):
    def pl(r):
        return {"ruleId": r.rule_id, "findingId": str(r.finding_id),
                "locs": [[str(l.file), l.start.line, l.start.column, l.end.line, l.end.column] for l in r.locations]}
    return [[rule, [[str(f), [pl(r) for r in lst]] for f, lst in fm.items()]] for rule, fm in rs.items()]


def gen_adds(rng, n, tag0=0):
    out = []
    for i in range(n):
        k = rng.choice([1, 1, 1, 2, 2, 3])
        files = [rng.choice(FILES) for _ in range(k)]
        out.append((rng.choice(RULES), files, tag0 + i))
    return out


def counter(struct):
    c = Counter()
    for rule, fm in struct:
        for f, lst in fm:
            for t in lst:
                c[(rule, f, json.dumps(t, sort_keys=True))] += 1
    return c


def guarded(fn):
    try:
        return fn()
    except Exception as e:  # the real code raised
        return {"raised": type(e).__name__}


# ------------------------------------------------------------------------------------------


def corr_merge(ctx):
    rng = ctx.rng
    specs = [[], [("r1", ["a.py"], 0)], [("r1", ["a.py"], 0), ("r1", ["b.py"], 1)], [("r4", ["d/c.py"], 0)]]
    for _ in range(ctx.pick(25, 120)):
        specs.append(gen_adds(rng, rng.randint(0, 6)))
    # rs_add: add_result + lookups
    reqs, impls, metas = [], [], []
    from codemodder.result import ResultSet

    class Ctx0:  # results_for_rule_and_file needs context.directory
        directory = Path("/proj")

    for adds in specs:
        qs = [[r, f] for r in RULES[:3] + ["nope"] for f in FILES[:2] + ["zz.py"]]
        rs = build(adds)
        impls.append({
            "set": dump_tags(rs),
            "answers": [[int(x.finding_id) for x in rs.results_for_rule_and_file(Ctx0, r, Path("/proj") / f)] for r, f in qs],
            "rules": rs.all_rule_ids(),
            "files": [[str(p) for p in rs.files_for_rule(r)] for r, _ in qs],
        })
        reqs.append({"op": "rs_add", "adds": [{"rule": r, "files": fs, "tag": t} for r, fs, t in adds], "queries": qs})
        metas.append(bool(adds))
    models = common.lean_ask(reqs)
    for rq, im, mo, nt in zip(reqs, impls, models, metas):
        ctx.corr_case("rs_add", rq, im, mo, nt, branch="add")
    # pairs
    reqs, impls, keys = [], [], []
    pairs = list(itertools.product(range(len(specs)), repeat=2))
    rng.shuffle(pairs)
    pairs = pairs[: ctx.pick(150, 1500)]
    for i, j in pairs:
        for inplace in (False, True):
            a = build(specs[i])
            b = build([(r, fs, t + 100) for r, fs, t in specs[j]])
            da, db = dump_tags(a), dump_tags(b)

            def go():
                nonlocal a
                if inplace:
                    a0 = a
                    a |= b
                    if a is not a0:
                        return {"set": dump_tags(a), "rebound": True}
                    return {"set": dump_tags(a)}
                return {"set": dump_tags(a | b)}

            im = guarded(go)
            alias = None
            if "set" in im:
                # no-alias: the right operand is untouched, and appending to the merged lists does not reach it
                if dump_tags(b) != db or (not inplace and dump_tags(a) != da):
                    alias = "operand mutated by the merge"
                else:
                    tgt = a if inplace else None
                    if tgt is not None:
                        for fm in tgt.values():
                            for lst in fm.values():
                                lst.append(None)
                        if any(None in lst for fm in b.values() for lst in fm.values()):
                            alias = "merged set shares lists with the right operand"
            reqs.append({"op": "rs_merge", "a": da, "b": db, "inplace": inplace})
            impls.append(im)
            keys.append((da, db, inplace, alias))
    models = common.lean_ask(reqs)
    for rq, im, mo, (da, db, inplace, alias) in zip(reqs, impls, models, keys):
        nt = bool(da) and bool(db)
        shared = {r for r, _ in da} & {r for r, _ in db}
        ctx.corr_case("rs_merge", rq, im, mo, nt, branch=("ior" if inplace else "or") + ("-overlap" if shared else "-disjoint"))
        # property oracle: multiset union, no aliasing
        ctx.search_case("merge", rq, nt)
        form = "|=" if inplace else "|"
        if "set" not in im:
            ctx.fail({"kind": "merge-raises", "form": form, "exc": im.get("raised")},
                     f"ResultSet {form} raises {im.get('raised')}", {"request": rq, "impl": im})
        elif counter(im["set"]) != counter(da) + counter(db):
            lost = (counter(da) + counter(db)) - counter(im["set"])
            extra = counter(im["set"]) - (counter(da) + counter(db))
            ctx.fail({"kind": "merge-not-multiset-union", "form": form, "lost": bool(lost), "extra": bool(extra)},
                     f"ResultSet {form}: findings {'lost' if lost else 'duplicated'}", {"request": rq, "impl": im})
        elif alias:
            ctx.fail({"kind": "merge-alias", "form": form}, f"ResultSet {form}: {alias}", {"request": rq})


def sonar_entry_json(e, hotspot):
    d = {}
    if e.get("rule") is not None:
        d["ruleKey" if hotspot else "rule"] = e["rule"]
    if e.get("status") is not None:
        d["status"] = e["status"]
    if e.get("textRange") is not None:
        sl, so, el, eo = e["textRange"]
        d["textRange"] = {"startLine": sl, "endLine": el, "startOffset": so, "endOffset": eo}
    if e.get("component") is not None:
        d["component"] = e["component"]
    if e.get("key") is not None:
        d["key"] = e["key"]
    d["message"] = "m"
    return d


def sonar_entry_model(e, hotspot):
    return {"rule": None if hotspot else e.get("rule"), "ruleKey": e.get("rule") if hotspot else None,
            "status": e.get("status"), "textRange": e.get("textRange"), "component": e.get("component"), "key": e.get("key")}


def gen_sonar_entry(rng, k, malformed):
    e = {
        "rule": rng.choice(["python:S5", "python:S3984", "pythonsecurity:S5131"]),
        "status": rng.choice(["OPEN", "OPEN", "open", "TO_REVIEW", "RESOLVED", "CLOSED", "REVIEWED", "CONFIRMED"]),
        "textRange": [rng.randint(1, 9), rng.randint(0, 5), rng.randint(1, 9), rng.randint(0, 30)],
        "component": rng.choice(["proj:a.py", "proj:src/b.py", "org:proj:d/c.py"]),
        "key": f"K{k}",
    }
    if rng.random() < 0.15:
        e["textRange"] = None
    if rng.random() < 0.1:
        e["key"] = None
    if malformed:
        which = rng.choice(["nostatus", "norule", "nocolon", "nocomponent", "emptyrule"])
        if which == "nostatus": e["status"] = None
        if which == "norule": e["rule"] = None
        if which == "nocolon": e["rule"] = "S5"
        if which == "emptyrule": e["rule"] = ""
        if which == "nocomponent": e["component"] = None
    return e


def sonar_reference(issues, hotspots):
    """Independent reading of the property: every open finding with a location, intact, once."""
    exp = Counter()
    for e in issues + hotspots:
        if e["status"].lower() in ("open", "to_review") and e.get("textRange"):
            sl, so, el, eo = e["textRange"]
            f = e["component"].split(":")[-1]
            p = {"ruleId": e["rule"], "findingId": e["key"] if e["key"] is not None else e["rule"], "locs": [[f, sl, so, el, eo]]}
            exp[(e["rule"], f, json.dumps(p, sort_keys=True))] += 1
    return exp


def corr_sonar(ctx, tmp):
    from core_codemods.sonar.api import process_sonar_findings
    from core_codemods.sonar.results import SonarResultSet

    rng = ctx.rng
    reqs, impls, metas = [], [], []
    docs = []
    for i in range(ctx.pick(60, 400)):
        malformed = rng.random() < 0.15
        ni, nh = rng.choice([(0, 0), (1, 0), (0, 2), (2, 2), (3, 1), (1, 3)])
        issues = [gen_sonar_entry(rng, f"i{i}-{k}", malformed and rng.random() < 0.4) for k in range(ni)]
        hotspots = [gen_sonar_entry(rng, f"h{i}-{k}", malformed and rng.random() < 0.4) for k in range(nh)]
        shape = rng.choice(["both", "both", "issues-only", "hotspots-only", "null-issues"])
        doc = {}
        if shape in ("both", "issues-only"): doc["issues"] = [sonar_entry_json(e, False) for e in issues]
        else: issues = []
        if shape in ("both", "hotspots-only", "null-issues"): doc["hotspots"] = [sonar_entry_json(e, True) for e in hotspots]
        else: hotspots = []
        if shape == "null-issues": doc["issues"] = None
        p = tmp / f"sonar-{uuid.uuid4().hex}.json"
        p.write_text(json.dumps(doc))
        im = guarded(lambda: {"set": dump_payloads(SonarResultSet.from_json(str(p)))})
        reqs.append({"op": "sonar_read", "issues": [sonar_entry_model(e, False) for e in issues],
                     "hotspots": [sonar_entry_model(e, True) for e in hotspots]})
        impls.append(im)
        wf = all(e["status"] is not None and e["rule"] and ":" in e["rule"] and (e["component"] is not None or not e["textRange"])
                 for e in issues + hotspots)
        metas.append((issues, hotspots, wf, str(p)))
        docs.append((str(p), issues, hotspots, wf))
    models = common.lean_ask(reqs)
    for rq, im, mo, (issues, hotspots, wf, path) in zip(reqs, impls, models, metas):
        nt = bool(im.get("set"))
        ctx.corr_case("sonar_read", rq, im, mo, nt, branch="sonar-wf" if wf else "sonar-malformed")
        if wf:
            ctx.search_case("sonar-doc", rq, nt)
            if "set" not in im or counter(im["set"]) != sonar_reference(issues, hotspots):
                got = counter(im.get("set", []))
                exp = sonar_reference(issues, hotspots)
                ctx.fail({"kind": "sonar-reader", "lost": bool(exp - got), "extra": bool(got - exp),
                          "has_issues": bool(issues), "has_hotspots": bool(hotspots)},
                         "SonarResultSet.from_json != reference extraction (open issues and hotspots with a location)",
                         {"request": rq, "impl": im})
    # accumulation over several files through the real process_sonar_findings, all permutations
    wfdocs = [d for d in docs if d[3] and (d[1] or d[2])]
    groups = []
    for _ in range(ctx.pick(4, 12)):
        groups.append(rng.sample(wfdocs, min(len(wfdocs), ctx.pick(3, 4))))
    fold_reqs, fold_impls, fold_meta = [], [], []
    for g in groups:
        for perm in itertools.permutations(g):
            im = guarded(lambda: {"set": dump_payloads(process_sonar_findings(tuple(p for p, *_ in perm)))})
            exp = Counter()
            for _, issues, hotspots, _ in perm:
                exp += sonar_reference(issues, hotspots)
            ctx.search_case("sonar-accumulate", [p[0][-12:] for p in perm], True)
            if "set" not in im or counter(im["set"]) != exp:
                ctx.fail({"kind": "accumulate", "tool": "sonar"}, "process_sonar_findings over several files loses / duplicates findings",
                         {"files": [json.loads(Path(p).read_text()) for p, *_ in perm], "impl": im})
    ctx.exhaustive_parts.append(f"all permutations of {len(groups)} groups of <={ctx.pick(3,4)} sonar files through process_sonar_findings")


def loc_json(l):
    f, sl, sc, el, ec = l
    return {"physicalLocation": {"artifactLocation": {"uri": f},
                                 "region": {"startLine": sl, "startColumn": sc, "endLine": el, "endColumn": ec, "snippet": {"text": "x"}}}}


def gen_run(rng, i):
    tool = rng.choice(["Semgrep OSS", "semgrep", "CodeQL", "CodeQL", "codeql", "Snyk", None])
    ext = [[f"ext{i}.r{k}" for k in range(rng.randint(1, 2))] for _ in range(rng.randint(0, 2))]
    if tool is None:
        ext = []
    results = []
    for k in range(rng.randint(0, 3)):
        locs = [[rng.choice(FILES), rng.randint(1, 9), rng.randint(1, 9), rng.randint(1, 9), rng.randint(1, 30)]
                for _ in range(rng.choice([1, 1, 2, 0]))]
        r = {"ruleId": rng.choice(["python.lang.r1", "r2", "py/r3"]), "toolIndex": None, "ruleIndex": None, "locs": locs}
        if rng.random() < 0.25:
            r["ruleId"] = None
            r["toolIndex"], r["ruleIndex"] = rng.randint(0, 2), rng.randint(0, 2)
        if rng.random() < 0.05:
            r["ruleId"] = None
        results.append(r)
    return {"toolName": tool, "extRules": ext, "results": results}


def run_json(run):
    d = {"results": []}
    if run["toolName"] is not None:
        d["tool"] = {"driver": {"name": run["toolName"]}, "extensions": [{"rules": [{"id": x} for x in rs]} for rs in run["extRules"]]}
    for r in run["results"]:
        j = {"locations": [loc_json(l) for l in r["locs"]]}
        if r["ruleId"] is not None:
            j["ruleId"] = r["ruleId"]
        if r["toolIndex"] is not None:
            j["rule"] = {"toolComponent": {"index": r["toolIndex"]}, "index": r["ruleIndex"]}
        d["results"].append(j)
    return d


def sarif_reference(runs, kind, truncate):
    exp = Counter()
    for run in runs:
        if kind == "codeql" and not (run["toolName"] and "CodeQL" in run["toolName"]):
            continue
        for r in run["results"]:
            rid = r["ruleId"]
            if not rid:
                rid = run["extRules"][r["toolIndex"]][r["ruleIndex"]]
            elif truncate:
                rid = rid.split(".")[-1]
            p = {"ruleId": rid, "findingId": rid, "locs": [list(l) for l in r["locs"]]}
            for l in r["locs"]:
                exp[(rid, l[0], json.dumps(p, sort_keys=True))] += 1
    return exp


def corr_sarif(ctx, tmp):
    from codemodder.codeql import CodeQLResultSet
    from codemodder.codemods.codeql import process_codeql_findings
    from codemodder.codemods.semgrep import process_semgrep_findings
    from codemodder.sarifs import DuplicateToolError, detect_sarif_tools
    from codemodder.semgrep import SemgrepResultSet

    rng = ctx.rng
    reqs, impls, metas = [], [], []
    files = []
    for i in range(ctx.pick(60, 400)):
        runs = [gen_run(rng, f"{i}{k}") for k in range(rng.choice([1, 1, 2, 3]))]
        p = tmp / f"s-{uuid.uuid4().hex}.sarif"
        p.write_text(json.dumps({"version": "2.1.0", "runs": [run_json(r) for r in runs]}))
        files.append((str(p), runs))
        for kind, cls in (("semgrep", SemgrepResultSet), ("codeql", CodeQLResultSet)):
            trunc = rng.random() < 0.3
            im = guarded(lambda: {"set": dump_payloads(cls.from_sarif(str(p), trunc))})
            if "raised" in im:
                im = {"raised": True}
            reqs.append({"op": "sarif_read", "kind": kind, "truncate": trunc, "runs": runs})
            impls.append(im)
            metas.append((runs, kind, trunc))
    models = common.lean_ask(reqs)
    for rq, im, mo, (runs, kind, trunc) in zip(reqs, impls, models, metas):
        nt = bool(im.get("set"))
        ctx.corr_case("sarif_read", rq, im, mo, nt, branch=f"sarif-{kind}" + ("-raised" if "raised" in im else ""))
        try:
            exp = sarif_reference(runs, kind, trunc)
        except (IndexError, TypeError):
            continue  # malformed document (dangling rule reference): outside the reference
        ctx.search_case("sarif-doc", rq, nt)
        if "set" not in im or counter(im["set"]) != exp:
            ctx.fail({"kind": "sarif-reader", "tool": kind}, f"{kind} SARIF reader != reference extraction", {"request": rq, "impl": im})
    # accumulation through the real process_*_findings for valid files
    valid = []
    for path, runs in files:
        try:
            sarif_reference(runs, "semgrep", False)
            valid.append((path, runs))
        except (IndexError, TypeError):
            pass
    for _ in range(ctx.pick(4, 12)):
        g = rng.sample(valid, min(3, len(valid)))
        for perm in itertools.permutations(g):
            for kind, fn in (("semgrep", process_semgrep_findings), ("codeql", process_codeql_findings)):
                im = guarded(lambda: {"set": dump_payloads(fn(tuple(p for p, _ in perm)))})
                exp = Counter()
                for _, runs in perm:
                    exp += sarif_reference(runs, kind, False)
                ctx.search_case("sarif-accumulate", [kind] + [p[-12:] for p, _ in perm], True)
                if "set" not in im or counter(im["set"]) != exp:
                    ctx.fail({"kind": "accumulate", "tool": kind}, f"process_{kind}_findings over several files loses / duplicates findings",
                             {"files": [json.loads(Path(p).read_text()) for p, _ in perm], "impl": im})
    # detect_sarif_tools
    reqs, impls = [], []
    # files in which one run is malformed (its `tool.driver` has no name, or `tool` has no driver: the detectors raise
    # on it) next to well-formed runs, in either order: a run nobody recognises must not hide its neighbours
    odd = []
    for i in range(ctx.pick(12, 60)):
        good = {"tool": {"driver": {"name": rng.choice(["Semgrep OSS", "CodeQL", "Snyk"])}}, "results": []}
        bad = rng.choice([{"tool": {"driver": {}}, "results": []}, {"tool": {}, "results": []}])
        docs = rng.choice([[bad, good], [good, bad], [bad], [bad, good, bad]])
        p = tmp / f"odd-{uuid.uuid4().hex}.sarif"
        p.write_text(json.dumps({"version": "2.1.0", "runs": docs}))
        odd.append((str(p), [{"toolName": (d["tool"].get("driver") or {}).get("name")} for d in docs]))
    for _ in range(ctx.pick(60, 300)):
        g = rng.sample(files, rng.choice([1, 1, 2, 2, 3]))
        if rng.random() < 0.5:  # bias towards single-run, distinct-tool files so that the non-error branch is frequent
            g = [f for f in g if len(f[1]) == 1][:2] or g[:1]
        if rng.random() < 0.3:
            g = [rng.choice(odd)] + g[:1]
            rng.shuffle(g)
        names = {p: f"f{i}" for i, (p, _) in enumerate(g)}

        def go():
            try:
                m = detect_sarif_tools([Path(p) for p, _ in g])
                return {"map": sorted([k, [names[x] for x in v]] for k, v in m.items())}
            except DuplicateToolError:
                return {"duplicate": True}

        impls.append(guarded(go))
        reqs.append({"op": "detect_tools", "files": [{"name": names[p], "runs": [r["toolName"] for r in runs]} for p, runs in g]})
    models = common.lean_ask(reqs)
    for rq, im, mo in zip(reqs, impls, models):
        # the order of the detectors (entry-point order of the installed metadata) is not part of the contract
        mo = {"map": sorted(mo["map"])} if "map" in mo else {"duplicate": True}
        ctx.corr_case("detect_tools", rq, im, mo, "map" in im and bool(im["map"]), branch="detect-" + ("dup" if "duplicate" in im else "ok"))
        # independent reading of the property: a file is read for a tool when one of its runs names that tool; a second
        # hit for the same tool is refused
        hits = {"semgrep": [], "codeql": []}
        for f in rq["files"]:
            for nm in f["runs"]:
                if isinstance(nm, str) and "semgrep" in nm.lower(): hits["semgrep"].append(f["name"])
                if isinstance(nm, str) and "CodeQL" in nm: hits["codeql"].append(f["name"])
        want = {"duplicate": True} if any(len(v) > 1 for v in hits.values()) else {"map": sorted([k, v] for k, v in hits.items() if v)}
        ctx.search_case("detect-tools", rq, bool(hits["semgrep"] or hits["codeql"]))
        if im != want:
            ctx.fail({"kind": "detect-tools"}, f"detect_sarif_tools on files with runs {[f['runs'] for f in rq['files']]}: got {im}, the runs name {want}", {"request": rq, "impl": im, "expected": want})


def corr_dd(ctx, tmp):
    from core_codemods.defectdojo.api import _process_results
    from core_codemods.defectdojo.results import DefectDojoResultSet

    rng = ctx.rng
    reqs, impls, docs = [], [], []
    for i in range(ctx.pick(30, 150)):
        es = [{"id": rng.randint(1, 500), "title": rng.choice(["python.django.x", "r2"]), "file_path": rng.choice(FILES),
               "line": rng.randint(1, 40)} for _ in range(rng.randint(0, 4))]
        p = tmp / f"dd-{uuid.uuid4().hex}.json"
        p.write_text(json.dumps({"results": es}))
        docs.append((str(p), es))
        impls.append(guarded(lambda: {"set": dump_payloads(DefectDojoResultSet.from_json(str(p)))}))
        reqs.append({"op": "dd_read", "results": es})
    models = common.lean_ask(reqs)

    def ref(es):
        c = Counter()
        for e in es:
            p = {"ruleId": e["title"], "findingId": str(e["id"]), "locs": [[e["file_path"], e["line"], -1, e["line"], -1]]}
            c[(e["title"], e["file_path"], json.dumps(p, sort_keys=True))] += 1
        return c

    for rq, im, mo, (_, es) in zip(reqs, impls, models, docs):
        ctx.corr_case("dd_read", rq, im, mo, bool(es), branch="dd")
        ctx.search_case("dd-doc", rq, bool(es))
        if "set" not in im or counter(im["set"]) != ref(es):
            ctx.fail({"kind": "dd-reader"}, "DefectDojo reader != reference extraction", {"request": rq, "impl": im})
    for _ in range(ctx.pick(3, 10)):
        g = rng.sample(docs, 3)
        for perm in itertools.permutations(g):
            im = guarded(lambda: {"set": dump_payloads(_process_results(tuple(p for p, _ in perm)))})
            exp = Counter()
            for _, es in perm:
                exp += ref(es)
            ctx.search_case("dd-accumulate", [p[-12:] for p, _ in perm], True)
            if "set" not in im or counter(im["set"]) != exp:
                ctx.fail({"kind": "accumulate", "tool": "defectdojo"}, "defectdojo _process_results over several files loses / duplicates findings",
                         {"files": [es for _, es in perm], "impl": im})


def corr_fold(ctx):
    """all permutations of small families through the `acc |= s` loop, model fold and multiset oracle"""
    from codemodder.result import ResultSet

    rng = ctx.rng
    reqs, impls, exps = [], [], []
    n = ctx.pick(3, 4)
    for g in range(ctx.pick(6, 30)):
        fam = [gen_adds(rng, rng.randint(0, 4), tag0=100 * k) for k in range(n)]
        for perm in itertools.permutations(range(n)):
            sets = [build(fam[k]) for k in perm]
            dumps = [dump_tags(s) for s in sets]

            def go():
                acc = ResultSet()
                for s in sets:
                    acc |= s
                return {"set": dump_tags(acc)}

            impls.append(guarded(go))
            reqs.append({"op": "rs_fold", "sets": dumps})
            e = Counter()
            for d in dumps:
                e += counter(d)
            exps.append(e)
    models = common.lean_ask(reqs)
    for rq, im, mo, e in zip(reqs, impls, models, exps):
        ctx.corr_case("rs_fold", rq, im, mo, bool(e), branch="fold")
        ctx.search_case("fold", rq, bool(e))
        if "set" not in im or counter(im["set"]) != e:
            ctx.fail({"kind": "fold-not-multiset-union"}, "`acc |= s` over several result sets is not the multiset union", {"request": rq, "impl": im})
    ctx.exhaustive_parts.append(f"all {n}! orders of each generated family of {n} result sets")


def corr(ctx):
    tmp = common.tmpdir("c12")
    corr_merge(ctx)
    corr_fold(ctx)
    corr_sonar(ctx, tmp)
    corr_sarif(ctx, tmp)
    corr_dd(ctx, tmp)
