"""C02 — rewrites never introduce unbound names or drop bindings still in use. Lifting theorem
CM.Pipeline.C02_run_scope_safe; search = contract ScopeSafe on the program space with a scope-aware analysis."""
from __future__ import annotations

import common
import progspace
import scopecorr
import scopes

LEAN_TARGETS = ["CM.Props.Lift", "CM.Props.C02Scope", "CM.Props.C02Walrus"]
THEOREMS = [
    "CM.Pipeline.run_preserves",
    "CM.Pipeline.C02_run_scope_safe",
    "CM.Pipeline.holds_applyFiles",
    "CM.Pipeline.holds_processDeps",
    "CM.Pipeline.processFile_write_preserves",
    "CM.Scope.clean_scope_safe",
    "CM.Scope.refs_le_libcst",
    "CM.Scope.C02_clean_scope_safe",
    "CM.Scope.C02_clean_scope_safe_python",
    "CM.Scope.C02_clean_old_unbinds_closure_read",
    "CM.Scope.C02_walrus_inline_scope_safe",
    "CM.Scope.C02_walrus_old_inline_unbinds_closure",
]
RULE = (
    "program space of C01 (trigger snippets x context / nesting / layout variants, two-site files, decoy code) for every codemod with "
    "snippets, run through the real CLI; oracle: names read as globals that are bound nowhere at module level and are not builtins "
    "(symtable-based, modules with star imports / exec / globals() are opaque) after the run must be a subset of those before; "
    "non-trivial = distinct program the codemod changed"
)
ASSUMPTIONS = [
    "contract ScopeSafe K for each real transformer (including libcst's Add/RemoveImportsVisitor and the clean-up passes): validated on the program space, not proved",
    "the unresolved-name analysis is conservative (reports only names bound nowhere at module level)",
]
LEVEL_TEXT = (
    "Lean 4 theorem C02_run_scope_safe (instance of the lifting theorem run_preserves over the pipeline model): for any function "
    "`unresolved` from file text to names, if every codemod's transformer only yields texts whose unresolved names were already "
    "unresolved in the original, then after any sequence of codemods on any project - whatever the detectors report, whichever files fail "
    "- no file has a new unresolved name. The pipeline model is tied to the code by the framework correspondence; the per-transformer "
    "contract is validated on the program space with a scope-aware symtable analysis as oracle."
)
LEVEL_TEXT += (
    " Mechanism (CM.Scope): function bodies as assignments, reads and nested scopes; the clean-up pass RemoveUnusedVariables with its "
    "liveness test as the code has it now (reads at the same level, or a non-empty `references` set as libcst attributes it) is proved to "
    "leave no name unresolved that was resolved (C02_clean_scope_safe, via refs_le_libcst: Python's references are among what libcst "
    "attributes); the test as it was before a fix (same-level reads only) is a proved counter-example. Tied to the code by running the "
    "real transformer and libcst's ScopeProvider on generated bodies."
)
LEVEL_NOTE = (
    "Partial: import insertion/removal by libcst's visitors and each transformer's use of them are covered by the contract search only. "
    "Trusted: Lean kernel (propext, Quot.sound, Classical.choice); the symtable-based analyser."
)
TECHNIQUE = "Lean 4 proof (lifting theorem) + framework correspondence + program-space contract search with scope analysis"


def corr(ctx):
    """CM.Scope against libcst's scope analysis and the real RemoveUnusedVariables transformer"""
    rng = ctx.rng
    bodies = [scopecorr.gen_body(rng) for _ in range(ctx.pick(250, 2500))]
    codes = [scopecorr.program(b) for b in bodies]
    inputs = [scopecorr.parse_back(c) for c in codes]      # the rendering decides def / lambda: the model sees what was rendered
    for b, code, a in zip(inputs, codes, common.lean_ask([{"op": "scope_clean", "body": b} for b in inputs])):
        if "err" in a:
            ctx.broke("scope_clean driver op", str(a)); break
        own, refs = scopecorr.libcst_counts(code)
        after = scopecorr.real_clean(code)
        m_own, m_nl = dict(map(tuple, a["own_reads"])), dict(map(tuple, a["nested_libcst"]))
        impl_ans = {"own_reads": own, "alive": {n: own[n] > 0 or refs[n] > 0 for n in own}, "cleaned": scopecorr.parse_back(after)}
        model_ans = {"own_reads": m_own, "alive": {n: m_own[n] + m_nl[n] > 0 for n in m_own}, "cleaned": a["cleaned"]}
        removed = impl_ans["cleaned"] != b
        ctx.corr_case("scope_clean", {"program": code}, impl_ans, model_ans, removed,
                      "scope:" + ("removes" if removed else "keeps") + (":closure-read" if a["cleaned"] != a["cleaned_old"] else ""))
        # the property on the real output: no name of the function became unresolved
        ctx.search_case("clean-up-pass", {"program": code}, removed)
        u0, u1 = scopes.unresolved(code), scopes.unresolved(after)
        if u0 is not None and u1 is not None and not set(u1) <= set(u0):
            ctx.fail({"kind": "new-unresolved-name", "codemod": "RemoveUnusedVariables"},
                     f"RemoveUnusedVariables: the cleaned function reads {sorted(set(u1) - set(u0))} which nothing binds", {"before": code, "after": after})


    # use-walrus-if asks the same question ("is the name read anywhere else?") before it inlines the value: the real codemod's choice
    # (value inlined / walrus kept) against the model's count of own reads + references from enclosed scopes
    import preccorr
    codes = [scopecorr.walrus_program(rng) for _ in range(ctx.pick(80, 600))]
    outs = preccorr.run_codemod("pixee:python/use-walrus-if", codes)
    bodies = [scopecorr.walrus_body(c) for c in codes]
    for code, out, b, a in zip(codes, outs, bodies, common.lean_ask([{"op": "scope_clean", "body": b} for b in bodies])):
        m_own, m_nl = dict(map(tuple, a["own_reads"])), dict(map(tuple, a["nested_libcst"]))
        count = m_own.get("w", 0) + m_nl.get("w", 0)
        want = "inlined" if count == 1 else "walrus"
        got = "failed" if out is None else ("walrus" if ":=" in out else ("inlined" if "if 1:" in out else "unchanged"))
        ctx.corr_case("walrus_single_access", {"program": code}, got, want, True, "walrus:" + want)
        ctx.search_case("walrus-inline", {"program": code}, True)
        if out is not None:
            u0, u1 = scopes.unresolved(code), scopes.unresolved(out)
            if u0 is not None and u1 is not None and not set(u1) <= set(u0):
                ctx.fail({"kind": "new-unresolved-name", "codemod": "pixee:python/use-walrus-if"},
                         f"use-walrus-if: the rewritten function reads {sorted(set(u1) - set(u0))} which nothing binds", {"before": code, "after": out})


def search(ctx):
    res = progspace.run_pass(ctx.tier, ctx.seed)
    for cid, r in sorted(res.items()):
        if "error" in r:
            ctx.broke(f"program-space pass for {cid}", r["error"][-600:]); continue
        for name, rec in r["records"].items():
            u0 = scopes.unresolved(rec["before"])
            if u0 is None:
                ctx.dropped += 1; continue
            changed = rec["after"] != rec["before"]
            ctx.search_case("contract:" + cid, {"codemod": cid, "program": name}, changed)
            if not changed:
                continue
            u1 = scopes.unresolved(rec["after"])
            if u1 is None:
                continue   # does not parse any more: C01's finding, not judged here
            new = sorted(u1 - u0)
            if new:
                ctx.fail({"kind": "new-unresolved-name", "codemod": cid}, f"{cid}: the rewritten file reads {new} which nothing binds (variant {name})",
                         {"codemod": cid, "program": name, "before": rec["before"], "after": rec["after"], "new": new})
