"""C02 — rewrites never introduce unbound names or drop bindings still in use. Lifting theorem
CM.Pipeline.C02_run_scope_safe; search = contract ScopeSafe on the program space with a scope-aware analysis."""
from __future__ import annotations

import common
import progspace
import scopes

LEAN_TARGETS = ["CM.Props.Lift"]
THEOREMS = [
    "CM.Pipeline.run_preserves",
    "CM.Pipeline.C02_run_scope_safe",
    "CM.Pipeline.holds_applyFiles",
    "CM.Pipeline.holds_processDeps",
    "CM.Pipeline.processFile_write_preserves",
]
RULE = (
    "program space of C01 (trigger snippets x context / nesting / layout variants, two-site files, decoy code) for every codemod with "
    "snippets, run through the real CLI; oracle: names read as globals that are bound nowhere at module level and are not builtins "
    "(symtable-based, modules with star imports / exec / globals() are opaque) after the run must be a subset of those before; "
    "non-trivial = distinct program the codemod changed"
)
ASSUMPTIONS = [
    "contract ScopeSafe K for each real transformer (including libcst's Add/RemoveImportsVisitor and the clean-up passes): validated on the program space, not proved",
    "the unresolved-name analysis is conservative (reports only names bound nowhere at module level)",
]
LEVEL_TEXT = (
    "Lean 4 theorem C02_run_scope_safe (instance of the lifting theorem run_preserves over the pipeline model): for any function "
    "`unresolved` from file text to names, if every codemod's transformer only yields texts whose unresolved names were already "
    "unresolved in the original, then after any sequence of codemods on any project - whatever the detectors report, whichever files fail "
    "- no file has a new unresolved name. The pipeline model is tied to the code by the framework correspondence; the per-transformer "
    "contract is validated on the program space with a scope-aware symtable analysis as oracle."
)
LEVEL_NOTE = (
    "Partial: import insertion/removal by libcst's visitors and each transformer's use of them are covered by the contract search only. "
    "Trusted: Lean kernel (propext, Quot.sound, Classical.choice); the symtable-based analyser."
)
TECHNIQUE = "Lean 4 proof (lifting theorem) + framework correspondence + program-space contract search with scope analysis"


def search(ctx):
    res = progspace.run_pass(ctx.tier, ctx.seed)
    for cid, r in sorted(res.items()):
        if "error" in r:
            ctx.broke(f"program-space pass for {cid}", r["error"][-600:]); continue
        for name, rec in r["records"].items():
            u0 = scopes.unresolved(rec["before"])
            if u0 is None:
                ctx.dropped += 1; continue
            changed = rec["after"] != rec["before"]
            ctx.search_case("contract:" + cid, {"codemod": cid, "program": name}, changed)
            if not changed:
                continue
            u1 = scopes.unresolved(rec["after"])
            if u1 is None:
                continue   # does not parse any more: C01's finding, not judged here
            new = sorted(u1 - u0)
            if new:
                ctx.fail({"kind": "new-unresolved-name", "codemod": cid}, f"{cid}: the rewritten file reads {new} which nothing binds (variant {name})",
                         {"codemod": cid, "program": name, "before": rec["before"], "after": rec["after"], "new": new})
