"""C10 — an unprocessable file is left intact, reported, and does not stop the run. Model CM.Pipeline; tie = framework
correspondence with fault tables; search = real core codemods on projects with one bad file at every position."""
from __future__ import annotations

import json
import os
import random
import shutil
import uuid

import common
import e2e
import impl
import synth

LEAN_TARGETS = ["CM.Props.Pipeline"]
THEOREMS = [
    "CM.Pipeline.C10_failed_file",
    "CM.Pipeline.C10_vanished_file",
    "CM.Pipeline.C10_other_files_unaffected",
    "CM.Pipeline.C10_bad_file_untouched",
    "CM.Pipeline.C11_file_outcome_own",
    "CM.Pipeline.C15_failed_xor_changed",
    "CM.Pipeline.C15_one_result_per_codemod",
]
RULE = (
    "framework correspondence: scenarios with unparsable/undecodable files and transformers raising on chosen files, for the three "
    "detector kinds; each faulty run is compared with the Lean run and (oracle) with the run of the same scenario without the bad "
    "file; CLI search: real core codemods on projects of 2-6 files with one bad file (invalid UTF-8, NUL bytes, syntax error, empty "
    "file, BOM, non-UTF-8 coding cookie, file vanishing after listing) at every position; non-trivial = distinct run in which a "
    "file is reported failed"
)
ASSUMPTIONS = [
    "a fault is modelled as 'the transformer chain raised' / 'the file cannot be read'; at which visited node it raises is not modelled "
    "(LibcstTransformerPipeline discards the partially transformed tree)",
    "semgrep reports nothing for files it cannot parse",
]
LEVEL_TEXT = (
    "Lean 4 theorems over CM.Pipeline: a file whose transformation raises or which cannot be read is not written, is listed as failed and "
    "all findings it was selected for become unfixed findings (C10_failed_file, C10_vanished_file); changing what a transformer does "
    "on one file g changes nothing for any other file (C10_other_files_unaffected) and g itself stays byte-identical when it fails "
    "(C10_bad_file_untouched); the report still has one result per codemod. Tied to the code by the framework correspondence with "
    "fault-injecting synthetic transformers and real parse failures; the end-to-end clause (other files and codemods unaffected, valid "
    "report, exit 0) is searched with real codemods and bad files at every position."
)
LEVEL_NOTE = (
    "Trusted: Lean kernel (propext, Quot.sound, Classical.choice); harness synthetic codemods; the regex pipeline (no guard around "
    "decoding) is outside the libcst pipeline model and covered by C19."
)
TECHNIQUE = "Lean 4 proof over hand-written pipeline model + framework correspondence with fault injection + CLI fault enumeration"


def job(scn):
    faulty = synth.run_real(scn)
    # the same scenario without the faults: bad files removed from the project, no transformer raises
    bad = set(scn["unparsable"]) | {p for c in scn["codemods"] for p in c["raise_paths"]}
    unp = set(scn["unparsable"])
    clean = dict(scn, unparsable=[], world=[[p, c] for p, c in scn["world"] if p not in unp],
                 codemods=[dict(c, raise_paths=[], sast=[e for e in c["sast"] if e["path"] not in unp]) for c in scn["codemods"]])
    return {"faulty": faulty, "clean": synth.run_real(clean), "bad": sorted(bad)}


def corr(ctx):
    rng = ctx.rng
    scns = []
    for _ in range(ctx.pick(30, 200)):
        s = synth.gen_scenario(rng, faults=True, deps=False)
        s["dry"] = False
        if not s["unparsable"] and not any(c["raise_paths"] for c in s["codemods"]):
            s["unparsable"] = [rng.choice([p for p, _ in s["world"] if p.endswith(".py")] or ["a.py"])]
        scns.append(s)
    reals = impl.pool_map(job, scns)
    models = common.lean_ask([synth.model_request(s) for s in scns])
    for s, r, m in zip(scns, reals, models):
        if r[0] != "ok":
            ctx.broke("synthetic framework run", r[1]); continue
        r = r[1]
        f, cl, bad = r["faulty"], r["clean"], r["bad"]
        nfailed = sum(len(x["failedFiles"]) for x in f["results"])
        small = {"codemods": [(c["id"], c["det"], c["raise_paths"]) for c in s["codemods"]], "unparsable": s["unparsable"], "files": [p for p, _ in s["world"]]}
        d = synth.compare(f, m, s) if "err" not in m else [str(m)]
        ctx.corr_case("run-faults", small, {"diffs": d[:3], "rc": f["rc"]}, {"diffs": [], "rc": ["exit", 0]}, nfailed > 0, "faults")
        # property oracle: everything but the bad files is as in the fault-free run
        ctx.search_case("synthetic-faults", small, nfailed > 0)
        if f["rc"] != ["exit", 0] or f["report"] is None:
            ctx.fail({"kind": "run-aborted", "where": "synthetic"}, f"run with a bad file ended {f['rc']} / report {'missing' if f['report'] is None else 'ok'}", {"scenario": s})
            continue
        fw, cw = dict((p, c) for p, c in f["world"]), dict((p, c) for p, c in cl["world"])
        orig = dict((p, c) for p, c in s["world"])
        problems = []
        for p in fw:
            if p not in bad and fw[p] != cw.get(p):
                problems.append(f"{p} differs from the fault-free run")
        for spec, a, b in zip(s["codemods"], f["results"], cl["results"]):
            ca = [c for c in a["changeset"] if c["path"] not in bad]
            cb = [c for c in b["changeset"] if c["path"] not in bad]
            if json.dumps(ca, sort_keys=True) != json.dumps(cb, sort_keys=True):
                problems.append(f"{a['codemod']}: changesets of the other files differ from the fault-free run")
            mine = set(spec["raise_paths"]) | set(s["unparsable"])
            if any(x not in mine for x in a["failedFiles"]):
                problems.append(f"{a['codemod']}: a good file is listed as failed {a['failedFiles']}")
            if any(c["path"] in mine for c in a["changeset"]):
                problems.append(f"{a['codemod']}: a changeset for a file on which it failed")
            # every finding the failed file was selected for is reported unfixed (SAST codemods carry finding ids)
            for ent in spec["sast"]:
                if ent["path"] in a["failedFiles"]:
                    want = sorted(x["id"] for x in ent["findings"])
                    got = sorted(u["id"] for u in a["unfixed"] if u["path"] == ent["path"])
                    if want != got:
                        problems.append(f"{a['codemod']}: failed file {ent['path']} has findings {want} but unfixed findings {got}")
        if problems:
            ctx.fail({"kind": "fault-not-isolated", "where": "synthetic"}, "; ".join(problems[:3]), {"scenario": s, "faulty": f["results"], "clean": cl["results"]})


BAD_KINDS = {
    "invalid-utf8": b"x = 1\n\xff\xfe\n",
    "nul": b"x = 1\n\x00\n",
    "syntax-error": b"def (:\n  pass\n",
    "empty": b"",
    "bom": b"\xef\xbb\xbfx = 1\n",
    "latin1-cookie": b"# -*- coding: latin-1 -*-\nx = '\xe9'\n",
    "tabs-mix": b"if True:\n\tx = 1\n        y = 2\n",
    # a file a rule-based detector still reports on although it cannot be decoded
    "invalid-utf8-with-finding": b"import random\nvalue = random.random()\n# \xff\xfe\n",
}
CODEMODS = ["pixee:python/numpy-nan-equality", "pixee:python/fix-assert-tuple", "pixee:python/use-walrus-if", "pixee:python/fix-mutable-params",
            "pixee:python/remove-debug-breakpoint", "pixee:python/secure-tempfile"]


def cli_case(case):
    rng = random.Random(case["seed"])
    seeds = e2e.load_seeds()
    root = common.tmpdir("c10")
    try:
        cms = case["codemods"]
        n = case["n"]
        files = {}
        for i in range(n):
            cid = cms[i % len(cms)]
            files[f"f{i}.py"] = rng.choice(seeds[cid])
        good, bad = root / "good", root / "bad"
        badname = f"f{case['pos']}x.py"       # sorts right after f{pos}.py
        e2e.write_project(good, files)
        e2e.write_project(bad, files)
        real_bad, real_good = bad, good
        if case.get("spelling") == "symlink":        # the directory operand reaches the project through a symbolic link ...
            os.symlink(bad, root / "lnk-bad"); os.symlink(good, root / "lnk-good")
            bad, good = root / "lnk-bad", root / "lnk-good"
        elif case.get("spelling") == "dotdot":       # ... or is written with a `..` in it
            (root / "x").mkdir()
            bad, good = root / "x" / ".." / "bad", root / "x" / ".." / "good"
        (bad / badname).write_bytes(BAD_KINDS[case["kind"]] if case["kind"] != "vanish" else b"x = 1\n")
        before_bad = (bad / badname).read_bytes()
        args = ["--codemod-include", ",".join(cms)]
        if case["kind"] == "vanish":
            # the file disappears after the directory listing and before it is processed
            from codemodder import code_directory as D
            orig = D.files_for_directory
            def listing(parent):
                out = orig(parent)
                try: os.unlink(bad / badname)
                except OSError: pass
                return out
            import codemodder.context as CX
            CX.files_for_directory = listing
            try:
                rb = e2e.run(bad, args)
            finally:
                CX.files_for_directory = orig
        else:
            rb = e2e.run(bad, args)
        rg = e2e.run(good, args)
        tb, tg = e2e.read_tree(real_bad), e2e.read_tree(real_good)
        def res(rep):
            return [{"codemod": x["codemod"], "changeset": [c for c in x["changeset"] if c["path"] != badname],
                     "failed": sorted(f.split("/")[-1] for f in x.get("failedFiles") or [])} for x in (rep or {}).get("results", [])]
        other_same = all(tb.get(p) == tg[p] for p in tg)
        rbres, rgres = res(rb["report"]), res(rg["report"])
        return {"rc": rb["rc"], "report": rb["report"] is not None, "other_same": other_same,
                "bad_intact": case["kind"] == "vanish" or tb.get(badname) == before_bad,
                "changesets_same": json.dumps([{k: v for k, v in x.items() if k != "failed"} for x in rbres], sort_keys=True)
                                   == json.dumps([{k: v for k, v in x.items() if k != "failed"} for x in rgres], sort_keys=True),
                "failed": [x["failed"] for x in rbres], "failed_by": {x["codemod"]: x["failed"] for x in rbres}, "good_failed": [x["failed"] for x in rgres], "badname": badname,
                "bad_changed_reported": any(c["path"] == badname for x in (rb["report"] or {}).get("results", []) for c in x["changeset"])}
    finally:
        shutil.rmtree(root, ignore_errors=True)


def search(ctx):
    rng = ctx.rng
    from codemodder.codemods.semgrep import SemgrepRuleDetector
    from codemodder.registry import load_registered_codemods
    sg = {c.id for c in load_registered_codemods().codemods if isinstance(c.detector, SemgrepRuleDetector)}
    kinds = list(BAD_KINDS) + ["vanish"]
    cases = []
    for k in kinds:
        for _ in range(ctx.pick(2, 10)):
            n = rng.randint(2, 6)
            cases.append({"kind": k, "n": n, "pos": rng.randint(0, n - 1), "codemods": rng.sample(CODEMODS, rng.choice([1, 2])), "seed": rng.randint(0, 10**9)})
    # a rule-detected codemod, a file it has findings in but cannot process, and the directory operand spelled in ways that are not
    # the canonical absolute path
    for sp in ("plain", "symlink", "dotdot"):
        cases.append({"kind": "invalid-utf8-with-finding", "n": 3, "pos": 1, "codemods": ["pixee:python/secure-random"], "seed": rng.randint(0, 10**9), "spelling": sp})
        cases.append({"kind": "syntax-error", "n": 3, "pos": 1, "codemods": ["pixee:python/fix-assert-tuple"], "seed": rng.randint(0, 10**9), "spelling": sp})
    for c, r in zip(cases, impl.pool_map(cli_case, cases)):
        if r[0] != "ok":
            ctx.broke("c10 cli harness", r[1]); continue
        r = r[1]
        listed = any(r["badname"] in f for f in r["failed"])
        ctx.search_case("cli-fault", {"kind": c["kind"], "n": c["n"], "pos": c["pos"], "codemods": c["codemods"]}, listed)
        rep = {"case": c, "result": r}
        if r["rc"] != ["exit", 0] or not r["report"]:
            ctx.fail({"kind": "run-aborted", "fault": c["kind"]}, f"a {c['kind']} file stopped the run: {r['rc']}, report written={r['report']}", rep)
        elif not r["bad_intact"]:
            ctx.fail({"kind": "bad-file-modified", "fault": c["kind"]}, f"the {c['kind']} file was modified", rep)
        elif not r["other_same"] or not r["changesets_same"]:
            ctx.fail({"kind": "fault-not-isolated", "fault": c["kind"]}, f"other files / their changesets differ from the run without the {c['kind']} file", rep)
        elif any(f for f in r["good_failed"]):
            pass
        elif c["kind"] in ("invalid-utf8", "invalid-utf8-with-finding", "nul", "syntax-error", "latin1-cookie", "vanish") and not listed and not r["bad_changed_reported"]:
            ctx.fail({"kind": "failure-not-reported", "fault": c["kind"]}, f"the {c['kind']} file was selected but is not listed in failedFiles ({r['failed']})", rep)
        elif c["kind"] in ("invalid-utf8", "nul", "syntax-error", "latin1-cookie"):
            # every codemod that goes through all Python files (no rule of its own) meets the bad file and must list it itself
            silent = [k for k, f in r["failed_by"].items() if k not in sg and r["badname"] not in f]
            if silent:
                ctx.fail({"kind": "failure-not-reported", "fault": c["kind"], "per_codemod": True},
                         f"the {c['kind']} file is listed as failed for some codemods of the run but not for {silent} ({r['failed_by']})", rep)
