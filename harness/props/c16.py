"""C16 — hardening codemods make only their documented edit. Theorems CM.Args.C16_* (shared argument editor);
tie = real replace_args / add_arg_to_call vs the Lean model; search = token-multiset delta over the program space."""
from __future__ import annotations

import io
import json
import tokenize
from collections import Counter

import argscorr
import common
import progspace

LEAN_TARGETS = ["CM.Props.C16"]
THEOREMS = [
    "CM.Args.C16_replaceArgs_others",
    "CM.Args.C16_replaceArgs_length",
    "CM.Args.C16_addArg",
    "CM.Args.C16_callTarget_args",
    "CM.Args.C16_callTarget_args_plain",
    "CM.Args.C01_replaceArgs_wf",
    "CM.Args.C07_replaceArgs_idem_single",
    "CM.Args.parenGens_others",
]
RULE = (
    "argument editor: generated argument lists (positional / keyword / * / ** arguments in any order, 0-5 arguments, nested calls as "
    "values) x specifications through the real replace_args / add_arg_to_call vs the Lean model; program space of C01 for the hardening "
    "codemods: multiset difference of identifiers, attribute names, keywords, numbers and strings between the program before and after must "
    "stay inside the codemod's recorded delta, and every untouched token keeps its relative order; non-trivial = distinct program changed"
)
ASSUMPTIONS = [
    "contract DeltaBounded K for each hardening transformer: validated on the program space against harness/corpus/deltas.json (recorded on the clean tree, reviewed against the codemod docs)",
    "import aliases chosen by libcst's AddImportsVisitor and whitespace / commas / parentheses are not part of the delta",
]
LEVEL_TEXT = (
    "Lean 4 theorems over CM.Args: replace_args preserves every argument the specification does not name - same arguments, same order, "
    "same text - for all argument lists and specifications (C16_replaceArgs_others), adds at most the unmatched specifications, "
    "add_arg_to_call appends exactly one keyword argument, swapping the callee keeps the arguments, and the edited call stays well-formed. "
    "Tied to the code by running the real LibcstResultTransformer.replace_args / add_arg_to_call on parsed calls and comparing the "
    "argument lists with the Lean model. The per-codemod clause (nothing but the documented delta changes) is searched over the program "
    "space with a token-multiset oracle."
)
LEVEL_NOTE = (
    "Partial: each transformer's choice of specification and the callee/import swap are validated by search only. Trusted: Lean kernel "
    "(propext, Quot.sound, Classical.choice); the recorded delta table."
)
TECHNIQUE = "Lean 4 proof over the shared argument-editor model + differential correspondence + token-delta search"

HARDENING = ["pixee:python/requests-verify", "pixee:python/add-requests-timeouts", "pixee:python/harden-pyyaml", "pixee:python/harden-ruamel",
             "pixee:python/jwt-decode-verify", "pixee:python/enable-jinja2-autoescape", "pixee:python/safe-lxml-parser-defaults", "pixee:python/safe-lxml-parsing",
             "pixee:python/secure-random", "pixee:python/secure-flask-cookie", "pixee:python/subprocess-shell-false", "pixee:python/sandbox-process-creation",
             "pixee:python/url-sandbox", "pixee:python/use-defusedxml", "pixee:python/harden-pickle-load", "pixee:python/https-connection",
             "pixee:python/upgrade-sslcontext-tls", "pixee:python/upgrade-sslcontext-minimum-version", "pixee:python/limit-readline",
             "pixee:python/timezone-aware-datetime", "pixee:python/django-json-response-type", "pixee:python/fix-math-isclose"]


def sig_tokens(text: str):
    out = []
    try:
        for t in tokenize.generate_tokens(io.StringIO(text).readline):
            if t.type in (tokenize.NAME, tokenize.NUMBER, tokenize.STRING):
                out.append(t.string)
    except (tokenize.TokenError, IndentationError, SyntaxError):
        return None
    return out


def token_delta(before: str, after: str):
    a, b = sig_tokens(before), sig_tokens(after)
    if a is None or b is None:
        return None, None
    ca, cb = Counter(a), Counter(b)
    return list((cb - ca).elements()), list((ca - cb).elements())


def unparen(a):
    """an argument up to the parentheses a bare generator receives once it has a neighbour (the value itself is untouched)"""
    if a.get("gen"):
        return dict(a, gen=False, val="(" + a["val"] + ")")
    return a


def corr(ctx):
    for rq, im, ans in argscorr.corr(ctx, 300, 2500):
        # oracle: arguments the specification does not name are preserved in order
        if rq["op"] == "replace_args":
            ns = {s["name"] for s in rq["spec"]}
            keep = lambda l: [a for a in l if a["kw"] is None or a["kw"] not in ns]
            if keep(im["args"]) != keep(rq["args"]):
                ctx.fail({"kind": "replace-args-touches-others"}, f"replace_args altered an argument the specification does not name: {im['src']} -> {im['rendered']}", {"request": rq, "impl": im})
        elif rq["op"] == "call_target":
            # the callee is swapped: every argument of the original call is still there, in order (after the old callee when it is passed along)
            base = rq["replacement"] if rq["replacement"] else rq["args"]
            if [unparen(a) for a in im["args"]] != [unparen(a) for a in base]:
                ctx.fail({"kind": "call-target-touches-arguments"}, f"update_call_target altered the arguments: {im['src']} -> {im['rendered']}", {"request": rq, "impl": im})
        elif [unparen(a) for a in im["args"][: len(rq["args"])]] != [unparen(a) for a in rq["args"]] or len(im["args"]) != len(rq["args"]) + 1:
            ctx.fail({"kind": "add-arg-touches-others"}, f"add_arg_to_call altered existing arguments: {im['src']} -> {im['rendered']}", {"request": rq, "impl": im})


def search(ctx):
    table = json.loads((common.VERIF / "harness" / "corpus" / "deltas.json").read_text())
    res = progspace.run_pass(ctx.tier, ctx.seed)
    for cid in HARDENING:
        r = res.get(cid)
        if not r:
            continue
        if "error" in r:
            ctx.broke(f"program-space pass for {cid}", r["error"][-600:]); continue
        allow = table.get(cid)
        for name, rec in r["records"].items():
            changed = rec["after"] != rec["before"]
            ctx.search_case("delta:" + cid, {"codemod": cid, "program": name}, changed)
            if not changed or allow is None:
                continue
            add, rem = token_delta(rec["before"], rec["after"])
            if add is None:
                continue
            bad_add = sorted(set(add) - set(allow["added"]))
            bad_rem = sorted(set(rem) - set(allow["removed"]))
            if bad_add or bad_rem:
                ctx.fail({"kind": "undocumented-delta", "codemod": cid, "added": bool(bad_add), "removed": bool(bad_rem)},
                         f"{cid}: tokens outside the documented delta: added {bad_add} removed {bad_rem} (variant {name})",
                         {"codemod": cid, "program": name, "before": rec["before"], "after": rec["after"]})
                continue
            # order of the untouched tokens
            # import statements are added / removed / re-sorted by libcst's import visitors: their position is not part of the contract
            strip_imports = lambda t: "".join(l for l in t.splitlines(keepends=True) if not l.lstrip().startswith(("import ", "from ")))
            a, b = sig_tokens(strip_imports(rec["before"])), sig_tokens(strip_imports(rec["after"]))
            if a is None or b is None:
                continue
            rest_a = [t for t in a if t not in allow["removed"] and t not in allow["added"]]
            rest_b = [t for t in b if t not in allow["removed"] and t not in allow["added"]]
            if rest_a != rest_b:
                ctx.fail({"kind": "untouched-tokens-reordered", "codemod": cid}, f"{cid}: tokens outside the delta changed order (variant {name})",
                         {"codemod": cid, "program": name, "before": rec["before"], "after": rec["after"]})
