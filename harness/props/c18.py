"""C18 — a codemod acts on what its own detector reports, and the result is clean. Theorems over CM.Location / CM.Pipeline
(position bridge, plan) ; search = real semgrep with the codemod's own rule before and after the run."""
from __future__ import annotations

import difflib
import json

import random
import impl
import sites
import common
import callshapes
import progspace

LEAN_TARGETS = ["CM.Props.C06", "CM.Props.Pipeline", "CM.Generated.PredsEq", "CM.Props.C16"]
THEOREMS = [
    "CM.Location.C06_selected_complete",
    "CM.Location.C06_code_match_complete",
    "CM.Location.C06_selected_sound",
    "CM.Pipeline.C10_failed_file",
    "CM.Pipeline.C05_plan_subset_selected",
    "CM.Pipeline.C03_write_iff_changeset",
    "CM.Generated.gen_match_location_eq",
    "CM.Args.C18_replaceArgs_sets",
    "CM.Args.C18_replaceArgs_not_flagged",
    "CM.Args.C18_replaceArgs_sets_all",
    "CM.Args.C18_replaceArgs_not_flagged_all",
]
RULE = (
    "for every rule-detected find-and-fix codemod with snippets: the snippets x context / layout variants and two-site files; the codemod's "
    "own semgrep rule is run with the real semgrep binary on the files before and after the codemod; oracle 1: a file with a flagged "
    "location (not of a declined shape) is rewritten or listed failed; oracle 2: after the run no flagged location lies on a line the run "
    "rewrote; non-trivial = distinct program flagged by the rule"
)
ASSUMPTIONS = [
    "semgrep's matcher is a parameter (`detect`); the transformer bodies are not modelled",
    "declined shapes: the decline branches present in the source (lazy-logging: literal-only concatenation, % in the left literal, non-string operands, mixed prefixes, a piece containing a double quote or a line break; with-threading-lock: several with items; re-bound / shadowed names)",
]
LEVEL_TEXT = (
    "Lean 4 theorems: a finding located exactly at a node (tool columns = libcst column + 1) selects it (C06_selected_complete, also for "
    "the matcher translated from the current source), a selected file is planned only if it is among the find-and-fix paths, a file "
    "whose transformation raises is listed failed with its findings unfixed, and a written file always comes with a changeset; for the "
    "shared argument editor (the rewrite of the keyword-hardening codemods): after replace_args every argument with the specified keyword "
    "has the specified value, so a detector that flags the call for that keyword's value no longer flags it (C18_replaceArgs_not_flagged; "
    "the editor is tied to the real replace_args by the C16 correspondence). These are "
    "the framework half of the property; the semgrep matcher and the transformer bodies are parameters. The per-codemod half is searched "
    "with the real semgrep binary and the codemod's own rule before and after a real run."
)
LEVEL_NOTE = "Partial: semgrep and the transformer bodies are not modelled. Trusted: Lean kernel (propext, Quot.sound, Classical.choice), the py2lean translator."
TECHNIQUE = "Lean 4 proof (position bridge, pipeline gates) + translator tie + real-semgrep re-detection search"


def changed_new_lines(before: str, after: str) -> set[int]:
    a, b = before.splitlines(keepends=True), after.splitlines(keepends=True)
    out = set()
    for tag, i1, i2, j1, j2 in difflib.SequenceMatcher(None, a, b, autojunk=False).get_opcodes():
        if tag in ("replace", "insert"):
            out.update(range(j1 + 1, j2 + 1))
    return out


def changed_old_lines(before: str, after: str) -> set[int]:
    """1-based lines of `before` that the run replaced or deleted (an insertion counts for the line it is put in front of)"""
    a, b = before.splitlines(keepends=True), after.splitlines(keepends=True)
    out = set()
    for tag, i1, i2, j1, j2 in difflib.SequenceMatcher(None, a, b, autojunk=False).get_opcodes():
        if tag in ("replace", "delete"):
            out.update(range(i1 + 1, i2 + 1))
    return out


def shadowed(text: str) -> bool:
    """a well-known module name is re-bound to something else (`import whatever as yaml`, `yaml = ...`): the rule matches by
    spelling, the codemod resolves the name and declines"""
    import ast
    known = {"yaml", "requests", "random", "subprocess", "jwt", "lxml", "ssl", "logging", "threading", "tempfile", "jinja2", "flask", "pickle"}
    try:
        tree = ast.parse(text)
    except SyntaxError:
        return False
    for n in ast.walk(tree):
        if isinstance(n, ast.Import):
            for a in n.names:
                if a.asname in known and a.name.split(".")[0] != a.asname:
                    return True
        elif isinstance(n, ast.ImportFrom):
            for a in n.names:
                if (a.asname or a.name) in known and (n.module or "").split(".")[0] != (a.asname or a.name) and a.name != (a.asname or a.name):
                    return True
        elif isinstance(n, (ast.Assign, ast.AnnAssign)):
            tg = n.targets if isinstance(n, ast.Assign) else [n.target]
            if any(isinstance(t, ast.Name) and t.id in known for t in tg):
                return True
        elif isinstance(n, (ast.FunctionDef, ast.ClassDef)) and n.name in known:
            return True
    return False


def declined(cid: str, text: str) -> bool:
    if shadowed(text):
        return True
    if cid.endswith("lazy-logging"):
        return True if any(k in text for k in ('" + "', "' + '", '%s" +', "%s' +", 'f"', "f'", 'b"', "r'", 'r"', "u'", '\\"', '"hi"', "'''", '"""')) else False
    if cid.endswith("bad-lock-with-statement"):
        return "," in "".join(l for l in text.splitlines() if l.strip().startswith("with "))
    return False


# (first codemod, rule-detected second codemod): the first one moves the second one's finding (adds an import line above it);
# pairs in which the first rewrite *creates* the second one's trigger are C09's recorded prefilter finding and are not used here
SHIFT_PAIRS = [("pixee:python/secure-random", "pixee:python/requests-verify"), ("pixee:python/secure-random", "pixee:python/harden-pyyaml"),
               ("pixee:python/use-defusedxml", "pixee:python/secure-random"), ("pixee:python/secure-tempfile", "pixee:python/subprocess-shell-false")]


def shift_case(case):
    """one run with two codemods: the second one still acts on what its own rule reports in the code it is given"""
    import e2e
    import shutil
    from codemodder.registry import load_registered_codemods

    rng = random.Random(case["seed"])
    seeds = e2e.load_seeds()
    a, b = case["pair"]
    cm = next(c for c in load_registered_codemods().codemods if c.id == b)
    root = common.tmpdir("c18p")
    try:
        sa, sb = rng.choice(seeds[a]), rng.choice(seeds[b])
        ha, ba = sites.split_seed(sa)
        hb, bb = sites.split_seed(sb)
        text = "".join(dict.fromkeys(ha + hb)) + "".join(ba) + "\n" + "".join(bb)
        try:
            compile(text, "x", "exec")
        except SyntaxError:
            return {"drop": "compile"}
        if declined(b, text) or declined(a, text):
            return {"drop": "declined"}
        proj = root / "p"
        e2e.write_project(proj, {"m.py": text})
        flagged0 = progspace.semgrep_flag(cm, [proj / "m.py"])
        r = e2e.run(proj, ["--codemod-include", f"{a},{b}"])
        after = (proj / "m.py").read_text()
        flagged1 = progspace.semgrep_flag(cm, [proj / "m.py"])
        failed = [f for res in (r["report"] or {}).get("results", []) if res["codemod"] == b for f in (res.get("failedFiles") or [])]
        changed_by = [res["codemod"] for res in (r["report"] or {}).get("results", []) if res["changeset"]]
        return {"rc": r["rc"], "before": text, "after": after, "flagged0": bool(flagged0), "flagged1": list(flagged1.values()), "failed": failed, "changed_by": changed_by}
    finally:
        shutil.rmtree(root, ignore_errors=True)


def corr(ctx):
    """the shared argument editor: `replace_args` against the model (argscorr), and what C18_replaceArgs_sets says on the real result -
    after the edit every argument carrying a specified keyword has the specified value (calls with pairwise different keywords)"""
    import argscorr

    for rq, im, _ in argscorr.corr(ctx, 150, 1200):
        if rq["op"] != "replace_args":
            continue
        kws = [a["kw"] for a in rq["args"] if a["kw"] is not None]
        if len(set(kws)) != len(kws):
            continue
        for s in rq["spec"]:
            present = s["name"] in kws
            ctx.search_case("editor-sets-keyword", {"args": rq["args"], "spec": s}, present)
            stale = [a for a in im["args"] if a["kw"] == s["name"] and a["val"] != s["value"]]
            missing = (present or s["add_if_missing"]) and not any(a["kw"] == s["name"] for a in im["args"])
            if stale or missing:
                ctx.fail({"kind": "editor-leaves-flagged-value", "missing": bool(missing)},
                         f"replace_args: after the edit `{s['name']}` is {'absent' if missing else 'still ' + stale[0]['val']} (specified {s['value']}): {im['src']} -> {im['rendered']}",
                         {"request": rq, "impl": im})


def spelling_case(case):
    """the directory operand written in ways other than the canonical absolute path: what the codemod's rule reports is still acted on"""
    import os, shutil
    import e2e
    root = common.tmpdir("c18d")
    try:
        proj = root / "p"
        src = 'import requests\n\nrequests.get("https://example.com", verify=False)\n'
        e2e.write_project(proj, {"m.py": src, "pkg/n.py": src})
        if case["spelling"] == "symlink":
            os.symlink(proj, root / "lnk"); arg = root / "lnk"
        elif case["spelling"] == "dotdot":
            (root / "x").mkdir(); arg = root / "x" / ".." / "p"
        elif case["spelling"] == "trailing-slash-dot":
            arg = str(proj) + "/./"
        else:
            arg = proj
        r = e2e.run(arg, ["--codemod-include", "pixee:python/requests-verify"])
        failed = [f for res in (r["report"] or {}).get("results", []) for f in (res.get("failedFiles") or [])]
        return {"rc": r["rc"], "rewritten": sorted(f for f in ("m.py", "pkg/n.py") if (proj / f).read_text() != src), "failed": failed}
    finally:
        shutil.rmtree(root, ignore_errors=True)


def search(ctx):
    sp_cases = [{"spelling": sp} for sp in ("plain", "symlink", "dotdot", "trailing-slash-dot")]
    for c, r in zip(sp_cases, impl.pool_map(spelling_case, sp_cases)):
        if r[0] != "ok":
            ctx.broke("c18 directory-spelling harness", r[1]); continue
        r = r[1]
        ctx.search_case("directory-spelling", c, True)
        if r["rc"] != ["exit", 0]:
            ctx.fail({"kind": "cli-crash", "spelling": c["spelling"]}, f"CLI failed {r['rc']} with the directory spelled as {c['spelling']}", {"case": c})
        elif r["rewritten"] != ["m.py", "pkg/n.py"] and not r["failed"]:
            ctx.fail({"kind": "flagged-not-handled", "codemod": "pixee:python/requests-verify", "spelling": c["spelling"]},
                     f"requests-verify with the directory spelled as {c['spelling']}: rewritten {r['rewritten']}, nothing listed failed (both files are flagged)", {"case": c, "result": r})
    cases = [{"pair": p, "seed": ctx.rng.randint(0, 10**9)} for p in SHIFT_PAIRS for _ in range(ctx.pick(1, 4))]
    for c, r in zip(cases, impl.pool_map(shift_case, cases)):
        if r[0] != "ok":
            ctx.broke("c18 pair harness", r[1]); continue
        r = r[1]
        if "drop" in r:
            ctx.dropped += 1; continue
        a, b = c["pair"]
        ctx.search_case("shifted-by-earlier-codemod", {"pair": list(c["pair"]), "seed": c["seed"]}, r["flagged0"] and a in r["changed_by"])
        if r["rc"] != ["exit", 0]:
            ctx.fail({"kind": "cli-crash", "pair": list(c["pair"])}, f"CLI failed {r['rc']}", {"case": c})
        elif r["flagged0"] and r["flagged1"] and not r["failed"] and not shadowed(r["after"]):
            lines_after = r["after"].splitlines()
            flagged_lines = [lines_after[f[0] - 1] for locs in r["flagged1"] for f in locs if 0 < f[0] <= len(lines_after)]
            if flagged_lines and all(not ln.isascii() for ln in flagged_lines):
                # the recorded byte-column finding, met through this scenario
                ctx.fail({"kind": "flagged-location-not-rewritten", "codemod": b, "shape": "non-ascii-before-site"},
                         f"{b}, run after {a}: its rule reports {r['flagged1']} on a line with non-ASCII characters before the site; not rewritten, not failed",
                         {"case": c, "before": r["before"], "after": r["after"]})
                continue
            ctx.fail({"kind": "flagged-not-handled", "codemod": b, "after": a},
                     f"{b}, run after {a} in one invocation: its rule reports {r['flagged1']} in the final file, which is neither rewritten there nor listed as failed",
                     {"case": c, "before": r["before"], "after": r["after"], "changed_by": r["changed_by"]})
    res = progspace.run_pass(ctx.tier, ctx.seed)
    n_sem = 0
    for cid, r in sorted(res.items()):
        if "error" in r:
            ctx.broke(f"program-space pass for {cid}", r["error"][-600:]); continue
        if not r.get("semgrep"):
            continue
        n_sem += 1
        for name, rec in r["records"].items():
            flagged = bool(rec["flagged0"])
            ctx.search_case("detect:" + cid, {"codemod": cid, "program": name}, flagged)
            if not flagged:
                continue
            changed = rec["after"] != rec["before"]
            if not changed and not rec["failed"] and not declined(cid, rec["before"]):
                ctx.fail({"kind": "flagged-not-handled", "codemod": cid}, f"{cid}: its own rule reports {rec['flagged0']} but the file is neither rewritten nor failed (variant {name})",
                         {"codemod": cid, "program": name, "before": rec["before"], "flagged": rec["flagged0"]})
                continue
            if changed and not rec["failed"] and not declined(cid, rec["before"]) and not shadowed(rec["before"]):
                # "rewritten at that location": every reported location has a line the run replaced
                old_lines = changed_old_lines(rec["before"], rec["after"])
                untouched = [f for f in rec["flagged0"] if not any(l in old_lines for l in range(f[0], f[1] + 1))]
                if untouched:
                    line = rec["before"].splitlines()[untouched[0][0] - 1] if untouched[0][0] <= len(rec["before"].splitlines()) else ""
                    shape = "non-ascii-before-site" if not line.isascii() else callshapes.shape_class(name)
                    ctx.fail({"kind": "flagged-location-not-rewritten", "codemod": cid, "shape": shape},
                             f"{cid}: its rule reports {untouched} but the run, which rewrote other lines of the file, left those as they are (variant {name})",
                             {"codemod": cid, "program": name, "before": rec["before"], "after": rec["after"], "flagged": rec["flagged0"]})
            if changed:
                new_lines = changed_new_lines(rec["before"], rec["after"])
                still = [f for f in rec["flagged1"] if any(l in new_lines for l in range(f[0], f[1] + 1))]
                if still and not shadowed(rec["before"]):
                    ctx.fail({"kind": "still-flagged-after", "codemod": cid, "shape": callshapes.shape_class(name)}, f"{cid}: after the run its rule still reports {still} inside rewritten lines (variant {name})",
                             {"codemod": cid, "program": name, "before": rec["before"], "after": rec["after"], "flagged_after": rec["flagged1"]})
    ctx.notes.append(f"rule-detected codemods in this pass: {n_sem}")
