"""C11 — results do not depend on scheduling, worker count, hash seed or sibling files. Models CM.Sched / CM.Pipeline /
CM.Select; tie = framework correspondence over delay schedules and worker counts; search = real codemods under the same knobs."""
from __future__ import annotations

import json
import os
import random
import shutil
import subprocess
import sys

import common
import e2e
import impl
import synth

LEAN_TARGETS = ["CM.Props.C11"]
THEOREMS = [
    "CM.Sched.C11_inflight_le_cap",
    "CM.Sched.C11_maxInflight_le_cap",
    "CM.Sched.C11_inflight_from_init",
    "CM.Sched.C11_jobs_conserved",
    "CM.Pipeline.C11_schedule_independent",
    "CM.Pipeline.execSeq_eq_par",
    "CM.Pipeline.C11_file_outcome_own",
    "CM.Select.C05_perm_invariant",
]
RULE = (
    "framework correspondence: scenarios with 4-7 files run with --max-workers in {1,2,3,8} under per-file delay tables that realise "
    "distinct completion orders; every run is compared with the Lean run and with the 1-worker run; the synthetic transformer counts "
    "files in flight; registry / run under PYTHONHASHSEED in {0,1,2,3,random} in subprocesses; projects created in shuffled file "
    "orders; sibling independence run(D)|f == run({f})|f with real codemods; non-trivial = distinct (scenario, workers, schedule) "
    "with at least two changed files"
)
ASSUMPTIONS = [
    "real thread interleavings are sampled through delay tables; the theorem covers every trace of the pool model CM.Sched, whose "
    "agreement with concurrent.futures.ThreadPoolExecutor is an assumption (max_workers semantics, map order)",
    "codemods that inspect sibling files (django settings / manage.py, dependency manifests) are excluded from the sibling clause",
]
LEVEL_TEXT = (
    "Lean 4 theorems: along every trace of the worker-pool model never more than cap jobs run (C11_inflight_le_cap); for every "
    "permutation in which the file jobs of a codemod execute, each seeing the writes of the previous ones, every file's final content "
    "and every job's result equal those of the reference execution (C11_schedule_independent, execSeq_eq_par); a file's outcome is a "
    "function of its own content (C11_file_outcome_own); the selected file list is invariant under permutation of the directory "
    "enumeration and of the pattern lists (C05_perm_invariant). Tied to the code by running the real framework with synthetic "
    "codemods under worker counts x delay schedules (max in-flight measured inside the transformer), under different hash seeds in "
    "subprocesses and with shuffled file creation orders."
)
LEVEL_NOTE = (
    "Trusted: Lean kernel (propext, Quot.sound, Classical.choice); CM.Sched as the specification of ThreadPoolExecutor; delay-based "
    "schedule exploration cannot force every interleaving of real threads."
)
TECHNIQUE = "Lean 4 proof over scheduler/pipeline models + framework correspondence over schedules, workers, hash seeds"


def job(j):
    scn, workers, delays = j
    return synth.run_real(scn, workers=workers, delays=delays)


def corr(ctx):
    rng = ctx.rng
    jobs, meta = [], []
    scns = []
    for _ in range(ctx.pick(8, 40)):
        s = synth.gen_scenario(rng, n_codemods=rng.randint(1, 2), deps=False, kinds=("none", "none", "sast"))
        s["dry"] = False
        # more files so that schedules matter
        for k in range(rng.randint(2, 4)):
            s["world"].append([f"x{k}.py", f'v = "{rng.choice(synth.TOKENS)}_q"\n'])
        scns.append(s)
    for si, s in enumerate(scns):
        files = [p for p, _ in s["world"] if p.endswith(".py")]
        for w in (1, 2, 3, 8):
            for _ in range(ctx.pick(1, 3)):
                delays = {f: rng.choice([0, 0.01, 0.03, 0.06]) for f in files} if w > 1 else {}
                jobs.append((s, w, delays)); meta.append((si, w))
    reals = impl.pool_map(job, jobs, procs=4)   # few processes: the jobs themselves use threads and sleep
    models = common.lean_ask([synth.model_request(s) for s in scns])
    base = {}
    for (s, w, delays), (si, _), r in zip(jobs, meta, reals):
        if r[0] != "ok":
            ctx.broke("synthetic framework run", r[1]); continue
        r = r[1]
        m = models[si]
        d = synth.compare(r, m, s) if "err" not in m else [str(m)]
        nch = sum(len(x["changeset"]) for x in r["results"])
        small = {"scenario": si, "workers": w, "delays": sorted(delays.items()), "order": r["order"]}
        ctx.corr_case("run-sched", small, {"diffs": d[:3], "rc": r["rc"]}, {"diffs": [], "rc": ["exit", 0]}, nch >= 2, f"workers={w}")
        ctx.search_case("synthetic-sched", small, nch >= 2)
        sig = json.dumps([r["world"], r["results"]], sort_keys=True)
        if si not in base:
            base[si] = sig
        elif sig != base[si]:
            ctx.fail({"kind": "schedule-dependent", "workers": w}, f"run with {w} workers / delays {small['delays']} differs from the 1-worker run", {"scenario": s, "workers": w, "delays": delays})
        if r["max_inflight"] > w:
            ctx.fail({"kind": "inflight-exceeds-workers"}, f"{r['max_inflight']} files in flight with --max-workers {w}", {"scenario": s, "workers": w})
        ctx.stat(f"max_inflight={min(r['max_inflight'], 9)}")


HASHSEED_PROG = r"""
import sys, json, hashlib
sys.path.insert(0, %r)
import common, e2e
common.setup_env()
from codemodder.registry import load_registered_codemods
ids = load_registered_codemods().ids
from pathlib import Path
proj = Path(sys.argv[1])
r = e2e.run(proj, ["--codemod-include", "pixee:python/numpy-nan-equality,pixee:python/fix-assert-tuple,pixee:python/use-walrus-if,pixee:python/order-imports,pixee:python/unused-imports", "--dry-run"])
rep = e2e.normalise_report(r["report"])
print(json.dumps({"ids": ids, "rc": r["rc"], "report": hashlib.sha1(json.dumps(rep, sort_keys=True).encode()).hexdigest()}))
"""


def sibling_case(case):
    rng = random.Random(case["seed"])
    seeds = e2e.load_seeds()
    root = common.tmpdir("c11s")
    try:
        cms = case["codemods"]
        files = dict(case.get("files") or {})
        for i in range(case["n"]):
            cid = rng.choice(cms)
            files[f"{rng.choice(['', 'pkg/'])}s{i}.py"] = rng.choice(seeds[cid])
        order = list(files)
        rng.shuffle(order)
        full = root / "full"
        for rel in order:  # shuffled creation order
            e2e.write_project(full, {rel: files[rel]})
        args = ["--codemod-include", ",".join(cms), "--max-workers", str(case["workers"])]
        # each file on its own first, last file first (so that nothing a run may leave behind in the interpreter comes from a file
        # that precedes it in the full project), then the full project
        alone_out = {}
        judged = sorted(case.get("only") or files, reverse=True)
        cwd0 = os.getcwd()
        for rel in judged:
            alone = root / ("alone-" + rel.replace("/", "_")) / "proj"
            e2e.write_project(alone, {rel: files[rel]})
            if case.get("cwd_project"): os.chdir(alone)      # detectors that look at the working directory (semgrep's ignore rules)
            try:
                e2e.run(alone, args)
            finally:
                os.chdir(cwd0)
            alone_out[rel] = (alone / rel).read_bytes()
        if case.get("cwd_project"): os.chdir(full)
        try:
            rf = e2e.run(full, args)
        finally:
            os.chdir(cwd0)
        tf = e2e.read_tree(full)
        bad = [rel for rel in judged if alone_out[rel] != tf[rel]]
        return {"rc": rf["rc"], "bad": bad, "n": len(files), "changed": sum(1 for r in files if tf[r] != files[r].encode())}
    finally:
        shutil.rmtree(root, ignore_errors=True)


def seq_case(case):
    """several runs in ONE interpreter with changing --max-workers (the core codemods are module-level objects that
    survive from run to run): the in-flight bound holds in every run and every run gives the same report and files"""
    import threading
    import time

    from codemodder.codemods.libcst_transformer import LibcstTransformerPipeline

    rng = random.Random(case["seed"])
    seeds = e2e.load_seeds()
    files = {f"{rng.choice(['', 'pkg/', 'pkg/sub/'])}q{i}.py": rng.choice(seeds[rng.choice(case["codemods"])]) for i in range(case["n"])}
    lock = threading.Lock()
    st = {"cur": 0, "max": 0}
    orig = LibcstTransformerPipeline.apply

    def apply(self, context, file_context, results):
        with lock:
            st["cur"] += 1
            st["max"] = max(st["max"], st["cur"])
        try:
            time.sleep(0.02)
            return orig(self, context, file_context, results)
        finally:
            with lock:
                st["cur"] -= 1

    LibcstTransformerPipeline.apply = apply
    root = common.tmpdir("c11q")
    try:
        runs = []
        for k, w in enumerate(case["workers"]):
            proj = root / f"p{k}" / "proj"
            e2e.write_project(proj, files)
            st["cur"] = st["max"] = 0
            r = e2e.run(proj, ["--codemod-include", ",".join(case["codemods"]), "--max-workers", str(w)])
            rep = e2e.normalise_report(r["report"]) if r["report"] else None
            tree = {k2: v.decode("utf-8", "replace") for k2, v in e2e.read_tree(proj).items()}
            runs.append({"workers": w, "rc": r["rc"], "max_inflight": st["max"], "sig": json.dumps([rep and rep.get("results"), tree], sort_keys=True, default=str)})
        return {"runs": [{k: v for k, v in r.items() if k != "sig"} | {"same": r["sig"] == runs[0]["sig"]} for r in runs], "n": len(files)}
    finally:
        LibcstTransformerPipeline.apply = orig
        shutil.rmtree(root, ignore_errors=True)


class _Scan:
    """os.scandir result with the entries in a chosen order (what another filesystem might hand out)"""

    def __init__(self, it, mode, seed):
        with it:
            ents = list(it)
        if mode == "asc": ents.sort(key=lambda e: e.name)
        elif mode == "desc": ents.sort(key=lambda e: e.name, reverse=True)
        else: random.Random(f"{seed}{len(ents)}").shuffle(ents)
        self._it = iter(ents)

    def __iter__(self): return self._it
    def __next__(self): return next(self._it)
    def __enter__(self): return self
    def __exit__(self, *a): return False
    def close(self): pass


def enum_case(case):
    """a tool-result driven codemod over several files, with the directory enumeration order ascending / descending / shuffled"""
    from props import c06

    item = case["item"]
    tool, cid = item["tool"], item["codemod"]
    rng = random.Random(case["seed"])
    ents = c06.entries_of(tool, item["results"])
    names = [f"{rng.choice(['', 'pkg/', 'pkg/sub/', 'zz/'])}{rng.choice('abcdefghijklmnopqrstuvwxyz')}{i}.py" for i in range(case["n"])]
    placed = []
    for fi, fn in enumerate(names):
        for j, (kind, e) in enumerate(ents):
            placed.append((kind, c06.place_entry(tool, e, fn, 0, 0, (1000 * (fi + 1) + j) if tool == "defectdojo" else f"K{fi}-{j}")))
    doc = c06.build_doc(tool, item["results"], placed)
    root = common.tmpdir("c11e")
    real = os.scandir
    try:
        outs = []
        for k, mode in enumerate(["asc", "desc", "shuffle"]):
            proj = root / f"e{k}" / "proj"
            e2e.write_project(proj, {fn: item["code"] for fn in names})
            rf = root / f"res{k}.json"
            rf.write_text(json.dumps(doc))
            os.scandir = lambda p=".", _m=mode: _Scan(real(p), _m, case["seed"])
            try:
                r = e2e.run(proj, ["--codemod-include", cid, item["flag"], str(rf), "--max-workers", str(case["workers"])])
            finally:
                os.scandir = real
            rep = e2e.normalise_report(r["report"]) if r["report"] else None
            order = [cs["path"] for res in (r["report"] or {}).get("results", []) for cs in res["changeset"]]
            tree = {k2: v.decode("utf-8", "replace") for k2, v in e2e.read_tree(proj).items()}
            outs.append({"mode": mode, "rc": r["rc"], "order": order, "sig": json.dumps([rep and rep.get("results"), tree], sort_keys=True, default=str)})
        return {"codemod": cid, "runs": [{k: v for k, v in o.items() if k != "sig"} | {"same": o["sig"] == outs[0]["sig"]} for o in outs]}
    finally:
        os.scandir = real
        shutil.rmtree(root, ignore_errors=True)


def manifest_enum_case(case):
    """several manifests of the same kind in different directories + a codemod that adds a dependency: the manifest that
    receives it must not depend on the order in which the directories are listed"""
    rng = random.Random(case["seed"])
    seeds = e2e.load_seeds()
    cid = case["codemod"]
    name, body = case["manifest"]
    # at least two directories of the same depth (between depths the walk order is fixed), sometimes deeper ones too
    dirs = rng.choice([["a", "zz"], ["lib", "b"], ["svc/api", "svc/worker"], ["x/y/z", "x/y/a"]]) + rng.sample(["c", "d/e", "svc/cron"], rng.randint(0, 2))
    files = {"m.py": rng.choice(seeds[cid])}
    for d in dirs:
        files[f"{d}/{name}"] = body
    root = common.tmpdir("c11m")
    real = os.scandir
    try:
        outs = []
        for k, mode in enumerate(["asc", "desc", "shuffle"]):
            proj = root / f"e{k}" / "proj"
            e2e.write_project(proj, files)
            os.scandir = lambda p=".", _m=mode: _Scan(real(p), _m, case["seed"])
            try:
                r = e2e.run(proj, ["--codemod-include", cid])
            finally:
                os.scandir = real
            rep = e2e.normalise_report(r["report"]) if r["report"] else None
            tree = {k2: v.decode("utf-8", "replace") for k2, v in e2e.read_tree(proj).items()}
            outs.append({"mode": mode, "rc": r["rc"], "paths": [cs["path"] for res in (r["report"] or {}).get("results", []) for cs in res["changeset"]],
                         "sig": json.dumps([rep and rep.get("results"), tree], sort_keys=True, default=str)})
        return {"codemod": cid, "dirs": dirs, "runs": [{k: v for k, v in o.items() if k != "sig"} | {"same": o["sig"] == outs[0]["sig"]} for o in outs]}
    finally:
        os.scandir = real
        shutil.rmtree(root, ignore_errors=True)


SIB_CODEMODS = ["pixee:python/numpy-nan-equality", "pixee:python/fix-assert-tuple", "pixee:python/use-walrus-if", "pixee:python/fix-mutable-params",
                "pixee:python/remove-debug-breakpoint", "pixee:python/literal-or-new-object-identity", "pixee:python/exception-without-raise",
                "pixee:python/str-concat-in-sequence-literals"]


def search(ctx):
    rng = ctx.rng
    # hash seeds: registry order and a small run, in fresh interpreters
    root = common.tmpdir("c11h")
    seeds = e2e.load_seeds()
    files = {f"h{i}.py": rng.choice(seeds[c]) for i, c in enumerate(["pixee:python/numpy-nan-equality", "pixee:python/fix-assert-tuple", "pixee:python/use-walrus-if"] * 2)}
    # paths that differ only in letter case (a case-sensitive file system keeps them apart; an ordering that folds case would tie)
    for name in ("pkg/Config.py", "pkg/config.py", "pkg/CONFIG.py", "Mod.py", "mod.py"):
        files[name] = rng.choice(seeds["pixee:python/fix-assert-tuple"])
    # the two import codemods keep what they collect in sets: names that tie under a case-folding sort key, several unused imports
    files["ties.py"] = "from m import Other, other, thing as T2, thing as t1\nimport os\nimport abc\n\nprint(Other, other, T2, t1, os, abc)\n"
    files["unused.py"] = "import os\nimport sys\nimport json\nimport re\nimport abc\nimport ast\n\nprint(1)\n"
    e2e.write_project(root / "p", files)
    prog = root / "prog.py"
    prog.write_text(HASHSEED_PROG % str(common.VERIF / "harness"))
    outs = []
    hs = ["0", "1", "2", "3", "random"] if not ctx.thorough else [str(i) for i in range(8)] + ["random"]
    procs = [(h, subprocess.Popen([sys.executable, str(prog), str(root / "p")], env=dict(os.environ, PYTHONHASHSEED=h), stdout=subprocess.PIPE, stderr=subprocess.DEVNULL)) for h in hs]
    for h, p in procs:
        out = p.communicate(timeout=600)[0].decode().strip().splitlines()
        try:
            outs.append((h, json.loads(out[-1])))
        except Exception:
            ctx.broke("c11 hash-seed subprocess", f"seed {h}: {out[-3:]}")
    for h, o in outs:
        ctx.search_case("hash-seed", {"seed": h}, True)
        if o["ids"] != outs[0][1]["ids"]:
            ctx.fail({"kind": "registry-order-hashseed"}, f"registry order under PYTHONHASHSEED={h} differs from PYTHONHASHSEED={outs[0][0]}", {"seed": h})
        elif o["report"] != outs[0][1]["report"] or o["rc"] != ["exit", 0]:
            ctx.fail({"kind": "report-hashseed"}, f"report under PYTHONHASHSEED={h} differs", {"seed": h})
    shutil.rmtree(root, ignore_errors=True)
    # sibling independence + creation order with real codemods
    cases = [{"codemods": rng.sample(SIB_CODEMODS, rng.choice([1, 2])), "n": rng.randint(3, 6), "workers": rng.choice([1, 2, 4]), "seed": rng.randint(0, 10**9)}
             for _ in range(ctx.pick(8, 60))]
    # a codemod that invents a fresh name looks at the names of the file it is in - not at those of the files processed before it
    cases.append({"codemods": ["pixee:python/bad-lock-with-statement"], "n": 0, "workers": rng.choice([1, 2]), "seed": rng.randint(0, 10**9),
                  "files": {"a_first.py": "import threading\nlock = object()\nrlock = object()\nwith threading.Lock():\n    print(lock)\n",
                            "b_second.py": "import threading\nwith threading.Lock():\n    pass\nwith threading.RLock():\n    pass\n",
                            "pkg/c_third.py": "import threading\n\n\ndef f():\n    with threading.Lock():\n        pass\n"}})
    # rule-detected codemods that hand a list of argument specifications to the shared editor: what a file's call spells must not
    # decide what happens to the next file
    cases.append({"codemods": ["pixee:python/safe-lxml-parser-defaults"], "n": 0, "workers": 1, "seed": rng.randint(0, 10**9),
                  "files": {"a_loader.py": "from lxml import etree\n\nparser = etree.XMLParser(resolve_entities=True)\n",
                            "z_reader.py": "from lxml import etree\n\nparser = etree.XMLParser()\n"}})
    cases.append({"codemods": ["pixee:python/secure-flask-cookie"], "n": 0, "workers": 1, "seed": rng.randint(0, 10**9),
                  "files": {"a_first.py": "import flask\n\nresp = flask.make_response('x')\nresp.set_cookie('c', '1', secure=False, httponly=False)\n",
                            "z_second.py": "import flask\n\nresp = flask.make_response('y')\nresp.set_cookie('d', '2')\n"}})
    # a large project: what happens to one file does not depend on how many siblings it has (the detector is handed the files, it
    # does not go looking for them under its own ignore rules)
    big = {f"pkg{i // 50}/m{i}.py": f"x = {i}\n" for i in range(540)}
    big["vendor/rng.py"] = "import random\n\nprint(random.random())\n"
    cases.append({"codemods": ["pixee:python/secure-random"], "n": 0, "workers": 4, "seed": rng.randint(0, 10**9), "files": big,
                  "only": ["vendor/rng.py"], "cwd_project": True})
    for c, r in zip(cases, impl.pool_map(sibling_case, cases, procs=8)):
        if r[0] != "ok":
            ctx.broke("c11 sibling harness", r[1]); continue
        r = r[1]
        ctx.search_case("sibling", c, r["changed"] >= 2)
        if r["rc"] != ["exit", 0]:
            ctx.fail({"kind": "cli-crash"}, f"CLI failed {r['rc']}", {"case": c})
        elif r["bad"]:
            ctx.fail({"kind": "sibling-dependent", "codemods": c["codemods"]}, f"the outcome of {r['bad']} depends on which other files are present", {"case": c})

    # worker sequences inside one interpreter
    cases = [{"codemods": rng.sample(SIB_CODEMODS, rng.choice([1, 2])), "n": rng.randint(5, 8), "seed": rng.randint(0, 10**9),
              "workers": [rng.choice([4, 8]), 1, rng.choice([2, 3]), 8, 1]} for _ in range(ctx.pick(3, 12))]
    for c, r in zip(cases, impl.pool_map(seq_case, cases, procs=4)):
        if r[0] != "ok":
            ctx.broke("c11 worker-sequence harness", r[1]); continue
        for run in r[1]["runs"]:
            ctx.search_case("worker-sequence", {"case": c, "workers": run["workers"]}, run["max_inflight"] >= 2)
            ctx.stat(f"seq_inflight={run['max_inflight']}/w={run['workers']}")
            if run["rc"] != ["exit", 0]:
                ctx.fail({"kind": "cli-crash"}, f"CLI failed {run['rc']}", {"case": c})
            elif run["max_inflight"] > run["workers"]:
                ctx.fail({"kind": "inflight-exceeds-workers", "sequence": True},
                         f"{run['max_inflight']} files in flight with --max-workers {run['workers']} (run sequence {c['workers']} in one interpreter)", {"case": c})
            elif not run["same"]:
                ctx.fail({"kind": "schedule-dependent", "sequence": True}, f"--max-workers {run['workers']} gives another report / files than --max-workers {c['workers'][0]}", {"case": c})
    # directory enumeration order, tool-result driven codemods
    items = json.loads((common.VERIF / "harness" / "corpus" / "sast_seeds.json").read_text())
    rng.shuffle(items)
    seen, pick = set(), []
    for it in items:
        if it["codemod"] not in seen:
            seen.add(it["codemod"]); pick.append(it)
    cases = [{"item": it, "n": rng.randint(3, 6), "workers": rng.choice([1, 4]), "seed": rng.randint(0, 10**9)} for it in pick[: ctx.pick(5, 40)]]
    for c, r in zip(cases, impl.pool_map(enum_case, cases, procs=8)):
        if r[0] != "ok":
            ctx.broke("c11 enumeration-order harness", r[1]); continue
        r = r[1]
        nfiles = len(r["runs"][0]["order"])
        for run in r["runs"]:
            ctx.search_case("enumeration-order", {"codemod": r["codemod"], "mode": run["mode"], "n": c["n"]}, nfiles >= 2)
            if run["rc"] != ["exit", 0]:
                ctx.fail({"kind": "cli-crash", "codemod": r["codemod"]}, f"CLI failed {run['rc']}", {"case": c})
            elif not run["same"]:
                ctx.fail({"kind": "enumeration-order-dependent", "codemod": r["codemod"]},
                         f"{r['codemod']}: directory entries handed out in {run['mode']} order give changesets {run['order']}, in ascending order {r['runs'][0]['order']}", {"case": c})

    # manifest discovery order
    mans = [("requirements.txt", "requests\n"), ("setup.cfg", "[metadata]\nname = x\n\n[options]\ninstall_requires =\n    requests\n"),
            ("pyproject.toml", '[project]\nname = "x"\nversion = "0.1"\ndependencies = [\n    "requests",\n]\n')]
    cases = [{"codemod": rng.choice(["pixee:python/use-defusedxml", "pixee:python/flask-enable-csrf-protection"]), "manifest": rng.choice(mans), "seed": rng.randint(0, 10**9)}
             for _ in range(ctx.pick(3, 12))]
    for c, r in zip(cases, impl.pool_map(manifest_enum_case, cases, procs=8)):
        if r[0] != "ok":
            ctx.broke("c11 manifest-enumeration harness", r[1]); continue
        r = r[1]
        for run in r["runs"]:
            ctx.search_case("manifest-enumeration", {"codemod": r["codemod"], "manifest": c["manifest"][0], "dirs": r["dirs"], "mode": run["mode"]}, len(run["paths"]) >= 2)
            if run["rc"] != ["exit", 0]:
                ctx.fail({"kind": "cli-crash", "codemod": r["codemod"]}, f"CLI failed {run['rc']}", {"case": c})
            elif not run["same"]:
                ctx.fail({"kind": "enumeration-order-dependent", "what": "manifest-choice", "manifest": c["manifest"][0]},
                         f"{c['manifest'][0]} in {r['dirs']}: with directory entries in {run['mode']} order the run changes {run['paths']}, in ascending order {r['runs'][0]['paths']}", {"case": c})
