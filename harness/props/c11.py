"""C11 — results do not depend on scheduling, worker count, hash seed or sibling files. Models CM.Sched / CM.Pipeline /
CM.Select; tie = framework correspondence over delay schedules and worker counts; search = real codemods under the same knobs."""
from __future__ import annotations

import json
import os
import random
import shutil
import subprocess
import sys

import common
import e2e
import impl
import synth

LEAN_TARGETS = ["CM.Props.C11"]
THEOREMS = [
    "CM.Sched.C11_inflight_le_cap",
    "CM.Sched.C11_maxInflight_le_cap",
    "CM.Sched.C11_inflight_from_init",
    "CM.Sched.C11_jobs_conserved",
    "CM.Pipeline.C11_schedule_independent",
    "CM.Pipeline.execSeq_eq_par",
    "CM.Pipeline.C11_file_outcome_own",
    "CM.Select.C05_perm_invariant",
]
RULE = (
    "framework correspondence: scenarios with 4-7 files run with --max-workers in {1,2,3,8} under per-file delay tables that realise "
    "distinct completion orders; every run is compared with the Lean run and with the 1-worker run; the synthetic transformer counts "
    "files in flight; registry / run under PYTHONHASHSEED in {0,1,2,3,random} in subprocesses; projects created in shuffled file "
    "orders; sibling independence run(D)|f == run({f})|f with real codemods; non-trivial = distinct (scenario, workers, schedule) "
    "with at least two changed files"
)
ASSUMPTIONS = [
    "real thread interleavings are sampled through delay tables; the theorem covers every trace of the pool model CM.Sched, whose "
    "agreement with concurrent.futures.ThreadPoolExecutor is an assumption (max_workers semantics, map order)",
    "codemods that inspect sibling files (django settings / manage.py, dependency manifests) are excluded from the sibling clause",
]
LEVEL_TEXT = (
    "Lean 4 theorems: along every trace of the worker-pool model never more than cap jobs run (C11_inflight_le_cap); for every "
    "permutation in which the file jobs of a codemod execute, each seeing the writes of the previous ones, every file's final content "
    "and every job's result equal those of the reference execution (C11_schedule_independent, execSeq_eq_par); a file's outcome is a "
    "function of its own content (C11_file_outcome_own); the selected file list is invariant under permutation of the directory "
    "enumeration and of the pattern lists (C05_perm_invariant). Tied to the code by running the real framework with synthetic "
    "codemods under worker counts x delay schedules (max in-flight measured inside the transformer), under different hash seeds in "
    "subprocesses and with shuffled file creation orders."
)
LEVEL_NOTE = (
    "Trusted: Lean kernel (propext, Quot.sound, Classical.choice); CM.Sched as the specification of ThreadPoolExecutor; delay-based "
    "schedule exploration cannot force every interleaving of real threads."
)
TECHNIQUE = "Lean 4 proof over scheduler/pipeline models + framework correspondence over schedules, workers, hash seeds"


def job(j):
    scn, workers, delays = j
    return synth.run_real(scn, workers=workers, delays=delays)


def corr(ctx):
    rng = ctx.rng
    jobs, meta = [], []
    scns = []
    for _ in range(ctx.pick(8, 40)):
        s = synth.gen_scenario(rng, n_codemods=rng.randint(1, 2), deps=False, kinds=("none", "none", "sast"))
        s["dry"] = False
        # more files so that schedules matter
        for k in range(rng.randint(2, 4)):
            s["world"].append([f"x{k}.py", f'v = "{rng.choice(synth.TOKENS)}_q"\n'])
        scns.append(s)
    for si, s in enumerate(scns):
        files = [p for p, _ in s["world"] if p.endswith(".py")]
        for w in (1, 2, 3, 8):
            for _ in range(ctx.pick(1, 3)):
                delays = {f: rng.choice([0, 0.01, 0.03, 0.06]) for f in files} if w > 1 else {}
                jobs.append((s, w, delays)); meta.append((si, w))
    reals = impl.pool_map(job, jobs, procs=4)   # few processes: the jobs themselves use threads and sleep
    models = common.lean_ask([synth.model_request(s) for s in scns])
    base = {}
    for (s, w, delays), (si, _), r in zip(jobs, meta, reals):
        if r[0] != "ok":
            ctx.broke("synthetic framework run", r[1]); continue
        r = r[1]
        m = models[si]
        d = synth.compare(r, m, s) if "err" not in m else [str(m)]
        nch = sum(len(x["changeset"]) for x in r["results"])
        small = {"scenario": si, "workers": w, "delays": sorted(delays.items()), "order": r["order"]}
        ctx.corr_case("run-sched", small, {"diffs": d[:3], "rc": r["rc"]}, {"diffs": [], "rc": ["exit", 0]}, nch >= 2, f"workers={w}")
        ctx.search_case("synthetic-sched", small, nch >= 2)
        sig = json.dumps([r["world"], r["results"]], sort_keys=True)
        if si not in base:
            base[si] = sig
        elif sig != base[si]:
            ctx.fail({"kind": "schedule-dependent", "workers": w}, f"run with {w} workers / delays {small['delays']} differs from the 1-worker run", {"scenario": s, "workers": w, "delays": delays})
        if r["max_inflight"] > w:
            ctx.fail({"kind": "inflight-exceeds-workers"}, f"{r['max_inflight']} files in flight with --max-workers {w}", {"scenario": s, "workers": w})
        ctx.stat(f"max_inflight={min(r['max_inflight'], 9)}")


HASHSEED_PROG = r"""
import sys, json, hashlib
sys.path.insert(0, %r)
import common, e2e
common.setup_env()
from codemodder.registry import load_registered_codemods
ids = load_registered_codemods().ids
from pathlib import Path
proj = Path(sys.argv[1])
r = e2e.run(proj, ["--codemod-include", "pixee:python/numpy-nan-equality,pixee:python/fix-assert-tuple,pixee:python/use-walrus-if", "--dry-run"])
rep = e2e.normalise_report(r["report"])
print(json.dumps({"ids": ids, "rc": r["rc"], "report": hashlib.sha1(json.dumps(rep, sort_keys=True).encode()).hexdigest()}))
"""


def sibling_case(case):
    rng = random.Random(case["seed"])
    seeds = e2e.load_seeds()
    root = common.tmpdir("c11s")
    try:
        cms = case["codemods"]
        files = {}
        for i in range(case["n"]):
            cid = rng.choice(cms)
            files[f"{rng.choice(['', 'pkg/'])}s{i}.py"] = rng.choice(seeds[cid])
        order = list(files)
        rng.shuffle(order)
        full = root / "full"
        for rel in order:  # shuffled creation order
            e2e.write_project(full, {rel: files[rel]})
        args = ["--codemod-include", ",".join(cms), "--max-workers", str(case["workers"])]
        rf = e2e.run(full, args)
        tf = e2e.read_tree(full)
        bad = []
        for rel in files:
            alone = root / ("alone-" + rel.replace("/", "_"))
            e2e.write_project(alone, {rel: files[rel]})
            ra = e2e.run(alone, args)
            if (alone / rel).read_bytes() != tf[rel]:
                bad.append(rel)
        return {"rc": rf["rc"], "bad": bad, "n": len(files), "changed": sum(1 for r in files if tf[r] != files[r].encode())}
    finally:
        shutil.rmtree(root, ignore_errors=True)


SIB_CODEMODS = ["pixee:python/numpy-nan-equality", "pixee:python/fix-assert-tuple", "pixee:python/use-walrus-if", "pixee:python/fix-mutable-params",
                "pixee:python/remove-debug-breakpoint", "pixee:python/literal-or-new-object-identity", "pixee:python/exception-without-raise",
                "pixee:python/str-concat-in-sequence-literals"]


def search(ctx):
    rng = ctx.rng
    # hash seeds: registry order and a small run, in fresh interpreters
    root = common.tmpdir("c11h")
    seeds = e2e.load_seeds()
    files = {f"h{i}.py": rng.choice(seeds[c]) for i, c in enumerate(["pixee:python/numpy-nan-equality", "pixee:python/fix-assert-tuple", "pixee:python/use-walrus-if"] * 2)}
    e2e.write_project(root / "p", files)
    prog = root / "prog.py"
    prog.write_text(HASHSEED_PROG % str(common.VERIF / "harness"))
    outs = []
    hs = ["0", "1", "2", "3", "random"] if not ctx.thorough else [str(i) for i in range(8)] + ["random"]
    procs = [(h, subprocess.Popen([sys.executable, str(prog), str(root / "p")], env=dict(os.environ, PYTHONHASHSEED=h), stdout=subprocess.PIPE, stderr=subprocess.DEVNULL)) for h in hs]
    for h, p in procs:
        out = p.communicate(timeout=600)[0].decode().strip().splitlines()
        try:
            outs.append((h, json.loads(out[-1])))
        except Exception:
            ctx.broke("c11 hash-seed subprocess", f"seed {h}: {out[-3:]}")
    for h, o in outs:
        ctx.search_case("hash-seed", {"seed": h}, True)
        if o["ids"] != outs[0][1]["ids"]:
            ctx.fail({"kind": "registry-order-hashseed"}, f"registry order under PYTHONHASHSEED={h} differs from PYTHONHASHSEED={outs[0][0]}", {"seed": h})
        elif o["report"] != outs[0][1]["report"] or o["rc"] != ["exit", 0]:
            ctx.fail({"kind": "report-hashseed"}, f"report under PYTHONHASHSEED={h} differs", {"seed": h})
    shutil.rmtree(root, ignore_errors=True)
    # sibling independence + creation order with real codemods
    cases = [{"codemods": rng.sample(SIB_CODEMODS, rng.choice([1, 2])), "n": rng.randint(3, 6), "workers": rng.choice([1, 2, 4]), "seed": rng.randint(0, 10**9)}
             for _ in range(ctx.pick(8, 60))]
    for c, r in zip(cases, impl.pool_map(sibling_case, cases, procs=8)):
        if r[0] != "ok":
            ctx.broke("c11 sibling harness", r[1]); continue
        r = r[1]
        ctx.search_case("sibling", c, r["changed"] >= 2)
        if r["rc"] != ["exit", 0]:
            ctx.fail({"kind": "cli-crash"}, f"CLI failed {r['rc']}", {"case": c})
        elif r["bad"]:
            ctx.fail({"kind": "sibling-dependent", "codemods": c["codemods"]}, f"the outcome of {r['bad']} depends on which other files are present", {"case": c})
