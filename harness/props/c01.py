"""C01 — every rewritten file still parses. Lifting theorem CM.Pipeline.C01_run_preserves_parse + argument-editor
well-formedness (CM.Args); tie = correspondence of the argument editor and of the pipeline; search = contract
ParsePreserving on the program space (compile / ast.parse of every rewritten file)."""
from __future__ import annotations

import ast
import random
import shutil

import argscorr
import common
import e2e
import impl
import progspace

LEAN_TARGETS = ["CM.Props.Lift", "CM.Props.C16", "CM.Props.Prec"]
THEOREMS = [
    "CM.Pipeline.run_preserves",
    "CM.Pipeline.C01_run_preserves_parse",
    "CM.Pipeline.C01_unparseable_untouched",
    "CM.Pipeline.holds_applyFiles",
    "CM.Pipeline.holds_processDeps",
    "CM.Args.C01_replaceArgs_wf",
    "CM.Args.C01_addArg_wf",
    "CM.Args.cls_replaceArgs",
    "CM.Args.C01_addArgToCall_wf",
    "CM.Args.C01_callTarget_wf",
    "CM.Args.C01_callTarget_old_bare_generator",
    "CM.Args.C01_updateArgTarget_wf",
    "CM.Args.C01_addArg_old_bare_generator",
    "CM.Prec.C08_combine_preserves_wp",
    "CM.Prec.C08_invert_preserves_wp",
    "CM.Prec.C08_walrus_preserves_wp",
    "CM.Prec.C01_walrus_old_bare_tuple",
]
RULE = (
    "argument editor: generated call argument lists (positional / keyword / * / ** in legal and illegal orders) x edit specifications "
    "through the real replace_args / add_arg_to_call, the model's ordering rule compared with compile() of the rendered call; program "
    "space: for every codemod with trigger snippets, the snippets x context variants (def, async def, method, if, try/finally, with, "
    "docstring, decoy code, two sites) x layout variants (CRLF, no final newline, trailing comment, tabs) run through the real CLI, and "
    "sequences (ordered pairs on shared files, the default set on a mixed project); oracle compile() / ast.parse() of every file the run "
    "rewrote; non-trivial = distinct program the codemod changed"
)
ASSUMPTIONS = [
    "contract ParsePreserving K for each real transformer: validated on the program space, not proved (libcst codegen and the tree surgery of each transformer are not modelled)",
    "libcst node validators / parse_expression raising on malformed fragments is assumed (a raise is a reported failure, proved harmless)",
]
LEVEL_TEXT = (
    "Lean 4 theorems: (lifting) if every codemod of a run maps parseable text to parseable text then, for every project, codemod "
    "sequence, detector outcome and failure pattern, every file that parsed before the run parses after it (C01_run_preserves_parse, "
    "instance of run_preserves over the pipeline model; a file whose parse failed is never written); (mechanism) the shared argument "
    "editor keeps CPython's call-site ordering rule for every argument list and every specification (C01_replaceArgs_wf, C01_addArg_wf). "
    "The argument-editor model is tied to the code by running the real replace_args/add_arg_to_call and comparing arguments and "
    "compile() of the rendered call; the pipeline model by the framework correspondence (C04/C10/C15 checks). The per-transformer "
    "contract is validated on the program space with compile()/ast.parse as oracle."
)
LEVEL_NOTE = (
    "Partial: the tree surgery of each transformer and libcst's code generator are covered by the contract search only. Trusted: Lean "
    "kernel (propext, Quot.sound, Classical.choice)."
)
TECHNIQUE = "Lean 4 proof (lifting theorem + argument-editor well-formedness) + correspondence + program-space contract search"


def parses(text: str) -> str | None:
    """'compile' | 'parse' | None"""
    try:
        compile(text, "x", "exec", dont_inherit=True)
        return "compile"
    except SyntaxError:
        pass
    except ValueError:
        return None
    try:
        ast.parse(text)
        return "parse"
    except (SyntaxError, ValueError):
        return None


def corr(ctx):
    for rq, im, ans in argscorr.corr(ctx):
        # property-level oracle for the mechanism: a well-formed call stays well-formed
        # (for replace_args the call the codemods build is update_arg_target(replace_args(..)): that one is judged)
        out_ok = ans.get("wf_updated", ans["wf_out"])
        if rq["op"] == "call_target":
            if out_ok is False:    # judged only for well-formed input calls (None otherwise)
                ctx.fail({"kind": "args-ill-formed", "op": rq["op"]}, f"{im['src']} -> {im['rendered']} is no longer a valid call", {"request": rq, "impl": im})
            continue
        if ans["wf_in"] and not out_ok:
            ctx.fail({"kind": "args-ill-formed", "op": rq["op"]}, f"{im['src']} -> {im.get('rendered_updated', im['rendered'])} is no longer a valid call", {"request": rq, "impl": im})


def seq_case(case):
    rng = random.Random(case["seed"])
    seeds = e2e.load_seeds()
    root = common.tmpdir("c01s")
    try:
        cms = case["codemods"]
        files = {}
        for i in range(case["n"]):
            parts = [rng.choice(seeds[c]) for c in rng.sample(cms, min(len(cms), rng.choice([1, 2, 3]))) if seeds.get(c)]
            text = "\n".join(parts)
            if parses(text):
                files[f"m{i}.py"] = text
        proj = root / "p"
        e2e.write_project(proj, files)
        args = ["--codemod-include", ",".join(cms)] if cms != ["*default*"] else []
        r = e2e.run(proj, args)
        bad = []
        changed = 0
        for f, text in files.items():
            after = (proj / f).read_text()
            if after != text:
                changed += 1
                if parses(text) and not parses(after):
                    bad.append([f, text, after])
        return {"rc": r["rc"], "bad": bad, "changed": changed}
    finally:
        shutil.rmtree(root, ignore_errors=True)


def search(ctx):
    res = progspace.run_pass(ctx.tier, ctx.seed)
    for cid, r in sorted(res.items()):
        if "error" in r:
            ctx.broke(f"program-space pass for {cid}", r["error"][-600:]); continue
        for name, rec in r["records"].items():
            lvl = parses(rec["before"])
            if lvl is None:
                ctx.dropped += 1; continue
            changed = rec["after"] != rec["before"]
            ctx.search_case("contract:" + cid, {"codemod": cid, "program": name}, changed)
            if not changed:
                continue
            got = parses(rec["after"])
            if rec.get("before_compiles") and rec.get("after_compiles") is False:
                got = None      # the bytes on disk (coding cookie honoured) are no longer a Python file
            if got is None or (lvl == "compile" and got != "compile"):
                variant = name.split("_", 1)[1] if "_" in name else name
                sig = {"kind": "rewritten-file-does-not-parse", "codemod": cid}
                if "import __future__" in rec["before"] and "from __future__ import" in rec["before"]:
                    sig["shape"] = "module-__future__-imported-next-to-a-future-statement"
                ctx.fail(sig, f"{cid} on variant {variant}: the rewritten file no longer {'compiles' if lvl == 'compile' else 'parses'}",
                         {"codemod": cid, "program": name, "before": rec["before"], "after": rec["after"]})
    # sequences: ordered pairs / triples on shared files, and the default set on a mixed project
    seeds = e2e.load_seeds()
    rng = ctx.rng
    from codemodder.codemods.semgrep import SemgrepRuleDetector
    from codemodder.registry import load_registered_codemods
    sg = {c.id for c in load_registered_codemods().codemods if isinstance(c.detector, SemgrepRuleDetector)}
    pool = sorted(k for k, v in seeds.items() if v and k not in sg)
    cases = [{"codemods": rng.sample(pool, rng.choice([2, 3])), "n": rng.randint(2, 4), "seed": rng.randint(0, 10**9)} for _ in range(ctx.pick(10, 120))]
    if ctx.thorough:
        cases.append({"codemods": ["*default*"], "n": 12, "seed": rng.randint(0, 10**9)})
    for c in cases:
        if c["codemods"] == ["*default*"]:
            c["codemods"] = ["*default*"]
    def fix(c):
        if c["codemods"] == ["*default*"]:
            return dict(c, codemods=["*default*"])
        return c
    for c, r in zip(cases, impl.pool_map(seq_case_wrapper, [fix(c) for c in cases])):
        if r[0] != "ok":
            ctx.broke("c01 sequence harness", r[1]); continue
        r = r[1]
        ctx.search_case("sequence", {"codemods": c["codemods"], "seed": c["seed"]}, r["changed"] > 0)
        if r["rc"] != ["exit", 0]:
            ctx.fail({"kind": "cli-crash"}, f"CLI failed {r['rc']} for {c['codemods']}", {"case": c})
        for f, before, after in r["bad"]:
            ctx.fail({"kind": "sequence-breaks-parse", "codemods": c["codemods"]}, f"after {c['codemods']} the file {f} no longer parses", {"case": c, "before": before, "after": after})


def seq_case_wrapper(case):
    if case["codemods"] == ["*default*"]:
        seeds = e2e.load_seeds()
        rng = random.Random(case["seed"])
        root = common.tmpdir("c01d")
        try:
            files = {}
            ks = sorted(k for k, v in seeds.items() if v)
            for i in range(case["n"]):
                text = "\n".join(rng.choice(seeds[c]) for c in rng.sample(ks, 2))
                if parses(text):
                    files[f"d{i}.py"] = text
            proj = root / "p"
            e2e.write_project(proj, files)
            r = e2e.run(proj, [])
            bad, changed = [], 0
            for f, text in files.items():
                after = (proj / f).read_text()
                if after != text:
                    changed += 1
                    if not parses(after):
                        bad.append([f, text, after])
            return {"rc": r["rc"], "bad": bad, "changed": changed}
        finally:
            shutil.rmtree(root, ignore_errors=True)
    return seq_case(case)
