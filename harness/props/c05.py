"""C05 — exactly the selected files are touched. Models CM.Glob / CM.Select; tie = real fnmatch, match_files,
CodemodExecutionContext path selection; search = real CLI on generated trees."""
from __future__ import annotations

import fnmatch
import itertools
import json
import os
import shutil
import uuid
from pathlib import Path

import common
import e2e
import impl

LEAN_TARGETS = ["CM.Props.C05"]
THEOREMS = [
    "CM.Select.C05_mem_matchFiles",
    "CM.Select.C05_nodup",
    "CM.Select.C05_line_exclude_keeps_file",
    "CM.Select.C05_find_and_fix_defaults",
    "CM.Select.C05_sast_no_default_excludes",
    "CM.Select.C05_perm_invariant",
]
RULE = (
    "fnmatch: every pattern of length <=3 over {a,b,/,.,*,?,[,],!,-} x every name of length <=3 over {a,b,/,.,-,]} exhaustively, "
    "plus random longer ones; match_files / find_and_fix_paths / filter_paths on random path lists and pattern lists (defaults, "
    "user lists, ':line' suffixes); real CLI on generated trees (nested dirs, tests/build/venv/.git dirs, non-Python files, "
    "symlinked files and dirs, sentinel outside the target); non-trivial = distinct request with a non-empty selection"
)
ASSUMPTIONS = [
    "fnmatch/re are modelled for * ? [seq] [!seq]; the characters \\ & ~ | ^ inside brackets are never generated",
    "Path.rglob / is_file / is_symlink (directory walking) are exercised on real trees, not modelled",
    "string order of `sorted` is the code-point order (Lean String <=); checked by correspondence",
]
LEVEL_TEXT = (
    "Lean 4 theorems over CM.Select/CM.Glob: a path is returned by match_files iff it is an input path, matches an include pattern "
    "(':line' stripped) and no exclude pattern without ':' (C05_mem_matchFiles); ':line' excludes never drop a file; find-and-fix "
    "defaults; SAST selection never applies default excludes; the result is duplicate-free and independent of file enumeration and "
    "pattern order (C05_perm_invariant). Tied to the code by running fnmatch.fnmatch, match_files, and a real CodemodExecutionContext "
    "(find_and_fix_paths, filter_paths, files_to_analyze on real trees with symlinks) on the same inputs as the Lean Driver; the "
    "end-to-end clause (set of files changed == selected files with a trigger; nothing outside the target written) is searched with "
    "the real CLI on generated trees with an independent oracle."
)
LEVEL_NOTE = (
    "Trusted: Lean kernel (propext, Quot.sound, Classical.choice); the glob model is validated against CPython's fnmatch exhaustively "
    "on short patterns and by sampling beyond; directory walking and symlink handling are checked on real trees only (search)."
)
TECHNIQUE = "Lean 4 proof over hand-written model + exhaustive/differential correspondence + CLI search"

PAT_ALPHA = ["a", "b", "/", ".", "*", "?", "[", "]", "!", "-"]
NAME_ALPHA = ["a", "b", "/", ".", "-", "]"]


def words(alpha, maxlen):
    out = [""]
    for n in range(1, maxlen + 1):
        out += ["".join(t) for t in itertools.product(alpha, repeat=n)]
    return out


def corr_fnmatch(ctx):
    pats = words(PAT_ALPHA, 3)
    names = words(NAME_ALPHA, 3)
    if not ctx.thorough:
        # quick: a seed-dependent half of the patterns, all names
        pats = [p for i, p in enumerate(pats) if i % 2 == ctx.seed % 2]
    rng = ctx.rng
    for _ in range(ctx.pick(300, 3000)):
        n = rng.randint(4, 9)
        pats.append("".join(rng.choice(PAT_ALPHA + ["a", "b", "*", "/"]) for _ in range(n)))
    long_names = ["".join(rng.choice(NAME_ALPHA + ["a", "b", "/"]) for _ in range(rng.randint(4, 9))) for _ in range(60)]
    B = 400
    reqs = []
    for i in range(0, len(pats), B):
        reqs.append({"op": "fnmatch", "pats": pats[i:i + B], "names": names + long_names})
    models = common.lean_ask(reqs)
    n_cases = 0
    allnames = names + long_names
    for rq, mo in zip(reqs, models):
        for p, row in zip(rq["pats"], mo["m"]):
            exp = [fnmatch.fnmatch(n, p) for n in allnames]
            n_cases += len(allnames)
            if exp != row:
                bad = [n for n, e, r in zip(allnames, exp, row) if e != r][:3]
                ctx.corr_case("fnmatch", {"pat": p, "names": bad}, [fnmatch.fnmatch(n, p) for n in bad], [not fnmatch.fnmatch(n, p) for n in bad], True, "fnmatch")
            elif any(exp) and not all(exp):
                ctx.corr_nontrivial.add("fn:" + p)
    ctx.corr_requests += n_cases
    ctx.ops["fnmatch"] = ctx.ops.get("fnmatch", 0) + n_cases
    ctx.exhaustive_parts.append(f"fnmatch: {len(pats)} patterns x {len(allnames)} names ({n_cases} pairs)")


PATHS = ["a.py", "b.py", "x.txt", "src/a.py", "src/b.py", "src/pkg/c.py", "tests/t.py", "tests/unit/u.py", "test/z.py", "build/g.py",
         "venv/lib/v.py", ".git/hooks/h.py", "conftest.py", "src/tests/s.py", "src/__tests__/q.py", "docs/conf.py", "a.pyi", "dist/d.py",
         "lib/site-packages/p.py", ".coveragerc", "src/build/k.py", "app/tests/x.py", ".ci/deploy.py", ".ci/sub/job.py", "ci/run.py", "..py"]
PATTERNS = ["*.py", "**/*.py", "**.py", "src/**", "src/*.py", "tests/**", "*/a.py", "a.py", "src/pkg/c.py", "**/c.py", "*", "**", "s*",
            "*.txt", "src/?.py", "[ab].py", "src/[!a].py", "docs/**", "**/tests/**", "build/**", "nomatch/**",
            # patterns that start with a dot or with `./` characters: nothing is stripped from a pattern
            ".ci/**", ".ci/*.py", ".git/**", ".*/**", "ci/**", "./a.py", ".*"]


def gen_pats(rng, paths, n, with_lines):
    out = []
    if with_lines and n and rng.random() < 0.2:
        # a list made of `path:line` patterns only: it names no file-level pattern at all (and is still a user-given list)
        return [f"{rng.choice(PATTERNS[:8] + paths[:6])}:{rng.randint(1, 9)}" for _ in range(n)]
    for _ in range(n):
        p = rng.choice(PATTERNS + paths[:6])
        if with_lines and rng.random() < 0.35:
            p += f":{rng.randint(1, 9)}"
        out.append(p)
    return out


def corr_match_files(ctx):
    from codemodder import code_directory as D

    rng = ctx.rng
    reqs, impls = [], []
    parent = Path("/proj")
    for _ in range(ctx.pick(250, 1500)):
        paths = rng.sample(PATHS, rng.randint(0, 10))
        if rng.random() < 0.2 and paths:
            paths.append(paths[0])  # duplicate input path
        excl = None if rng.random() < 0.3 else gen_pats(rng, paths, rng.randint(0, 3), True)
        incl = None if rng.random() < 0.3 else gen_pats(rng, paths, rng.randint(0, 3), True)
        got = [str(p.relative_to(parent)) for p in D.match_files(parent, [parent / p for p in paths], excl, incl)]
        reqs.append({"op": "match_files", "default_include": D.DEFAULT_INCLUDED_PATHS, "default_exclude": D.DEFAULT_EXCLUDED_PATHS,
                     "paths": paths, "exclude": excl, "include": incl})
        impls.append({"files": got})
    for rq, im, mo in zip(reqs, impls, common.lean_ask(reqs)):
        small = {k: rq[k] for k in ("paths", "exclude", "include")}
        br = ("dflt-excl" if rq["exclude"] is None else "user-excl") + "/" + ("dflt-incl" if rq["include"] is None else "user-incl")
        ctx.corr_case("match_files", small, im, mo, bool(im["files"]), br)


def make_tree(root: Path, rng, trigger: str):
    """a project tree with files (some with the trigger), symlinks, and a sentinel tree outside the target"""
    proj = root / "proj"
    outside = root / "outside"
    files, has_trigger = {}, {}
    for p in PATHS:
        if rng.random() < 0.75:
            t = rng.random() < 0.7
            files[p] = (trigger if t else "y = 2\n") if p.endswith((".py", ".pyi")) else "text\n"
            has_trigger[p] = t and p.endswith(".py")
    e2e.write_project(proj, files)
    e2e.write_project(outside, {"o.py": trigger, "pkg/o2.py": trigger, "requirements.txt": "requests\n"})
    links = {}
    if rng.random() < 0.8:
        links["link_out.py"] = str(outside / "o.py")           # file symlink to outside
    if rng.random() < 0.8:
        links["linkdir"] = str(outside / "pkg")                # dir symlink to outside
    if rng.random() < 0.5 and "a.py" in files:
        links["src/link_in.py"] = "../a.py"                     # file symlink inside
    if rng.random() < 0.5:
        links["requirements.txt"] = str(outside / "requirements.txt")  # manifest symlink to outside
    for rel, tgt in links.items():
        p = proj / rel
        p.parent.mkdir(parents=True, exist_ok=True)
        if not p.exists():
            os.symlink(tgt, p)
    return proj, outside, files, has_trigger, links


def spec_selected(rel: str, incl: list[str], excl: list[str]) -> bool:
    """independent reading of the property: matches an include (':line' stripped), no file-level exclude"""
    inc = any(fnmatch.fnmatch(rel, p.split(":")[0]) for p in incl)
    exc = any(fnmatch.fnmatch(rel, p) for p in excl if ":" not in p)
    return inc and not exc


TRIGGER = "import numpy as np\na = np.nan\nif a == np.nan:\n    pass\n"
DEP_TRIGGER = "import xml.etree.ElementTree as ET\net = ET.parse('some.xml')\n"
SG_TRIGGER = "import random\n\nx = random.random()\n"
SG_CODEMOD = "pixee:python/secure-random"
DEP_CODEMOD = "pixee:python/use-defusedxml"
FF_CODEMOD = "pixee:python/numpy-nan-equality"
SAST_CODEMOD = "sonar:python/numpy-nan-equality"
SONAR_RULE = "python:S6725"


def e2e_case(case):
    import random
    from codemodder import code_directory as D

    rng = random.Random(case["seed"])
    root = common.tmpdir("c05")
    try:
        proj, outside, files, has_trigger, links = make_tree(root, rng, SG_TRIGGER if case["mode"] == "ffsg" else TRIGGER)
        incl = gen_pats(rng, list(files), rng.randint(0, 2), True) if rng.random() < 0.6 else []
        excl = gen_pats(rng, list(files), rng.randint(0, 2), True) if rng.random() < 0.6 else []
        if case["mode"] == "ffsg":
            # a rule-detected codemod; whole-file patterns only (its edit touches two lines)
            incl, excl = [p.split(":")[0] for p in incl], [p.split(":")[0] for p in excl]
            if case.get("exclude_all_triggers"):
                # no selected file has a finding: the detector must not go looking elsewhere
                incl, excl = [], sorted(p for p, t in has_trigger.items() if t)
        # only whole-file semantics are judged here: strip nothing, but avoid line suffixes that hit the trigger line (3)
        hit = (":1", ":2") if case["mode"] == "dep" else (":3",)   # the line(s) the trigger is rewritten on
        incl = [p for p in incl if not p.endswith(hit)]
        excl = [p for p in excl if not p.endswith(hit)]
        if any(":" in p for p in incl):
            incl = [p.split(":")[0] for p in incl]  # a ':line' include restricts lines (C13's concern): keep file-level includes here
        args = []
        if incl: args += ["--path-include", ",".join(incl)]
        if excl: args += ["--path-exclude", ",".join(excl)]
        before_out = e2e.snapshot(outside)
        before = e2e.read_tree(proj)
        mode = case["mode"]
        if mode == "dep":
            # a dependency-adding codemod and a manifest that is a symlink to a file outside the target
            for f in list(files):
                if has_trigger.get(f):
                    (proj / f).write_text(DEP_TRIGGER)
            before = e2e.read_tree(proj)
            mp = proj / "requirements.txt"
            if not mp.is_symlink():
                if mp.exists():
                    mp.unlink()
                os.symlink(str(outside / "requirements.txt"), mp)
            r = e2e.run(proj, ["--codemod-include", DEP_CODEMOD] + args)
            cid = DEP_CODEMOD
            eff_incl = incl or list(D.DEFAULT_INCLUDED_PATHS)
            eff_excl = excl or list(D.DEFAULT_EXCLUDED_PATHS)
        elif mode in ("ff", "ffsg"):
            cid = FF_CODEMOD if mode == "ff" else SG_CODEMOD
            r = e2e.run(proj, ["--codemod-include", cid] + args)
            eff_incl = incl or list(D.DEFAULT_INCLUDED_PATHS)
            eff_excl = excl or list(D.DEFAULT_EXCLUDED_PATHS)
        else:
            issues = [{"rule": SONAR_RULE, "status": "OPEN", "component": f"proj:{p}", "key": f"k{i}", "message": "m",
                       "textRange": {"startLine": 3, "endLine": 3, "startOffset": 3, "endOffset": 14}}
                      for i, (p, t) in enumerate(sorted(has_trigger.items())) if t]
            sj = root / f"sonar-{uuid.uuid4().hex}.json"
            sj.write_text(json.dumps({"issues": issues}))
            r = e2e.run(proj, ["--codemod-include", SAST_CODEMOD, "--sonar-issues-json", str(sj)] + args)
            cid = SAST_CODEMOD
            eff_incl = incl or ["*.py", "**/*.py"]
            eff_excl = excl
        after = e2e.read_tree(proj)
        changed_disk = sorted(p for p in after if before.get(p) != after[p]) + sorted(p for p in before if p not in after)
        changed_rep = sorted(e2e.changed_files(r["report"]).get(cid, []))
        expected = sorted(p for p, t in has_trigger.items() if t and spec_selected(p, eff_incl, eff_excl))
        outside_ok = e2e.snapshot(outside) == before_out
        links_ok = all(os.path.islink(proj / l) for l in links if (proj / l).is_symlink() or True)
        return {"rc": r["rc"], "mode": mode, "incl": incl, "excl": excl, "changed_disk": changed_disk, "changed_rep": changed_rep,
                "expected": expected, "outside_ok": outside_ok, "n_files": len(files), "links": sorted(links)}
    finally:
        shutil.rmtree(root, ignore_errors=True)


def corr_context(ctx):
    """real CodemodExecutionContext on real trees: files_to_analyze, find_and_fix_paths, filter_paths"""
    from codemodder import code_directory as D
    from codemodder import registry as R
    from codemodder.context import CodemodExecutionContext
    from codemodder.project_analysis.python_repo_manager import PythonRepoManager
    from codemodder.providers import load_providers

    rng = ctx.rng
    reg = R.load_registered_codemods()
    prov = load_providers()
    reqs, impls, extra = [], [], []
    for i in range(ctx.pick(25, 120)):
        root = common.tmpdir("c05ctx")
        proj, outside, files, has_trigger, links = make_tree(root, rng, TRIGGER)
        pi = gen_pats(rng, list(files), rng.randint(0, 2), True) if rng.random() < 0.6 else []
        pe = gen_pats(rng, list(files), rng.randint(0, 2), True) if rng.random() < 0.6 else []
        c = CodemodExecutionContext(proj, True, False, reg, prov, PythonRepoManager(proj), pi, pe, {}, 1)
        fta = sorted(str(p.relative_to(proj)) for p in c.files_to_analyze)
        sub = sorted(rng.sample(fta, min(len(fta), rng.randint(0, 6))))
        impls.append({"find_and_fix": [str(p.relative_to(proj)) for p in c.find_and_fix_paths],
                      "filter_paths": [str(p.relative_to(proj)) for p in c.filter_paths([proj / s for s in sub])]})
        reqs.append({"op": "context_paths", "default_include": D.DEFAULT_INCLUDED_PATHS, "default_exclude": D.DEFAULT_EXCLUDED_PATHS,
                     "registry_include": reg.default_include_paths, "files": fta, "path_include": pi, "path_exclude": pe, "subset": sub})
        # files_for_directory: exactly the regular, non-symlink files the harness created
        exp_files = sorted(files)
        extra.append((fta, exp_files, sorted(links)))
        shutil.rmtree(root, ignore_errors=True)
    for rq, im, mo, (fta, exp_files, links) in zip(reqs, impls, common.lean_ask(reqs), extra):
        small = {k: rq[k] for k in ("files", "path_include", "path_exclude", "subset")}
        ctx.corr_case("context_paths", small, im, mo, bool(im["find_and_fix"]) or bool(im["filter_paths"]), "context")
        ctx.search_case("files_for_directory", {"files": exp_files, "links": links}, bool(links))
        if fta != exp_files:
            ctx.fail({"kind": "files-for-directory", "extra": sorted(set(fta) - set(exp_files))[:3], "missing": sorted(set(exp_files) - set(fta))[:3]},
                     f"files_for_directory returned {sorted(set(fta) ^ set(exp_files))} beyond/below the regular files (symlinks {links})",
                     {"files": exp_files, "links": links, "got": fta})


def corr(ctx):
    corr_fnmatch(ctx)
    corr_match_files(ctx)
    corr_context(ctx)


def search_line_patterns(ctx):
    """a `path:line` pattern restricts lines of the files its path part selects - matched like every other pattern (relative or absolute
    path), not by the bare file name: `a.py:3` says nothing about `x/a.py` (C05_line_exclude_keeps_file; the matcher itself is C13's)"""
    import importlib
    c13 = importlib.import_module("props.c13")
    cases = [{"glob": g, "mode": m} for g in ("a.py", "mod.py", "pkg/mod.py", "*/a.py") for m in ("exclude", "include")]
    for c, r in zip(cases, impl.pool_map(c13.glob_case, cases)):
        if r[0] != "ok":
            ctx.broke("c05 line-pattern harness", r[1]); continue
        r = r[1]
        for f, (rewritten, exp, m_rel, m_abs) in r["files"].items():
            ctx.search_case("cli-line-pattern", {"glob": c["glob"], "mode": c["mode"], "file": f}, m_rel or m_abs)
            if r["rc"] != ["exit", 0]:
                ctx.fail({"kind": "cli-crash", "mode": "line-pattern"}, f"CLI failed {r['rc']}", {"case": c})
            elif rewritten != exp:
                ctx.fail({"kind": "line-pattern-reaches-other-file", "mode": c["mode"], "glob": c["glob"]},
                         f"--path-{c['mode']} '{c['glob']}:3': {f} line 3 {'was' if rewritten else 'was not'} rewritten, expected {'rewritten' if exp else 'left alone'} "
                         f"(the pattern matches the file's relative path: {m_rel})", {"case": c, "file": f})


def search(ctx):
    search_line_patterns(ctx)
    cases = [{"seed": ctx.rng.randint(0, 10**9), "mode": m} for m in ["ff"] * ctx.pick(24, 160) + ["sast"] * ctx.pick(16, 100) + ["dep"] * ctx.pick(6, 30)]
    cases += [{"seed": ctx.rng.randint(0, 10**9), "mode": "ffsg"} for _ in range(ctx.pick(4, 24))]
    cases += [{"seed": ctx.rng.randint(0, 10**9), "mode": "ffsg", "exclude_all_triggers": True} for _ in range(ctx.pick(2, 8))]
    for c, r in zip(cases, impl.pool_map(e2e_case, cases)):
        if r[0] != "ok":
            ctx.broke("c05 e2e harness", r[1])
            continue
        r = r[1]
        key = {"mode": r["mode"], "incl": r["incl"], "excl": r["excl"], "expected": r["expected"]}
        ctx.search_case("cli-" + r["mode"], key, bool(r["expected"]))
        rep = {"case": c, "result": r}
        if r["rc"] != ["exit", 0]:
            ctx.fail({"kind": "cli-crash", "mode": r["mode"]}, f"CLI failed {r['rc']} incl={r['incl']} excl={r['excl']}", rep)
        elif r["changed_disk"] != r["expected"] or r["changed_rep"] != r["expected"]:
            extra = sorted(set(r["changed_disk"]) - set(r["expected"]))
            missing = sorted(set(r["expected"]) - set(r["changed_disk"]))
            ctx.fail({"kind": "touched-set", "mode": r["mode"], "extra": bool(extra), "missing": bool(missing)},
                     f"{r['mode']}: files changed != selected files with a trigger (incl={r['incl']} excl={r['excl']}): unexpected {extra[:4]}, not fixed {missing[:4]}; report {r['changed_rep'][:6]}",
                     rep)
        elif not r["outside_ok"]:
            ctx.fail({"kind": "outside-written", "mode": r["mode"]}, f"a file outside the target directory was modified (links {r['links']})", rep)
