"""C17 — exactly the requested codemods, once, in order. Model CM.Registry; tie = real CodemodRegistry + CLI."""
from __future__ import annotations

import fnmatch
import itertools
import json
import shutil

import common
import impl

LEAN_TARGETS = ["CM.Props.C17", "CM.Props.C17Live"]
THEOREMS = [
    "CM.Registry.C17_include_eq_ref",
    "CM.Registry.C17_exclude_eq_ref",
    "CM.Registry.C17_nodup",
    "CM.Registry.C17_unknown_ignored",
    "CM.Registry.C17_eligibility",
    "CM.Registry.C17_glob_literal",
    "CM.Registry.C17_glob_star_all",
    "CM.Registry.C17_glob_suffix",
    "CM.Registry.C17_csv_nodup",
    "CM.Registry.C17_live_ids_nodup",
    "CM.Registry.C17_live_default_excluded_registered",
    "CM.Registry.C17_live_origins",
    "CM.Registry.C17_live_include",
    "CM.Registry.C17_live_nodup",
]
RULE = (
    "include/exclude lists built from real ids, unknown ids and * patterns (prefix, infix, suffix, overlapping, lone *, regex "
    "metacharacters) against the live registry and random synthetic registries, both eligibility modes; real "
    "CodemodRegistry.match_codemods vs Lean matchCodemods; real CLI runs reading executed ids from the report; "
    "non-trivial = distinct request selecting at least one codemod"
)
ASSUMPTIONS = [
    "re.escape / re.fullmatch behave as an anchored glob for the generated patterns (checked by the correspondence, not proved)",
    "codemod ids are unique within a registry (instance theorem for the live registry; add_codemod_collection raises otherwise)",
]
LEVEL_TEXT = (
    "Lean 4 theorems over CM.Registry: for every registry with unique ids, every include list, exclude list and eligibility mode, "
    "match_codemods (as modelled) equals the reference selection of the property text (C17_include_eq_ref, C17_exclude_eq_ref), never "
    "selects an id twice (C17_nodup) and ignores unknown ids; instance theorems re-proved over the live registry regenerated from /repo "
    "on every run. Tied to the code by running the real CodemodRegistry.match_codemods and CsvListAction on the same requests as the "
    "Lean Driver (live and synthetic registries, metacharacter stream) and by real CLI runs whose executed ids are read from the report."
)
LEVEL_NOTE = (
    "Trusted: Lean kernel (propext, Quot.sound, Classical.choice); the regex engine behind _compile_pattern is validated by "
    "correspondence only; the executed sequence is read from the report's results[] (C15 covers report order = execution order)."
)
TECHNIQUE = "Lean 4 proof over hand-written model + regenerated instance data + differential correspondence"


def ref_select(reg, dflt, incl, excl, sast):
    """Independent Python reading of the property text (fnmatch-free: * is the only wildcard)."""
    import re

    def glob(p, s):
        return re.fullmatch(".*".join(re.escape(x) for x in p.split("*")), s, re.S) is not None

    if incl:
        out = []
        for name in incl:
            if "*" in name:
                out += [i for i, _ in reg if glob(name, i)]
            else:
                out += [i for i, _ in reg if i == name]
        seen, res = set(), []
        for i in out:
            if i not in seen:
                seen.add(i)
                res.append(i)
        return res
    ex = excl or dflt
    return [i for i, o in reg if (sast != (o == "pixee")) and not any(glob(e, i) if "*" in e else e == i for e in ex)]


def make_registry(pairs):
    """A real CodemodRegistry holding stub codemods with the given (id, origin)."""
    from codemodder.registry import CodemodRegistry

    class Stub:
        default_extensions = [".py"]

        def __init__(self, i, o):
            self.id, self.origin = i, o

    r = CodemodRegistry()
    for i, o in pairs:
        r._codemods_by_id[i] = Stub(i, o)
    return r


def gen_patterns(rng, ids, n):
    out = []
    for _ in range(n):
        k = rng.random()
        i = rng.choice(ids)
        name = i.split("/")[-1]
        if k < 0.3:
            out.append(i)
        elif k < 0.4:
            out.append(i + "-nope")
        elif k < 0.5:
            out.append(i.split("/")[0] + "/*")
        elif k < 0.6:
            a = rng.randint(1, len(name))
            out.append(i.split("/")[0] + "/" + name[:a] + "*")
        elif k < 0.7:
            a = rng.randint(0, len(name) - 1)
            out.append("*" + name[a:])
        elif k < 0.8:
            a = rng.randint(0, len(name) - 1)
            b = rng.randint(a, len(name))
            out.append("*" + name[a:b] + "*")
        elif k < 0.85:
            out.append("*")
        elif k < 0.9:
            out.append(rng.choice(["foo(*", "*[", "a.c*", "*+", "pixee:python/secure.random", "*\\", "**", "?*", "*$", "^*"]))
        else:
            a = rng.randint(1, len(name) - 1) if len(name) > 1 else 1
            out.append(i.split("/")[0] + "/" + name[:a] + "*" + name[-1:])
    return out


def corr(ctx):
    from codemodder import registry as R

    rng = ctx.rng
    live = R.load_registered_codemods()
    live_pairs = [(c.id, c.origin) for c in live.codemods]
    dflt = list(R.DEFAULT_EXCLUDED_CODEMODS)
    regs = [("live", live, live_pairs)]
    for k in range(ctx.pick(4, 12)):
        n = rng.randint(1, 8)
        pairs, seen = [], set()
        for _ in range(n):
            i = rng.choice(["pixee", "sonar", "semgrep"]) + ":python/" + "".join(rng.choice("abc-.") for _ in range(rng.randint(1, 4)))
            if i not in seen:
                seen.add(i)
                pairs.append((i, i.split(":")[0]))
        regs.append((f"syn{k}", make_registry(pairs), pairs))
    reqs, impls, metas = [], [], []
    for name, reg, pairs in regs:
        ids = [i for i, _ in pairs]
        N = ctx.pick(120, 800) if name == "live" else ctx.pick(25, 80)
        for _ in range(N):
            mode = rng.choice(["incl", "incl", "excl", "default"])
            incl = gen_patterns(rng, ids, rng.randint(1, 4)) if mode == "incl" else []
            excl = gen_patterns(rng, ids, rng.randint(1, 4)) if mode == "excl" or (mode == "incl" and rng.random() < 0.2) else []
            sast = rng.random() < 0.4
            try:
                got = {"ids": [c.id for c in reg.match_codemods(incl or None, excl or None, sast_only=(["f.json"] if sast else None))]}
            except Exception as e:
                got = {"raised": type(e).__name__}
            reqs.append({"op": "match_codemods", "registry": [list(p) for p in pairs], "default_excluded": dflt,
                         "include": incl, "exclude": excl, "sast": sast})
            impls.append(got)
            metas.append((name, pairs, incl, excl, sast, mode))
    models = common.lean_ask(reqs)
    for rq, im, mo, (name, pairs, incl, excl, sast, mode) in zip(reqs, impls, models, metas):
        nt = bool(im.get("ids"))
        small = {"registry": name, "include": incl, "exclude": excl, "sast": sast}
        ctx.corr_case("match_codemods", small if name == "live" else rq, im, mo, nt, branch=f"{mode}-{'sast' if sast else 'ff'}")
        ctx.search_case("select", small, nt)
        exp = ref_select(pairs, dflt, incl, excl, sast)
        if im.get("ids") != exp:
            kind = "raises" if "raised" in im else ("duplicate" if len(set(im["ids"])) != len(im["ids"]) else "wrong-selection")
            ctx.fail({"kind": f"select-{kind}", "mode": mode}, f"match_codemods {kind}: include={incl} exclude={excl} sast={sast} -> {str(im)[:200]}, reference {exp[:8]}",
                     {"request": rq, "impl": im, "reference": exp})
    # CsvListAction through the real parser
    from codemodder.cli import parse_args

    reqs, impls = [], []
    for _ in range(ctx.pick(40, 200)):
        items = [rng.choice(["a", "b", "pixee:python/x", "*", "", "a"]) for _ in range(rng.randint(1, 5))]
        v = ",".join(items)
        ns = parse_args(["d", f"--codemod-include={v}"], live)
        reqs.append({"op": "csv_list", "value": v})
        impls.append({"items": ns.codemod_include})
    for rq, im, mo in zip(reqs, impls, common.lean_ask(reqs)):
        ctx.corr_case("csv_list", rq, im, mo, len(im["items"]) > 1, branch="csv")


def cli_case(case):
    root = common.tmpdir("c17")
    try:
        proj = root / "p"
        proj.mkdir()
        (proj / "a.py").write_text("x = 1\n")
        out = root / "r.codetf"
        argv = [str(proj), "--output", str(out), "--dry-run"] + case["args"]
        tool = case.get("tool", "none")
        if tool != "none":
            import json as _json
            flag, doc = {"sonar-issues": ("--sonar-issues-json", {"issues": []}), "sonar-hotspots": ("--sonar-hotspots-json", {"hotspots": []}),
                         "sarif": ("--sarif", {"version": "2.1.0", "runs": [{"tool": {"driver": {"name": "Semgrep OSS"}}, "results": []}]}),
                         "defectdojo": ("--defectdojo-findings-json", {"results": []})}[tool]
            rf = root / "tool-results.json"
            rf.write_text(_json.dumps(doc))
            argv += [flag, str(rf)]
        import os
        os.environ["PATH"] = str(common.VERIF / "harness" / "bin") + ":" + os.environ["PATH"]
        res = impl.run_cli(argv)
        rep = impl.read_report(out)
        return {"res": list(res), "ids": [r["codemod"] for r in rep["results"]] if rep else None}
    finally:
        shutil.rmtree(root, ignore_errors=True)


def search(ctx):
    """Real CLI: executed ids (report order) == reference selection."""
    from codemodder import registry as R

    rng = ctx.rng
    live = R.load_registered_codemods()
    pairs = [(c.id, c.origin) for c in live.codemods]
    ids = [i for i, _ in pairs]
    dflt = list(R.DEFAULT_EXCLUDED_CODEMODS)
    cases = [
        {"args": ["--codemod-include", "pixee:python/secure-*,pixee:python/secure-random"], "incl": ["pixee:python/secure-*", "pixee:python/secure-random"], "excl": []},
        {"args": ["--codemod-include", "*cookie"], "incl": ["*cookie"], "excl": []},
        {"args": ["--codemod-include", "foo(*,pixee:python/use-generator"], "incl": ["foo(*", "pixee:python/use-generator"], "excl": []},
        {"args": ["--codemod-include", "pixee:python/use-generator,pixee:python/use-generator"], "incl": ["pixee:python/use-generator"], "excl": []},
        {"args": [], "incl": [], "excl": []},
        # empty entries of the comma-separated value are unknown ids (ignored with a warning), not "no include list"
        {"args": ["--codemod-include="], "incl": [""], "excl": []},
        {"args": ["--codemod-include=,,"], "incl": [""], "excl": []},
        {"args": ["--codemod-include=,pixee:python/use-generator,"], "incl": ["", "pixee:python/use-generator"], "excl": []},
        {"args": ["--codemod-exclude=,pixee:python/use-generator,"], "incl": [], "excl": ["", "pixee:python/use-generator"]},
    ]
    fixed = len(cases)
    for _ in range(ctx.pick(10, 60)):
        if rng.random() < 0.6:
            incl = gen_patterns(rng, ids, rng.randint(1, 3))
            cases.append({"args": ["--codemod-include", ",".join(incl)], "incl": list(dict.fromkeys(incl)), "excl": []})
        else:
            excl = gen_patterns(rng, ids, rng.randint(1, 3))
            cases.append({"args": ["--codemod-exclude", ",".join(excl)], "incl": [], "excl": list(dict.fromkeys(excl))})
    cases = cases[:fixed] + [c for c in cases[fixed:] if not any("," in p or p == "" for p in c["incl"] + c["excl"])]
    # which kind of tool result file is supplied decides the eligible set: Sonar *issue* files and SARIF files make it the
    # tool-specific codemods; a hotspots file or DefectDojo findings alone do not
    for i, c in enumerate(cases):
        c["tool"] = "none" if i < fixed - 1 else rng.choice(["none", "sonar-issues", "sonar-hotspots", "sarif", "defectdojo"])
    for t in ["sonar-issues", "sonar-hotspots", "sarif", "defectdojo"]:
        cases.append({"args": [], "incl": [], "excl": [], "tool": t})
        cases.append({"args": ["--codemod-exclude", "pixee:python/use-generator"], "incl": [], "excl": ["pixee:python/use-generator"], "tool": t})
    res = impl.pool_map(cli_case, cases)
    for c, r in zip(cases, res):
        if r[0] != "ok":
            ctx.broke("c17 cli harness", r[1])
            continue
        r = r[1]
        exp = ref_select(pairs, dflt, c["incl"], c["excl"], c.get("tool") in ("sonar-issues", "sarif"))
        ctx.search_case("cli", c["args"] + [c.get("tool", "none")], bool(exp))
        if r["res"] != ["exit", 0] or r["ids"] != exp:
            kind = "cli-crash" if r["res"] != ["exit", 0] else ("cli-duplicate" if r["ids"] and len(set(r["ids"])) != len(r["ids"]) else "cli-wrong-selection")
            ctx.fail({"kind": kind}, f"CLI {c['args']} (tool results: {c.get('tool', 'none')}): result {r['res']}, executed {str(r['ids'])[:200]}, reference {exp[:6]}",
                     {"args": c["args"], "tool": c.get("tool", "none"), "impl": r, "reference": exp})
