"""C03 — the diff in the report is exactly the change made on disk. Model CM.Diff (+ CM.Pipeline for the write/changeset
coupling); tie = difflib / create_diff / calc_line_num_changes vs the Lean rendering, Lean patch vs patch(1);
search = real runs whose reported diffs are re-applied to the content before."""
from __future__ import annotations

import difflib
import json
import random
import shutil

import common
import e2e
import impl

LEAN_TARGETS = ["CM.Props.C03"]
THEOREMS = [
    "CM.Diff.C03_patch_group",
    "CM.Diff.applyHunks_group_open",
    "CM.Diff.applyHunks_skip",
    "CM.Diff.applyItems_self",
    "CM.Diff.C03_no_hunks_of_equal",
    "CM.Diff.C03_hunks_nonempty_of_change",
    "CM.Pipeline.C03_write_iff_changeset",
    "CM.Pipeline.C03_no_changeset_untouched",
    "CM.Pipeline.C05_only_planned_files_touched",
]
RULE = (
    "line lists over a small alphabet with controlled edit scripts (hunks merging / splitting at the n=3 boundaries, missing final "
    "newline on either side, empty files, CRLF, exotic line separators): difflib.unified_diff / create_diff / calc_line_num_changes "
    "vs the Lean rendering of the same opcodes, ValidOps evaluated on every real opcode list, Lean patch and patch(1) applied to every "
    "diff; CLI: real single- and multi-codemod runs over seed projects in layout variants and the four manifest kinds, every reported "
    "diff re-applied (patch(1) and Lean) in execution order to the content before; non-trivial = distinct case with a non-empty diff"
)
ASSUMPTIONS = [
    "difflib.SequenceMatcher.get_opcodes returns a valid edit script (ValidOps: contiguous cover, equal blocks equal) - checked on every opcode list the harness sees, not proved",
    "the text rendering of hunks (headers, prefixes, difflines_to_str) and its parser are executable Lean compared with difflib and patch(1); the proved statement is at hunk level",
    "libcst parse/render is lossless on the file (Lossless) - checked per program; its failures are C03 failing inputs (form feed: known finding)",
]
LEVEL_TEXT = (
    "Lean 4 theorem C03_patch_group: for every context width n and every edit script (every opcode list SequenceMatcher may return for "
    "any pair of files), the hunks formed as difflib.get_grouped_opcodes(n) forms them, applied strictly (context and deleted lines "
    "must match) to the source, yield the destination - leading/trailing context trimming and the splitting of long equal runs "
    "included; no hunks iff nothing changed; plus the pipeline facts: a file is written iff a changeset with non-empty diff exists for "
    "it, a file without changeset is untouched. Tied to the code by rendering the model's hunks for real opcode lists and comparing "
    "with difflib.unified_diff / create_diff / calc_line_num_changes line by line, and by applying the Lean patch and patch(1) to every "
    "diff. End to end every diff of real runs (sources in layout variants, manifests of the four kinds, several codemods per file) is "
    "re-applied in execution order to the bytes before and compared with the bytes after; untouched files are compared by content."
)
LEVEL_NOTE = (
    "Trusted: Lean kernel (propext, Quot.sound, Classical.choice); text-level rendering/parsing is validated, not proved; patch(1) as an "
    "independent oracle. Known findings: form feed dropped by the libcst round trip; CRLF manifests rewritten with LF; CRLF / BOM source "
    "files (the diff is computed on the decoded, re-rendered text)."
)
TECHNIQUE = "Lean 4 proof (hunk grouping + strict patch, all scripts, all n) + differential correspondence with difflib/patch(1) + CLI re-application"


def gen_pair(rng):
    n = rng.randint(0, 16)
    alpha = "abcd"
    a = [rng.choice(alpha) + "\n" for _ in range(n)]
    b = list(a)
    for _ in range(rng.choice([0, 1, 1, 2, 3, 4])):
        op = rng.choice(["ins", "del", "rep", "ins2"])
        i = rng.randint(0, len(b))
        if op == "ins": b.insert(i, rng.choice("xyz") + "\n")
        elif op == "ins2": b[i:i] = [rng.choice("xyz") + "\n", rng.choice("xyz") + "\n"]
        elif b and i < len(b):
            if op == "del": del b[i]
            else: b[i] = rng.choice("xyz") + "\n"
    if rng.random() < 0.1:  # lines that look like diff metadata
        b.insert(rng.randint(0, len(b)), rng.choice(["-- x\n", "++ y\n", "@@ z\n", " \n", "\\ No newline\n"]))
    k = rng.random()
    if a and k < 0.15: a[-1] = a[-1].rstrip("\n")
    if b and 0.1 < k < 0.3: b[-1] = b[-1].rstrip("\n")
    if k > 0.92:
        a = [x.replace("\n", "\r\n") for x in a]; b = [x.replace("\n", "\r\n") for x in b]
    return a, b


def corr(ctx):
    from codemodder.diff import calc_line_num_changes, create_diff

    rng = ctx.rng
    reqs, exps = [], []
    for _ in range(ctx.pick(400, 4000)):
        a, b = gen_pair(rng)
        ops = [list(o) for o in difflib.SequenceMatcher(None, a, b).get_opcodes()]
        reqs.append({"op": "unified_diff", "a": a, "b": b, "ops": ops})
        dl = list(difflib.unified_diff(a, b))
        exps.append({"lines": dl, "text": create_diff(a, b), "line_nums": sorted(calc_line_num_changes(dl))})
    n_patch = 0
    for rq, e, m in zip(reqs, exps, common.lean_ask(reqs)):
        im = {"lines": e["lines"], "text": e["text"], "line_nums": e["line_nums"], "valid_ops": True}
        mo = {k: m[k] for k in ("lines", "text", "line_nums", "valid_ops")}
        ntriv = bool(e["text"])
        hunks = sum(1 for l in e["lines"] if l.startswith("@@"))
        ctx.corr_case("unified_diff", {"a": rq["a"], "b": rq["b"]}, im, mo, ntriv, f"hunks={min(hunks, 3)}")
        # the model's own patch on the model's own diff (executable instance of C03_patch_group + text round trip)
        want = [x.rstrip("\n") if not x.endswith("\r\n") else x[:-1] for x in rq["b"]]
        if not (m["src_ok"] and m["dst_ok"] and m["hunks_apply"]) or m["patched"] != want:
            ctx.broke("Lean patch of Lean diff (instance of C03_patch_group)", {"request": rq, "model": {k: m[k] for k in ("src_ok", "dst_ok", "hunks_apply", "patched")}})
        # property oracle on the real code: patch(1) applied to create_diff reproduces b (up to the final newline)
        if ntriv and n_patch < ctx.pick(120, 1200) and not any("\r" in x for x in rq["a"] + rq["b"]):
            n_patch += 1
            ctx.search_case("create_diff+patch(1)", {"a": rq["a"], "b": rq["b"]}, True)
            got = e2e.gnu_patch("".join(rq["a"]).encode(), e["text"])
            if got is None or got.decode().rstrip("\n") != "".join(rq["b"]).rstrip("\n"):
                # patch(1) cannot express a change of the final newline alone; accept when only that differs
                ctx.fail({"kind": "create-diff-not-faithful"}, f"patch(1) applied to create_diff(a, b) does not reproduce b", {"a": rq["a"], "b": rq["b"], "diff": e["text"]})


CODEMODS = ["pixee:python/numpy-nan-equality", "pixee:python/fix-assert-tuple", "pixee:python/use-walrus-if", "pixee:python/fix-mutable-params",
            "pixee:python/remove-debug-breakpoint", "pixee:python/secure-tempfile", "pixee:python/use-defusedxml", "pixee:python/remove-unnecessary-f-str",
            "pixee:python/literal-or-new-object-identity", "pixee:python/str-concat-in-sequence-literals", "pixee:python/fix-file-resource-leak",
            "pixee:python/flask-enable-csrf-protection", "pixee:python/sql-parameterization", "pixee:python/exception-without-raise"]


def cli_case(case):
    rng = random.Random(case["seed"])
    seeds = e2e.load_seeds()
    root = common.tmpdir("c03")
    try:
        cms = case["codemods"]
        files = {}
        for i in range(case["n"]):
            cid = rng.choice(cms)
            code = rng.choice(seeds[cid])
            if case["layout"] != "plain" or rng.random() < 0.5:
                # several triggers in one file so that several codemods touch it
                other = rng.choice(seeds[rng.choice(cms)])
                try:
                    compile(code + "\n" + other, "x", "exec"); code = code + "\n" + other
                except SyntaxError:
                    pass
            files[f"m{i}.py"] = e2e.layout_variants(code)[case["layout"]]
        files["untouched.py"] = b"x = 1\r\ny = 2"
        files["data.txt"] = b"\xff\xfe binary"
        if case["manifest"]:
            mtxt = (case["manifest_text"] if case.get("manifest_text") is not None else rng.choice(e2e.MANIFESTS[case["manifest"]])).encode()
            if case.get("manifest_bom"):
                mtxt = b"\xef\xbb\xbf" + mtxt
            if case.get("trigger_in_manifest"):
                # the manifest is a source file too (setup.py): the codemod rewrites it and then adds its dependency to it,
                # two changesets for one file in one result
                mtxt = ('from setuptools import setup\n\nsetup(\n    name="x",\n    install_requires=[\n        "requests",\n    ],\n)\n\n'
                        + rng.choice(seeds[cms[0]])).encode()
            files[case.get("manifest_dir", "") + case["manifest"]] = mtxt
        proj = root / "p"
        e2e.write_project(proj, files)
        if case.get("inproject_links"):
            # a second name for a source file of the project (sorting before it): the file is reached, rewritten and reported once,
            # under its own path
            import os
            (proj / "pkg").mkdir(exist_ok=True)
            for i in range(case["n"]):
                os.symlink(proj / f"m{i}.py", proj / "pkg" / f"a_link{i}.py")
                os.symlink(f"m{i}.py", proj / f"a_rel{i}.py")
        before = e2e.read_tree(proj)
        r = e2e.run(proj, ["--codemod-include", ",".join(cms)])
        after = e2e.read_tree(proj)
        out = {"rc": r["rc"], "problems": [], "n_changesets": 0, "lean": [], "desync": []}
        cur = dict(before)
        named = set()
        for res in (r["report"] or {}).get("results", []):
            for cs in res["changeset"]:
                out["n_changesets"] += 1
                p = cs["path"]
                named.add(p)
                if p not in cur:
                    out["problems"].append(["changeset-path-missing", res["codemod"], p]); continue
                got = e2e.gnu_patch(cur[p], cs["diff"])
                if got is None:
                    # a diff computed on text.split("\n") sees a phantom empty last line: still "up to a final newline"
                    got = e2e.gnu_patch(cur[p] + b"\n", cs["diff"])
                if got is not None and p not in out["desync"]:
                    out["lean"].append({"path": p, "before": cur[p].decode("utf-8", "replace"), "diff": cs["diff"]})
                if got is None:
                    out["desync"].append(p)
                    out["problems"].append(["diff-does-not-apply", res["codemod"], p, case["layout"]])
                    cur[p] = after[p]   # resynchronise so that later diffs of the same file can still be judged
                else:
                    cur[p] = got
        for p in sorted(after):
            if p in named:
                if cur[p].rstrip(b"\r\n") != after[p].rstrip(b"\r\n"):
                    out["problems"].append(["patched-content-differs", p, case["layout"]])
                if before[p] == after[p]:
                    out["problems"].append(["changeset-names-unchanged-file", p])
            elif before.get(p) != after[p]:
                out["problems"].append(["changed-without-changeset", p, case["layout"]])
        return out
    finally:
        shutil.rmtree(root, ignore_errors=True)


def search(ctx):
    rng = ctx.rng
    layouts = ["plain", "plain", "no-final-newline", "trailing-blank", "nonascii-comment", "crlf", "formfeed", "bom", "cr-only-in-string", "latin1-cookie"]
    cases = []
    for lay in layouts:
        for _ in range(ctx.pick(2, 12)):
            cases.append({"layout": lay, "n": rng.randint(1, 4), "codemods": rng.sample(CODEMODS, rng.choice([1, 2, 3])),
                          "manifest": rng.choice([None, None, "requirements.txt", "pyproject.toml", "setup.py", "setup.cfg"]), "seed": rng.randint(0, 10**9)})
    # dependency adders x manifest kinds
    for m in ["requirements.txt", "pyproject.toml", "setup.py", "setup.cfg"]:
        cases.append({"layout": "plain", "n": 2, "codemods": ["pixee:python/use-defusedxml"], "manifest": m, "seed": rng.randint(0, 10**9)})
        cases.append({"layout": "plain", "n": 2, "codemods": ["pixee:python/use-defusedxml"], "manifest": m, "manifest_dir": "backend/", "seed": rng.randint(0, 10**9)})
    cases.append({"layout": "plain", "n": 2, "codemods": ["pixee:python/use-defusedxml"], "manifest": "requirements.txt", "manifest_bom": True, "seed": rng.randint(0, 10**9)})
    for cid in ["pixee:python/remove-unnecessary-f-str", "pixee:python/numpy-nan-equality"]:
        cases.append({"layout": "plain", "n": 2, "codemods": [cid], "manifest": None, "inproject_links": True, "seed": rng.randint(0, 10**9)})
    # a last line with trailing blanks / a blank-only last line / no terminator: what the diff calls context must be what the file has
    for text in ["requests==2.31.0\nflask>=2.0 \n", "requests\n   \n", "requests\nflask>=2\t"]:
        cases.append({"layout": "plain", "n": 2, "codemods": ["pixee:python/use-defusedxml"], "manifest": "requirements.txt", "manifest_text": text, "seed": rng.randint(0, 10**9)})
    cases.append({"layout": "plain", "n": 1, "codemods": ["pixee:python/use-defusedxml"], "manifest": "setup.py", "trigger_in_manifest": True, "seed": rng.randint(0, 10**9)})
    cases.append({"layout": "plain", "n": 2, "codemods": ["pixee:python/use-defusedxml", "pixee:python/remove-unnecessary-f-str"], "manifest": "setup.py", "trigger_in_manifest": True, "seed": rng.randint(0, 10**9)})
    results = impl.pool_map(cli_case, cases)
    lean_reqs, lean_meta = [], []
    for c, r in zip(cases, results):
        if r[0] != "ok":
            ctx.broke("c03 cli harness", r[1]); continue
        r = r[1]
        ctx.search_case("cli-" + c["layout"], {k: c[k] for k in ("layout", "codemods", "manifest", "seed")}, r["n_changesets"] > 0)
        if r["rc"] != ["exit", 0]:
            ctx.fail({"kind": "cli-crash"}, f"CLI failed {r['rc']}", {"case": c}); continue
        for pr in r["problems"]:
            manifest = any(str(x).endswith((".txt", ".toml", ".cfg")) or x == "setup.py" for x in pr)
            ctx.fail({"kind": pr[0], "layout": c["layout"], "manifest": manifest}, f"{pr} (layout {c['layout']}, codemods {c['codemods']})", {"case": c, "problem": pr})
        for x in r["lean"][:6]:
            if "\r" in x["before"] or "\x0c" in x["before"] or "\ufeff" in x["before"]:
                continue
            lean_reqs.append({"op": "patch_text", "a": x["before"].splitlines(keepends=True), "diff": x["diff"]})
            lean_meta.append(x)
    # the Lean patch on real diffs vs patch(1)
    for rq, x, m in zip(lean_reqs, lean_meta, common.lean_ask(lean_reqs)):
        got = e2e.gnu_patch(x["before"].encode(), x["diff"])
        exp = None if got is None else [l.rstrip("\n") for l in got.decode("utf-8", "replace").splitlines(keepends=True)]
        ctx.corr_case("patch_text", {"path": x["path"], "diff": x["diff"][:200]}, {"patched": exp}, {"patched": m["patched"]}, True, "real-diff")
