"""C04 — --dry-run touches nothing and predicts the real run. Model CM.Pipeline; tie = framework correspondence
(real codemodder.run with a synthetic registry) in both modes; search = real CLI on generated projects."""
from __future__ import annotations

import json
import random
import shutil

import common
import e2e
import impl
import synth

LEAN_TARGETS = ["CM.Props.Pipeline"]
THEOREMS = [
    "CM.Pipeline.C04_dry_world",
    "CM.Pipeline.applyOne_dry_world",
    "CM.Pipeline.processDeps_dry_world",
    "CM.Pipeline.writeStores_dry",
    "CM.Pipeline.C03_write_iff_changeset",
]
RULE = (
    "framework correspondence: random scenarios (files, 1-4 table-driven codemods of the three detector kinds, dependency adders, a "
    "requirements manifest, path options) executed by the real codemodder.run in-process with --dry-run and without, compared with "
    "the Lean run; CLI search: real core codemods (incl. the dependency adders) on generated projects with each of the four manifest "
    "kinds: tree snapshot equality after --dry-run and report equality with a real run on a copy; non-trivial = distinct scenario in "
    "which the real run changes at least one file"
)
ASSUMPTIONS = [
    "transformers, detectors and manifest writers are parameters of the model (table-driven in the correspondence); that each real "
    "writer honours dry_run is checked by the CLI search only",
    "file modification times are not compared",
]
LEVEL_TEXT = (
    "Lean 4 theorem C04_dry_world over CM.Pipeline: for every codemod list (arbitrary transformers/detectors, dependency adders), every "
    "store list and every world, a dry run leaves the world unchanged (all writes go through `commit`, including the manifest writers' "
    "result). The model is tied to the code by the framework correspondence: the real codemodder.run is executed in-process with a "
    "synthetic registry of table-driven codemods (real FindAndFixCodemod/RemediationCodemod, real LibcstTransformerPipeline, real "
    "semgrep detector against a double) in dry and real mode and compared (final tree, per-codemod changesets/failures/unfixed) with "
    "the Lean run. The report-equality clause and the four real manifest writers are searched through the real CLI."
)
LEVEL_NOTE = (
    "Trusted: Lean kernel (propext, Quot.sound, Classical.choice); the synthetic codemods and the semgrep double of the harness; "
    "report equality dry vs real is validated by search (known finding: a setup.py that is both rewritten and the dependency target)."
)
TECHNIQUE = "Lean 4 proof over hand-written pipeline model + framework correspondence + CLI snapshot search"


def corr(ctx):
    rng = ctx.rng
    scns = [synth.gen_scenario(rng, faults=rng.random() < 0.3) for _ in range(ctx.pick(30, 200))]
    jobs = [(s, d) for s in scns for d in (True, False)]
    reals = impl.pool_map(lambda j: synth.run_real(j[0], dry=j[1]), jobs)
    models = common.lean_ask([synth.model_request(s, dry=d) for s, d in jobs])
    for (s, d), r, m in zip(jobs, reals, models):
        if r[0] != "ok":
            ctx.broke("synthetic framework run", r[1]); continue
        r = r[1]
        diffs = synth.compare(r, m, s) if "err" not in m else [str(m)]
        changed = any(x["changeset"] for x in r["results"])
        small = {"dry": d, "codemods": [(c["id"], c["from"], c["to"], c["deps"]) for c in s["codemods"]], "files": [p for p, _ in s["world"]]}
        ctx.corr_case("run", small, {"diffs": diffs[:3], "rc": r["rc"]}, {"diffs": [], "rc": ["exit", 0]}, changed, "dry" if d else "real")
        # property oracle: dry leaves every file as it was
        if d:
            before = dict((p, c) for p, c in s["world"])
            touched = [p for p, c in r["world"] if p not in s["unparsable"] and before[p] != c]
            ctx.search_case("synthetic-dry", small, changed)
            if touched:
                ctx.fail({"kind": "dry-run-writes", "where": "synthetic"}, f"--dry-run modified {touched}", {"scenario": s})
    # single codemod: report dry == report real
    for s in scns:
        for c in s["codemods"][:1]:
            pass


REAL_CODEMODS = ["pixee:python/use-defusedxml", "pixee:python/numpy-nan-equality", "pixee:python/fix-assert-tuple",
                 "pixee:python/use-walrus-if", "pixee:python/remove-unnecessary-f-str", "pixee:python/secure-tempfile",
                 "pixee:python/flask-enable-csrf-protection", "pixee:python/fix-mutable-params", "pixee:python/order-imports"]
SEMGREP_DEP = ["pixee:python/url-sandbox", "pixee:python/sandbox-process-creation"]


def cli_case(case):
    rng = random.Random(case["seed"])
    seeds = e2e.load_seeds()
    root = common.tmpdir("c04")
    try:
        cid = case["codemod"]
        files, origin = e2e.seed_project(rng, seeds, [cid] + rng.sample(REAL_CODEMODS, 2), rng.randint(2, 5), case["manifest"])
        if case["manifest"] == "setup.py" and case.get("trigger_in_manifest"):
            files["setup.py"] = files["setup.py"] + "\n" + rng.choice(seeds[cid])
        if case.get("manifest_text") is not None:
            files[case["manifest"]] = case["manifest_text"]
        for rel, text in (case.get("more_manifests") or {}).items():
            files[rel] = text
        if case.get("legacy"):
            # a requirements file in a legacy encoding (the reader accepts what chardet recognises), the foreign bytes far from the end
            head = {"cp1251": "# зависимости проекта, не редактировать вручную; список пакетов для сборки и развёртывания\n".encode("cp1251"),
                    "utf-16": None, "latin-1": "# dépendances gérées à la main, à ne pas modifier sans prévenir l'équipe déjà citée\n".encode("latin-1")}[case["legacy"]]
            body = "requests==2.31.0\nflask>=2\nclick\njinja2\nwerkzeug\nitsdangerous\n"
            files["requirements.txt"] = (head + body.encode()) if head is not None else ("# deps\n" + body).encode("utf-16")
        a, b = root / "dry" / "proj", root / "real" / "proj"   # same directory name: order-imports classifies imports by the names of directories around the file
        e2e.write_project(a, files); e2e.write_project(b, files)
        snap = e2e.snapshot(a)
        opts = list(case.get("opts") or [])
        if case.get("sast"):
            # a tool-result driven codemod: the result file is the same for both runs
            it = case["sast"]
            for d in (a, b):
                (d / "code.py").write_text(it["code"])
            snap = e2e.snapshot(a)
            rf = root / "tool-results.json"
            rf.write_text(json.dumps(it["results"]))
            opts += [it["flag"], str(rf)]
        rd = e2e.run(a, ["--codemod-include", cid, "--dry-run"] + opts)
        same = e2e.snapshot(a) == snap
        rr = e2e.run(b, ["--codemod-include", cid] + opts)
        nd, nr = e2e.normalise_report(rd["report"]), e2e.normalise_report(rr["report"])
        changed_real = e2e.snapshot(b) != snap
        return {"rc": [rd["rc"], rr["rc"]], "tree_same": same, "report_same": json.dumps(nd, sort_keys=True) == json.dumps(nr, sort_keys=True),
                "changed_real": changed_real, "files": sorted(files), "dry_results": nd["results"] if nd else None, "real_results": nr["results"] if nr else None}
    finally:
        shutil.rmtree(root, ignore_errors=True)


def search(ctx):
    rng = ctx.rng
    cases = []
    for m in [None, "requirements.txt", "pyproject.toml", "setup.py", "setup.cfg"]:
        for cid in (REAL_CODEMODS[:3] + ["pixee:python/flask-enable-csrf-protection"]) if not ctx.thorough else REAL_CODEMODS:
            for _ in range(ctx.pick(1, 4)):
                cases.append({"codemod": cid, "manifest": m, "seed": rng.randint(0, 10**9)})
    for cid in SEMGREP_DEP[: ctx.pick(1, 2)]:
        for m in ["requirements.txt", "setup.cfg"] if not ctx.thorough else ["requirements.txt", "pyproject.toml", "setup.py", "setup.cfg"]:
            cases.append({"codemod": cid, "manifest": m, "seed": rng.randint(0, 10**9)})
    cases.append({"codemod": "pixee:python/use-defusedxml", "manifest": "setup.py", "trigger_in_manifest": True, "seed": rng.randint(0, 10**9)})
    # other options of the command line must not matter to either clause
    OPTS = [["--max-workers", "3"], ["--path-exclude", "nomatch/**"], ["--verbose"], ["--path-include", "**/*.py,*.py"], ["--project-name", "p"], ["--log-format", "json"]]
    for c in cases:
        if rng.random() < 0.5:
            c["opts"] = [x for o in rng.sample(OPTS, rng.randint(1, 2)) for x in o]
    items = json.loads((common.VERIF / "harness" / "corpus" / "sast_seeds.json").read_text())
    rng.shuffle(items)
    for it in items[: ctx.pick(4, 20)]:
        cases.append({"codemod": it["codemod"], "manifest": rng.choice([None, "requirements.txt"]), "sast": it, "seed": rng.randint(0, 10**9)})
    for enc in ["cp1251", "utf-16", "latin-1"]:
        cases.append({"codemod": rng.choice(["pixee:python/use-defusedxml", "pixee:python/flask-enable-csrf-protection"]), "manifest": "requirements.txt",
                      "legacy": enc, "seed": rng.randint(0, 10**9)})
    # manifests whose last line has no terminator (the writers re-terminate it: both runs must report the same edit)
    for m, text in [("requirements.txt", "requests==2.31.0\nflask>=2"), ("setup.cfg", "[metadata]\nname = x\n\n[options]\ninstall_requires =\n    requests\n    flask"),
                    ("pyproject.toml", '[project]\nname = "x"\nversion = "0.1"\ndependencies = [\n    "requests",\n]'),
                    ("setup.py", 'from setuptools import setup\n\nsetup(\n    name="x",\n    install_requires=[\n        "requests",\n    ],\n)')]:
        cases.append({"codemod": "pixee:python/use-defusedxml", "manifest": m, "manifest_text": text, "seed": rng.randint(0, 10**9)})
    # several manifests, the first one(s) in discovery order decline: the one that takes the package is reached by falling through
    DECLINING = {"pyproject.toml": '[project]\nname = "x"\nversion = "0.1"\n', "setup.py": 'from setuptools import setup\n\nREQUIRES = ["requests"]\nsetup(name="x", install_requires=REQUIRES)\n'}
    for more in [{"pyproject.toml": DECLINING["pyproject.toml"]}, {"setup.py": DECLINING["setup.py"]}, dict(DECLINING)]:
        for m, text in [("requirements.txt", "requests\n"), ("setup.cfg", "[options]\ninstall_requires =\n    requests\n")]:
            cases.append({"codemod": "pixee:python/use-defusedxml", "manifest": m, "manifest_text": text, "more_manifests": more, "seed": rng.randint(0, 10**9)})
    for c, r in zip(cases, impl.pool_map(cli_case, cases)):
        if r[0] != "ok":
            ctx.broke("c04 cli harness", r[1]); continue
        r = r[1]
        key = {"codemod": c["codemod"], "manifest": c["manifest"], "files": r["files"]}
        ctx.search_case("cli-dry", key, r["changed_real"])
        if r["rc"] != [["exit", 0], ["exit", 0]]:
            ctx.fail({"kind": "cli-crash", "codemod": c["codemod"]}, f"CLI failed {r['rc']}", {"case": c})
        elif not r["tree_same"]:
            ctx.fail({"kind": "dry-run-writes", "where": "cli", "manifest": c["manifest"]}, f"--dry-run changed the tree ({c['codemod']}, manifest {c['manifest']})", {"case": c, "files": r["files"]})
        elif not r["report_same"]:
            ctx.fail({"kind": "dry-report-differs", "codemod": c["codemod"], "manifest": c["manifest"], "trigger_in_manifest": bool(c.get("trigger_in_manifest")), "legacy": c.get("legacy") or ""},
                     f"report of --dry-run differs from the real run ({c['codemod']}, manifest {c['manifest']})", {"case": c, "dry": r["dry_results"], "real": r["real_results"]})
