"""C13 — line-level include/exclude. Models CM.Location (lineFilter, matchLine) / CM.Select (fileLinePatterns);
tie = translator (py2lean) + correspondence with the real functions; search = per-codemod subset enumeration via the CLI."""
from __future__ import annotations

import itertools
import random
import shutil
from pathlib import Path
from types import SimpleNamespace

import common
import e2e
import impl
import sites

LEAN_TARGETS = ["CM.Props.C13", "CM.Generated.PredsEq"]
THEOREMS = [
    "CM.Location.C13_filter_as_is",
    "CM.Location.C13_permitted_spec_full_fails",
    "CM.Location.C13_single_line_partial",
    "CM.Location.C13_excluded_not_selected",
    "CM.Location.C13_not_included_not_selected_partial",
    "CM.Location.C13_excludes_shadow_includes",
    "CM.Location.C13_permitted_selected",
    "CM.Location.C13_change_line",
    "CM.Location.C13_code_filter_spec_partial",
    "CM.Location.C13_dup_filter_eq",
    "CM.Select.C13_line_patterns_spellings",
    "CM.Generated.gen_match_line_eq",
    "CM.Generated.gen_match_line_rui_eq",
    "CM.Generated.gen_line_filter_eq",
    "CM.Generated.gen_line_filter_rui_eq",
]
RULE = (
    "line_filter / match_line: every position over lines {0..4} x every exclude/include list of length <=2 over {0..4} "
    "exhaustively, against the real filter_by_path_includes_or_excludes (base_visitor and the remove_unused_imports copy); "
    "file_line_patterns on generated pattern lists (relative, globbed, absolute, malformed); CLI: per find-and-fix codemod, a file "
    "with n single-line sites, all subsets as E, as I and E/I combined packed into one run per spelling; non-trivial = distinct "
    "scenario with at least one excluded or not-included site"
)
ASSUMPTIONS = [
    "which transformers consult the line filter at all is per-transformer libcst code: covered by the CLI enumeration only (partial)",
    "libcst position metadata (1-based lines) is assumed",
]
LEVEL_TEXT = (
    "Lean 4 theorems over CM.Location/CM.Select: with excludes only or includes only, a single-line node passes the line filter iff its "
    "line is permitted (C13_single_line_partial); excluded nodes are never selected; permitted ones always pass; the full statement is "
    "false on the unchanged code when both kinds are given for one file (C13_permitted_spec_full_fails: excludes shadow includes - a "
    "recorded known finding, the repository's own test test_includes_excludes pins that behaviour so it cannot be repaired by a fix: commit);  the change line is the node line, relative/globbed/absolute spellings give the same line list. The filter and match_line "
    "definitions are regenerated from the current source of base_visitor.py and remove_unused_imports.py by a translator and proved "
    "equal to the model on every run (gen_*_eq); the real functions are also run against the Driver exhaustively on a small grid. "
    "Whether each transformer calls the filter is searched through the real CLI: per codemod, all subsets of n single-line sites as "
    "excludes / includes / both, in three spellings."
)
LEVEL_NOTE = (
    "Partial: the per-transformer use of the filter is validated by enumeration, not proved. Trusted: Lean kernel (propext, Quot.sound, "
    "Classical.choice), the py2lean translator (whitelisted boolean/arithmetic subset of Python), libcst positions."
)
TECHNIQUE = "Lean 4 proof over model regenerated from source (translator) + exhaustive correspondence + CLI subset enumeration"


def pos(sl, el):
    from libcst._position import CodePosition, CodeRange

    return CodeRange(CodePosition(sl, 0), CodePosition(el, 5))


def corr_filter(ctx):
    from codemodder.codemods import base_visitor as BV
    from core_codemods import remove_unused_imports as RUI

    lines = range(0, 5)
    lists = [[]] + [[a] for a in lines] + [[a, b] for a in lines for b in lines]
    if not ctx.thorough:
        lists = [l for i, l in enumerate(lists) if i % 2 == ctx.seed % 2 or len(l) < 2]
    reqs, impls = [], []
    rui_cls = RUI.RemoveUnusedImportsCodemod if hasattr(RUI, "RemoveUnusedImportsCodemod") else None
    for sl in range(1, 4):
        for el in range(sl, 4):
            p = pos(sl, el)
            for E in lists:
                for I in lists[:: 3 if not ctx.thorough else 1]:
                    ns = SimpleNamespace(line_exclude=E, line_include=I)
                    got = BV.UtilsMixin.filter_by_path_includes_or_excludes(ns, p)
                    got2 = rui_cls.filter_by_path_includes_or_excludes(ns, p) if rui_cls else got
                    reqs.append({"op": "line_filter", "pos": [sl, 0, el, 5], "exclude": E, "include": I})
                    impls.append({"permitted": bool(got), "gen": bool(got), "gen_rui": bool(got2)})
    for rq, im, mo in zip(reqs, impls, common.lean_ask(reqs)):
        single = rq["pos"][0] == rq["pos"][2]
        ctx.corr_case("line_filter", rq, im, mo, bool(rq["exclude"] or rq["include"]),
                      ("single" if single else "multi") + ("-E" if rq["exclude"] else "") + ("-I" if rq["include"] else ""))
        # property oracle (independent): single-line node permitted iff not excluded and (no includes or included)
        if single:
            L = rq["pos"][0]
            exp = L not in rq["exclude"] and (not rq["include"] or L in rq["include"])
            for which in ("permitted", "gen_rui"):
                if im[which] != exp:
                    shape = "exclude-shadows-include" if rq["exclude"] and rq["include"] and L not in rq["exclude"] and im[which] else "other"
                    ctx.fail({"kind": "line-filter", "shape": shape, "copy": which}, f"line filter ({which}) on line {L} with exclude={rq['exclude']} include={rq['include']} gives {im[which]}, permitted is {exp}", {"request": rq, "impl": im})
    ctx.exhaustive_parts.append(f"line filter grid: {len(reqs)} (position, exclude, include) triples")


def corr_patterns(ctx):
    from codemodder.code_directory import file_line_patterns

    rng = ctx.rng
    reqs, impls = [], []
    base = "/proj/root"
    files = ["a.py", "pkg/mod.py", "pkg/sub/deep/mod.py", "x/a.py"]
    globs = ["a.py", "*a.py", "*/a.py", "**/a.py", "pkg/mod.py", "*mod.py", "pkg/*.py", "pkg/**/mod.py", "**/mod.py", "*", "*.py", "nomatch.py",
             base + "/a.py", base + "/pkg/mod.py", base + "/**/mod.py", base + "/pkg/*.py", "*/pkg/**/mod.py", "[ab].py", "?.py"]
    for _ in range(ctx.pick(300, 2000)):
        f = rng.choice(files)
        pats = []
        for _ in range(rng.randint(0, 4)):
            g = rng.choice(globs)
            k = rng.random()
            if k < 0.7: pats.append(f"{g}:{rng.randint(1, 30)}")
            elif k < 0.8: pats.append(g)
            elif k < 0.85: pats.append(f"{g}:{rng.randint(1, 9)}:{rng.randint(1, 9)}")
            elif k < 0.9: pats.append(f"{g}: {rng.randint(1, 9)} ")
            elif k < 0.95: pats.append(f"{g}:x")
            else: pats.append(f"{g}:")
        use_base = rng.random() < 0.85
        try:
            got = {"lines": file_line_patterns(Path(base) / f, pats, Path(base)) if use_base else file_line_patterns(Path(base) / f, pats)}
        except ValueError:
            got = {"raised": True}
        reqs.append({"op": "file_line_patterns", "abs": f"{base}/{f}", "rel": f if use_base else None, "patterns": pats})
        impls.append(got)
    for rq, im, mo in zip(reqs, impls, common.lean_ask(reqs)):
        ctx.corr_case("file_line_patterns", rq, im, mo, bool(im.get("lines")), "flp-" + ("raised" if "raised" in im else "ok"))


def corr(ctx):
    corr_filter(ctx)
    corr_patterns(ctx)


# ------------------------------------------------------------------------------------------ CLI enumeration


def spell(kind: str, proj: Path, rel: str, L: int | None) -> str:
    name = rel.split("/")[-1]
    g = {"rel": rel, "glob": "*/" + name, "glob2": "*" + name, "abs": str(proj / rel)}[kind]
    return g if L is None else f"{g}:{L}"


def c13_case(case):
    rng = random.Random(case["seed"])
    cid, code, n = case["codemod"], case["code"], case["n"]
    pads = [rng.randint(1, 3) for _ in range(n)]
    root = common.tmpdir("c13")
    try:
        proj = root / "p"
        lay = C = None
        why = "layout"
        # each site in its own function first (independent local names); module-level layout as a fallback
        for indent, wrap in ((4, "def"), (0, "if")):
            cand = sites.build(code, n, pads, indent, wrap)
            if cand is None:
                continue
            e2e.write_project(proj, {"pkg/base.py": cand.text})
            r0 = e2e.run(proj, ["--codemod-include", cid])
            after0 = (proj / "pkg/base.py").read_text()
            r = sites.changed_original_lines(cand, after0)
            if r is None:
                why = "markers-lost"; continue
            per_site, outside = {}, False
            for L in r[0]:
                s_ = cand.site_of_line(L)
                if s_ is None:
                    outside = True
                per_site.setdefault(s_, []).append(L)
            if outside:
                why = "change-outside-sites"; continue
            if len(per_site) != n or any(len(v) != 1 for v in per_site.values()):
                why = "not-n-single-line-sites"; continue
            lay, C = cand, [per_site[i][0] for i in range(n)]
            break
        if lay is None:
            return {"drop": why}
        text_lines = lay.text.splitlines()
        def attached_comment(L):
            i = L - 2                                        # index of the line above the site
            while i >= 0 and text_lines[i].strip().startswith(("import ", "from ")):
                i -= 1                                       # the site sits in a block of imports: look above the block
            return i >= 0 and text_lines[i].strip().startswith("#")
        if any(attached_comment(L) for L in C):
            # a comment directly above belongs to the statement (libcst: its leading lines; order-imports moves and reports the block
            # from there): not one of the property's single-line candidate sites
            return {"drop": "site-with-attached-comment"}
        rep0 = [c["lineNumber"] for res in (r0["report"] or {}).get("results", []) for cs in res["changeset"] for c in cs["changes"]]
        out = {"codemod": cid, "sites": C, "baseline_lines": sorted(set(rep0)), "scenarios": [],
               "single_line": all(sites.single_line_construct(lay.text, L) for L in C)}
        if not out["single_line"]:
            return out   # only the change-line clause is judged (on the unfiltered run) for multi-line constructs
        # scenarios
        subsets = [list(s) for k in range(0, n + 1) for s in itertools.combinations(C, k)]
        scen = [(E, []) for E in subsets if E] + [([], I) for I in subsets if I]
        scen += [([C[0]], [C[1]]), ([C[0]], [C[0], C[1]]), ([C[-1]], list(C))]
        for sp in case["spellings"]:
            e2e.write_project(proj, {f"pkg/f{j}.py": lay.text for j in range(len(scen))} | {"pkg/base.py": lay.text})
            incl, excl = [], []
            for j, (E, I) in enumerate(scen):
                rel = f"pkg/f{j}.py"
                if sp == "mixed":
                    # the lines of one file named in different spellings within one option (absolute names only on the exclude side:
                    # an absolute include is the recorded finding)
                    excl += [spell(["rel", "abs", "glob"][i % 3], proj, rel, L) for i, L in enumerate(E)]
                    incl += [spell(["glob", "rel"][i % 2], proj, rel, L) for i, L in enumerate(I)] if I else [spell("rel", proj, rel, None)]
                    continue
                excl += [spell(sp, proj, rel, L) for L in E]
                incl += [spell(sp, proj, rel, L) for L in I] if I else [spell(sp if sp != "abs" else "rel", proj, rel, None)]
            args = ["--codemod-include", cid, "--path-include", ",".join(incl)]
            if excl:
                args += ["--path-exclude", ",".join(excl)]
            r = e2e.run(proj, args)
            lines_by_file = {}
            for res in (r["report"] or {}).get("results", []):
                for cs in res["changeset"]:
                    lines_by_file.setdefault(cs["path"], set()).update(c["lineNumber"] for c in cs["changes"])
            for j, (E, I) in enumerate(scen):
                rel = f"pkg/f{j}.py"
                after = (proj / rel).read_text()
                rr = sites.changed_original_lines(lay, after)
                ch = rr[0] if rr else set(range(1, 10000))
                rew = sorted(L for L in C if L in ch)
                other = sorted(L for L in ch if L not in C)
                exp = sorted(L for L in C if L not in E and (not I or L in I))
                rl = sorted(lines_by_file.get(rel, set()))
                out["scenarios"].append({"spelling": sp, "E": E, "I": I, "rewritten": rew, "expected": exp, "other_changed": other,
                                         "report_lines": rl, "rc": r["rc"]})
            (proj / "pkg/base.py").write_text(lay.text)
        return out
    finally:
        shutil.rmtree(root, ignore_errors=True)


GLOB_FILES = ["a.py", "pkg/mod.py", "pkg/sub/deep/mod.py", "x/a.py"]
GLOBS = ["a.py", "*a.py", "*/a.py", "**/a.py", "pkg/mod.py", "*mod.py", "pkg/*.py", "pkg/**/mod.py", "**/mod.py", "*", "*.py", "nomatch.py",
         "$ABS/a.py", "$ABS/pkg/mod.py", "$ABS/**/mod.py", "$ABS/pkg/*.py", "*/pkg/**/mod.py", "[ab].py", "?.py", "pkg/sub/*/mod.py", "*/sub/deep/*"]
GLOB_TRIGGER = "import numpy as np\na = np.nan\nif a == np.nan:\n    pass\n"   # the rewritten line is line 3


def glob_case(case):
    """one glob as `--path-exclude g:3` (or include) over files at several depths; oracle = fnmatch on the absolute / relative path"""
    import fnmatch

    root = common.tmpdir("c13g")
    try:
        proj = root / "p"
        e2e.write_project(proj, {f: GLOB_TRIGGER for f in GLOB_FILES})
        g = case["glob"].replace("$ABS", str(proj))
        flag = "--path-exclude" if case["mode"] == "exclude" else "--path-include"
        r = e2e.run(proj, ["--codemod-include", "pixee:python/numpy-nan-equality", flag, f"{g}:3"])
        out = {}
        for f in GLOB_FILES:
            rewritten = (proj / f).read_text() != GLOB_TRIGGER
            m_rel, m_abs = fnmatch.fnmatch(f, g), fnmatch.fnmatch(str(proj / f), g)
            exp = (not (m_rel or m_abs)) if case["mode"] == "exclude" else m_rel
            out[f] = [rewritten, exp, m_rel, m_abs]
        return {"rc": r["rc"], "files": out}
    finally:
        shutil.rmtree(root, ignore_errors=True)


def search_globs(ctx):
    cases = [{"glob": g, "mode": m} for g in GLOBS for m in ("exclude", "include")]
    for c, r in zip(cases, impl.pool_map(glob_case, cases)):
        if r[0] != "ok":
            ctx.broke("c13 glob harness", r[1])
            continue
        r = r[1]
        for f, (rewritten, exp, m_rel, m_abs) in r["files"].items():
            ctx.search_case("cli-glob", {"glob": c["glob"], "mode": c["mode"], "file": f}, m_rel or m_abs)
            if r["rc"] != ["exit", 0]:
                ctx.fail({"kind": "cli-crash", "glob": c["glob"]}, f"CLI failed {r['rc']}", {"case": c})
            elif rewritten != exp:
                if c["mode"] == "include" and m_abs and not m_rel:
                    sig = {"kind": "permitted-line-not-fixed", "spelling": "abs", "glob": c["glob"]}
                else:
                    sig = {"kind": "line-pattern-glob", "mode": c["mode"], "glob": c["glob"]}
                ctx.fail(sig, f"--path-{c['mode']} '{c['glob']}:3' on {f}: line 3 {'was' if rewritten else 'was not'} rewritten, expected {'rewritten' if exp else 'left alone'} (glob matches relative={m_rel} absolute={m_abs})",
                         {"case": c, "file": f, "result": r["files"][f]})


ALIAS_FILE = "from os import (\n    getpid,\n    getcwd,\n    sep,\n)\nimport sys\nimport json, re\n\nprint(sep)\n"
ALIAS_LINES = {"getpid": 2, "getcwd": 3, "sys": 6, "json": 7, "re": 7}      # unused names and the line each one is written on


def alias_case(case):
    """unused-imports on a parenthesised from-import with one name per line: a `path:line` pattern speaks about the line of the
    *name*, not about the first line of the statement"""
    root = common.tmpdir("c13a")
    try:
        proj = root / "p"
        e2e.write_project(proj, {"mod.py": ALIAS_FILE})
        args = ["--codemod-include", "pixee:python/unused-imports"]
        if case["E"]: args += ["--path-exclude", ",".join(f"mod.py:{L}" for L in case["E"])]
        if case["I"]: args += ["--path-include", ",".join(f"mod.py:{L}" for L in case["I"])]
        r = e2e.run(proj, args)
        after = (proj / "mod.py").read_text()
        import re as _re
        left = {n for n in ALIAS_LINES if _re.search(r"\b" + n + r"\b", after.split("print(")[0])}
        lines = sorted({c["lineNumber"] for res in (r["report"] or {}).get("results", []) for cs in res["changeset"] for c in cs["changes"]})
        return {"rc": r["rc"], "removed": sorted(set(ALIAS_LINES) - left), "report_lines": lines, "after": after}
    finally:
        shutil.rmtree(root, ignore_errors=True)


def search_alias_lines(ctx):
    cases = [{"E": [], "I": []}] + [{"E": [L], "I": []} for L in (2, 3, 6, 7)] + [{"E": [], "I": [L]} for L in (2, 3, 6, 7)] + [{"E": [3, 6], "I": []}, {"E": [], "I": [2, 7]}]   # (excludes together with includes: the general enumeration, with its recorded finding)
    for c, r in zip(cases, impl.pool_map(alias_case, cases)):
        if r[0] != "ok":
            ctx.broke("c13 alias-line harness", r[1]); continue
        r = r[1]
        permitted = lambda L: L not in c["E"] and (not c["I"] or L in c["I"])
        want = sorted(n for n, L in ALIAS_LINES.items() if permitted(L))
        ctx.search_case("cli-alias-lines", c, want != sorted(ALIAS_LINES))
        if r["rc"] != ["exit", 0]:
            ctx.fail({"kind": "cli-crash", "codemod": "pixee:python/unused-imports"}, f"CLI failed {r['rc']}", {"case": c})
        elif r["removed"] != want:
            extra = [n for n in r["removed"] if n not in want]
            ctx.fail({"kind": "line-not-permitted-rewritten" if extra else "permitted-line-not-fixed", "codemod": "pixee:python/unused-imports", "spelling": "rel", "layout": "one-name-per-line"},
                     f"unused-imports with E={c['E']} I={c['I']}: removed {r['removed']}, the permitted unused names are {want}", {"case": c, "result": r})
        else:
            want_lines = sorted({ALIAS_LINES[n] for n in want})
            if r["report_lines"] != want_lines:
                ctx.fail({"kind": "change-line", "codemod": "pixee:python/unused-imports", "layout": "one-name-per-line"},
                         f"unused-imports with E={c['E']} I={c['I']}: change entries name lines {r['report_lines']}, the removed names are on lines {want_lines}", {"case": c, "result": r})


def search(ctx):
    search_globs(ctx)
    search_alias_lines(ctx)
    from codemodder.codemods.semgrep import SemgrepRuleDetector
    from codemodder.registry import load_registered_codemods

    reg = load_registered_codemods()
    semgrep_ids = {c.id for c in reg.codemods if isinstance(c.detector, SemgrepRuleDetector)}
    seeds = e2e.load_seeds()
    ids = sorted(k for k, v in seeds.items() if v)
    rng = ctx.rng
    if not ctx.thorough:
        libcst = [i for i in ids if i not in semgrep_ids]
        sg = [i for i in ids if i in semgrep_ids]
        rng.shuffle(libcst); rng.shuffle(sg)
        # codemods with a filter path of their own (unused-imports has its own line filter) take part in every run
        must = [i for i in ("pixee:python/unused-imports", "pixee:python/order-imports", "pixee:python/use-generator") if i in ids]
        ids = sorted(set(libcst[:14] + sg[:3] + must))
    cases = []
    for cid in ids:
        pool = seeds[cid]
        picks = pool if ctx.thorough else rng.sample(pool, min(3, len(pool)))
        for code in picks[: ctx.pick(3, 8)]:
            cases.append({"codemod": cid, "code": code, "n": rng.choice([2, 3]), "seed": rng.randint(0, 10**9),
                          "spellings": ["rel", "glob", "abs", "mixed"] if cid not in semgrep_ids or ctx.thorough else ["rel", "mixed"]})
    res = impl.pool_map(c13_case, cases)
    used = set()
    for c, r in zip(cases, res):
        if r[0] != "ok":
            ctx.broke("c13 e2e harness", r[1])
            continue
        r = r[1]
        if "drop" in r:
            ctx.dropped += 1
            ctx.stat("drop:" + r["drop"])
            continue
        used.add(c["codemod"])
        # clause 2 on the unfiltered run: an edit confined to one physical line is reported with that line
        ctx.search_case("cli-change-line", {"codemod": c["codemod"], "sites": r["sites"]}, True)
        miss = [L for L in r["sites"] if L not in r["baseline_lines"]]
        if miss:
            ctx.fail({"kind": "change-line", "codemod": c["codemod"], "missing_entry": True},
                     f"{c['codemod']}: the edit is confined to line(s) {r['sites']} but the change entries name lines {r['baseline_lines']}", {"case": c, "sites": r["sites"], "report_lines": r["baseline_lines"]})
        if not r["single_line"]:
            ctx.stat("multi-line-construct")
        for s in r["scenarios"]:
            key = {"codemod": c["codemod"], "E": [r["sites"].index(x) for x in s["E"]], "I": [r["sites"].index(x) for x in s["I"]], "sp": s["spelling"]}
            ctx.search_case("cli-lines", key, s["expected"] != r["sites"])
            rep = {"case": c, "sites": r["sites"], "scenario": s}
            if s["rc"] != ["exit", 0]:
                ctx.fail({"kind": "cli-crash", "codemod": c["codemod"]}, f"CLI failed {s['rc']}", rep)
                continue
            extra = [L for L in s["rewritten"] if L not in s["expected"]]
            missing = [L for L in s["expected"] if L not in s["rewritten"]]
            if extra:
                ctx.fail({"kind": "line-not-permitted-rewritten", "codemod": c["codemod"], "spelling": s["spelling"],
                          "via": "exclude" if any(L in s["E"] for L in extra) else "include", "combined": bool(s["E"] and s["I"])},
                         f"{c['codemod']}: line(s) {extra} rewritten although not permitted (E={s['E']} I={s['I']} spelling={s['spelling']}; sites {r['sites']})", rep)
            elif missing:
                ctx.fail({"kind": "permitted-line-not-fixed", "codemod": c["codemod"], "spelling": s["spelling"]},
                         f"{c['codemod']}: permitted line(s) {missing} not rewritten (E={s['E']} I={s['I']} spelling={s['spelling']}; sites {r['sites']})", rep)
            else:
                bad_ref = [L for L in s["report_lines"] if L in r["sites"] and L not in s["rewritten"]]
                no_entry = [L for L in s["rewritten"] if L not in s["report_lines"]]
                if bad_ref or no_entry:
                    ctx.fail({"kind": "change-line", "codemod": c["codemod"], "missing_entry": bool(no_entry), "stale_entry": bool(bad_ref)},
                             f"{c['codemod']}: change entries {s['report_lines']} vs rewritten lines {s['rewritten']} (E={s['E']} I={s['I']})", rep)
    ctx.notes.append(f"codemods exercised through the CLI enumeration: {len(used)}: {sorted(used)}")
