"""C19 — regex and XML pipelines edit only their targets. Models CM.LinePipe / CM.XmlEv; tie = the real
RegexTransformerPipeline / SastRegexTransformerPipeline / XMLTransformerPipeline on generated text and XML."""
from __future__ import annotations

import io
import json
import re
import shutil
import uuid
from pathlib import Path
from types import SimpleNamespace

import common
import e2e

LEAN_TARGETS = ["CM.Props.C19"]
THEOREMS = [
    "CM.LinePipe.C19_regex_lines",
    "CM.LinePipe.C19_regex_other_lines",
    "CM.LinePipe.C19_regex_changes_eq_edits",
    "CM.LinePipe.C19_findings_at_line",
    "CM.LinePipe.C19_sast_only_finding_lines",
    "CM.LinePipe.C19_sast_changes_on_finding_lines",
    "CM.LinePipe.C19_pipe_write",
    "CM.XmlEv.C19_xml_attr_events",
    "CM.XmlEv.C19_xml_attr_other",
    "CM.XmlEv.C19_mergeAttrs_keeps",
    "CM.XmlEv.C19_xml_newel_no_parent",
    "CM.XmlEv.C19_escape_roundtrip",
    "CM.XmlEv.C19_cdata_preserved",
    "CM.XmlEv.C19_dtd_forms",
]
RULE = (
    "text files (3-12 lines over a small vocabulary, with and without final newline, several files per process) x literal patterns x "
    "finding sets on arbitrary lines through the real regex pipelines (plain and SAST-driven, dry and real); well-formed XML documents "
    "(nesting, namespace prefixes, entities, CDATA, comments, processing instructions, DOCTYPE, mixed content, attribute values with "
    "quotes) through the real XMLTransformerPipeline with attribute maps / new elements and finding sets: the output bytes are compared "
    "with the Lean serialisation of the transformed event stream and re-parsed for the preservation oracle; non-trivial = distinct case "
    "with at least one edit"
)
ASSUMPTIONS = [
    "re.sub is modelled as literal replacement (the harness generates literal patterns only)",
    "expat / defusedxml event generation is not modelled: the event stream the model consumes is recorded from the same parser configuration",
]
LEVEL_TEXT = (
    "Lean 4 theorems: the regex pipeline maps `sub` over the lines (same length, unchanged lines identical), its changes are exactly the "
    "edited lines (1-based) each carrying the findings whose range covers that line; the SAST-driven variant can only alter lines on which "
    "a finding starts; nothing is written without a change and nothing differs under dry-run; the XML attribute transformer is a pointwise "
    "map on the event stream touching only targeted, matched start tags; the new-element transformer only inserts before matching end "
    "tags; escaping character data round-trips for every string; CDATA content and the DOCTYPE declaration are written back as they were. Tied to the code by running the real pipelines on generated inputs and comparing changes, unfixed findings, "
    "written bytes (XML: byte-for-byte against the Lean serialisation of the transformed events)."
)
LEVEL_NOTE = (
    "Trusted: Lean kernel (propext, Quot.sound, Classical.choice); expat's event stream; literal patterns only. Two defects found by this check were repaired (CDATA "
    "content re-escaped; `<!DOCTYPE r>` re-emitted with PUBLIC \"None\" \"None\")."
)
TECHNIQUE = "Lean 4 proof over line/event-stream models + byte-level differential correspondence with the real pipelines"

VOCAB = ["http://a", "https://b", "plain", "x=1", "http://c http://d", "", "tail http://"]


def mk_results(rng, nlines):
    from codemodder.codetf import Finding, Rule
    from codemodder.result import LineInfo, Location, SASTResult

    class L(Location):
        pass

    objs, model = [], []
    for k in range(rng.randint(0, 4)):
        locs = []
        for _ in range(rng.choice([1, 1, 2])):
            a = rng.randint(1, nlines + 1)
            locs.append((a, a + rng.choice([0, 0, 1])))
        has = rng.random() < 0.9
        objs.append(SASTResult(rule_id="r", finding_id=f"F{k}", finding=Finding(id=f"F{k}", rule=Rule(id="r", name="r")) if has else None,
                               locations=[L(file=Path("t.txt"), start=LineInfo(a, 1), end=LineInfo(b, 2)) for a, b in locs]))
        model.append({"id": f"F{k}" if has else None, "locs": [list(x) for x in locs]})
    return objs, model


def corr_regex(ctx, tmp):
    from codemodder.codemods.regex_transformer import RegexTransformerPipeline, SastRegexTransformerPipeline
    from codemodder.file_context import FileContext

    rng = ctx.rng
    reqs, impls, extra = [], [], []
    for k in range(ctx.pick(150, 1200)):
        n = rng.randint(1, 10)
        lines = [rng.choice(VOCAB) + "\n" for _ in range(n)]
        if rng.random() < 0.25:
            lines[-1] = lines[-1].rstrip("\n")
        text = "".join(lines)
        crlf = rng.random() < 0.2 or k < 6
        if crlf:
            text = text.replace("\n", "\r\n")      # Windows line endings: they stay, and the reported diff is a diff of this file
        if rng.random() < 0.15:
            text = "\ufeff" + text      # a file that starts with a UTF-8 byte order mark: the mark belongs to line 1 and stays
        frm, to = rng.choice([("http:", "https:"), ("x=1", "x=2"), ("zzz", "y"), ("plain", "plain")])
        sast = rng.random() < 0.5
        dry = rng.random() < 0.3
        objs, model = mk_results(rng, n)
        use_none = (not sast) and rng.random() < 0.3
        f = tmp / f"t-{uuid.uuid4().hex}.txt"
        f.write_bytes(text.encode("utf-8"))
        fc = FileContext(tmp, f, [], [], None if use_none else objs)
        pipe = (SastRegexTransformerPipeline if sast else RegexTransformerPipeline)(re.compile(re.escape(frm)), to, "desc")
        cs = pipe.apply(SimpleNamespace(dry_run=dry, directory=tmp), fc, None if use_none else objs)
        after = f.read_bytes().decode()
        im = {"changes": [{"line": c.lineNumber, "findings": [x.id for x in (c.findings or [])]} for c in (cs.changes if cs else [])],
              "unfixed": sorted({u.lineNumber for u in fc.unfixed_findings}) if sast else [], "changeset": cs is not None,
              "written": after if after != text or (cs is not None) else None}
        rq = {"op": "regex_pipe", "from": frm, "to": to, "lines": text.splitlines(keepends=True), "sast": sast, "dry": dry,
              "results": None if use_none else model}
        reqs.append(rq); impls.append(im); extra.append((text, after, cs, objs, model, sast, dry, frm, to))
    for rq, im, mo, (text, after, cs, objs, model, sast, dry, frm, to) in zip(reqs, impls, common.lean_ask(reqs), extra):
        # the model reports unfixed *lines*; the implementation only records them when the line has findings
        mo2 = dict(mo)
        if sast:
            have = {l for m in model for a, b in m["locs"] for l in range(a, b + 1) if m["id"] is not None}
            mo2["unfixed"] = sorted(set(mo["unfixed"]) & have)
        if mo2["written"] is None and im["written"] is not None and not im["changeset"]:
            pass
        if not im["changeset"]:
            im = dict(im, written=None)
        ctx.corr_case("regex_pipe", rq, im, mo2, bool(im["changes"]), ("sast" if sast else "plain") + ("-dry" if dry else "") + ("-chg" if im["changes"] else ""))
        # property oracle (independent of the model)
        ctx.search_case("regex", rq, bool(im["changes"]))
        src, out = text.splitlines(keepends=True), after.splitlines(keepends=True)
        finding_lines = {a for m in model for a, _ in m["locs"]}
        bad = None
        if dry and after != text:
            bad = ("dry-run-writes", "the file was modified under dry-run")
        elif len(src) != len(out):
            bad = ("line-count", f"line count changed {len(src)} -> {len(out)}")
        else:
            edited = [i + 1 for i, (a, b) in enumerate(zip(src, out)) if a != b]
            if not dry:
                for i, (a, b) in enumerate(zip(src, out), 1):
                    if a != b and (frm not in a or (sast and i not in finding_lines)):
                        bad = ("non-target-line-changed", f"line {i} changed although it is not a target")
                if not bad and cs is not None and [c["line"] for c in im["changes"]] != edited:
                    bad = ("changes-ne-edits", f"changes {[c['line'] for c in im['changes']]} but edited lines {edited}")
            if not bad:
                for c in im["changes"]:
                    exp = [m["id"] for m in model if m["id"] is not None and any(a <= c["line"] <= b for a, b in m["locs"])] if rq["results"] is not None else []
                    if c["findings"] != exp:
                        bad = ("regex-findings-line", f"change on line {c['line']} carries findings {c['findings']}, the findings at that line are {exp}")
        if not bad and cs is not None and not dry:
            # the reported diff is a diff of the file: applied to the content before it gives the content written (up to a final newline)
            patched = e2e.gnu_patch(text.encode("utf-8"), cs.diff)
            want = after.encode("utf-8")
            if patched is None or patched.rstrip(b"\r\n") != want.rstrip(b"\r\n"):
                bad = ("diff-does-not-reproduce-file", "the reported diff " + ("is rejected by patch(1)" if patched is None else "applied to the original does not give the file written")
                       + (" (CRLF file)" if "\r\n" in text else ""))
        if bad:
            ctx.fail({"kind": bad[0], "pipeline": "sast-regex" if sast else "regex", "crlf": "\r\n" in text}, bad[1], {"request": rq, "impl": im, "after": after})


# ------------------------------------------------------------------------------------------ XML


def gen_xml(rng):
    names = ["a", "b", "cfg", "ns:item", "target", "p"]
    def attrs():
        out = []
        for k in rng.sample(["x", "y", "id", "ns:k"], rng.randint(0, 3)):
            out.append(f'{k}="{rng.choice(["1", "v w", "a&amp;b", "q&quot;q", "it&apos;s", "&lt;t&gt;", "tab&#9;x"])}"')
        return (" " + " ".join(out)) if out else ""
    def node(depth):
        n = rng.choice(names)
        kids = []
        for _ in range(rng.randint(0, 3) if depth < 3 else 0):
            k = rng.random()
            if k < 0.45: kids.append(node(depth + 1))
            elif k < 0.65: kids.append(rng.choice(["text", " mixed &amp; content ", "1 &lt; 2", "café ✓", "\n   "]))
            elif k < 0.75: kids.append(f"<!-- {rng.choice(['note', 'a - b', ''])} -->")
            elif k < 0.85: kids.append("<![CDATA[" + rng.choice(["raw", "a<b", "x && y", ""]) + "]]>")
            elif k < 0.92: kids.append("<?pi data here?>")
            else: kids.append("\n")
        sep = rng.choice(["", "", "\n", "\n  "])
        if kids and rng.random() < 0.25:
            # a comment / CDATA section / processing instruction directly after the start tag (compact documents)
            kids.insert(0, rng.choice(["<!-- c -->", "<![CDATA[x<y]]>", "<?pi first?>"]))
        return f"<{n}{attrs()}>{sep}{sep.join(kids)}{sep}</{n}>"
    prolog = rng.choice(["", '<?xml version="1.0"?>\n', '<?xml version="1.0" encoding="utf-8"?>\n'])
    dtd = rng.choice(["", "", "", "<!DOCTYPE cfg>\n", '<!DOCTYPE cfg SYSTEM "x.dtd">\n'])
    root = node(0)
    if "ns:" in root:
        root = root.replace(">", ' xmlns:ns="urn:x">', 1) if not root.startswith("<ns:") else root.replace(">", ' xmlns:ns="urn:x">', 1)
    return prolog + dtd + root + rng.choice(["", "\n"])


def record_events(path):
    from xml.sax import handler
    from xml.sax.handler import ContentHandler, LexicalHandler
    from defusedxml.sax import make_parser

    evs = []

    class H(ContentHandler, LexicalHandler):
        def setDocumentLocator(self, loc): self.loc = loc
        def startDocument(self): evs.append({"t": "startDoc"})
        def endDocument(self): evs.append({"t": "endDoc"})
        def startElement(self, name, attrs): evs.append({"t": "start", "name": name, "attrs": [[k, v] for k, v in attrs.items()], "line": self.loc.getLineNumber(), "col": self.loc.getColumnNumber()})
        def endElement(self, name): evs.append({"t": "end", "name": name, "line": self.loc.getLineNumber()})
        def characters(self, c): evs.append({"t": "chars", "s": c})
        def ignorableWhitespace(self, c): evs.append({"t": "ignorable", "s": c})
        def processingInstruction(self, target, data): evs.append({"t": "pi", "target": target, "data": data})
        def comment(self, c): evs.append({"t": "comment", "s": c})
        def startCDATA(self): evs.append({"t": "startCDATA"})
        def endCDATA(self): evs.append({"t": "endCDATA"})
        def startDTD(self, name, pub, sys): evs.append({"t": "startDTD", "name": name, "pub": pub, "sys": sys})
        def endDTD(self): evs.append({"t": "endDTD"})

    h = H()
    p = make_parser()
    p.setContentHandler(h)
    p.setProperty(handler.property_lexical_handler, h)
    p.parse(str(path))
    return evs


def significant(evs):
    """event stream modulo whitespace-only character data and chunking (the preservation oracle)"""
    out, buf = [], ""
    def flush():
        nonlocal buf
        if buf.strip():
            out.append(("chars", buf.strip()))
        buf = ""
    for e in evs:
        if e["t"] in ("chars", "ignorable"):
            buf += e["s"]
            continue
        flush()
        if e["t"] == "start": out.append(("start", e["name"], tuple(sorted(map(tuple, e["attrs"])))))
        elif e["t"] == "end": out.append(("end", e["name"]))
        elif e["t"] == "pi": out.append(("pi", e["target"], e["data"]))
        elif e["t"] == "comment": out.append(("comment", e["s"]))
        elif e["t"] in ("startCDATA", "endCDATA"): out.append((e["t"],))
        elif e["t"] == "startDTD": out.append(("dtd", e["name"], e.get("pub"), e.get("sys")))
    flush()
    return out


def corr_xml(ctx, tmp):
    from codemodder.codemods.xml_transformer import (ElementAttributeXMLTransformer, NewElement, NewElementXMLTransformer,
                                                     XMLTransformerPipeline)
    from codemodder.codetf import Finding, Rule
    from codemodder.file_context import FileContext
    from codemodder.result import LineInfo, Location, SASTResult

    class L(Location):
        pass

    rng = ctx.rng
    reqs, impls, extra = [], [], []
    for k in range(ctx.pick(120, 900)):
        text = gen_xml(rng)
        f = tmp / f"d-{uuid.uuid4().hex}.xml"
        f.write_text(text, encoding="utf-8", newline="")
        try:
            evs = record_events(f)
        except Exception:
            continue
        kind = rng.choice(["attr", "attr", "new"])
        starts = [e for e in evs if e["t"] == "start"]
        results_model = objs = None
        present = sorted({e["name"] for e in starts}) or ["zz"]
        amap = {(rng.choice(present) if rng.random() < 0.85 else "zz"): {rng.choice(["x", "new"]): rng.choice(["9", 'q"q', "a<b"])} for _ in range(rng.randint(1, 2))}
        news = [NewElement(name="added", parent_name=(rng.choice(present) if rng.random() < 0.85 else "zz"), content=rng.choice(["", "t&t", "v"]), attributes=rng.choice([{}, {"k": "v"}]))]
        if kind == "attr" and rng.random() < 0.5 and starts:
            cands = [e for e in starts if e["name"] in amap] or starts
            picks = rng.sample(cands, min(len(cands), rng.randint(1, 2)))
            objs, results_model = [], []
            for i, e in enumerate(picks):
                col = e["col"] + 1 + (rng.choice([0, 0, 0, 1]))
                objs.append(SASTResult(rule_id="r", finding_id=f"X{i}", finding=Finding(id=f"X{i}", rule=Rule(id="r", name="r")),
                                       locations=[L(file=Path("d.xml"), start=LineInfo(e["line"], col), end=LineInfo(e["line"], col + 3))]))
                results_model.append([[e["line"], col]])

        if kind == "attr":
            class T(ElementAttributeXMLTransformer):
                change_description = "attr"
                def __init__(self, out, file_context, results=None, **kw):
                    super().__init__(out, file_context, name_attributes_map=amap, results=results, **kw)   # whatever else the pipeline passes goes through
        else:
            class T(NewElementXMLTransformer):
                change_description = "new"
                def __init__(self, out, file_context, results=None, **kw):
                    super().__init__(out, file_context, results=results, new_elements=news, **kw)
        fc = FileContext(tmp, f, [], [], objs)
        dry = rng.random() < 0.2
        cs = XMLTransformerPipeline(T).apply(SimpleNamespace(dry_run=dry, directory=tmp), fc, objs)
        after = f.read_bytes().decode("utf-8")
        im = {"changeset": cs is not None, "failed": bool(fc.failures), "change_lines": [c.lineNumber for c in cs.changes] if cs else [],
              "text": after if (cs is not None and not dry) else None}
        rq = {"op": "xml_pipe", "kind": kind, "events": evs, "results": results_model, "line_only": False,
              "map": [[n, [[k2, v2] for k2, v2 in a.items()]] for n, a in amap.items()],
              "new": [{"name": x.name, "parent": x.parent_name, "content": x.content, "attrs": [[k2, v2] for k2, v2 in x.attributes.items()]} for x in news]}
        reqs.append(rq); impls.append(im); extra.append((text, after, evs, kind, amap, news, results_model, dry, f, cs))
    for rq, im, mo, (text, after, evs, kind, amap, news, results_model, dry, f, cs) in zip(reqs, impls, common.lean_ask(reqs), extra):
        changed = bool(mo["change_lines"])
        mo2 = {"changeset": changed, "failed": False, "change_lines": mo["change_lines"], "text": mo["text"] if (changed and not dry) else None}
        small = {"kind": kind, "doc": text[:300], "results": results_model, "dry": dry}
        ctx.corr_case("xml_pipe", small, im, mo2, changed, f"xml-{kind}" + ("-chg" if changed else "") + ("-results" if results_model is not None else ""))
        # preservation oracle (independent): re-parse the output; non-target content must be preserved
        ctx.search_case("xml", small, changed)
        # changes == edits (independent count of the targeted, matched events)
        if kind == "attr":
            def hit(e):
                if e["name"] not in amap: return False
                return results_model is None or any(l[0] == e["line"] and l[1] == e["col"] + 1 for r in results_model for l in r)
            exp_lines = [e["line"] for e in evs if e["t"] == "start" and hit(e)]
        else:
            exp_lines = [e["line"] for e in evs if e["t"] == "end" for x in news if x.parent_name == e["name"]]
        if im["change_lines"] != exp_lines or (cs is None) != (not exp_lines):
            ctx.fail({"kind": "xml-changes-ne-edits", "transformer": kind}, f"XML change entries on lines {im['change_lines']} (changeset={cs is not None}) but the targeted elements are on lines {exp_lines}",
                     {"doc": text, "map": rq["map"], "new": rq["new"], "results": results_model})
            continue
        if dry and after != text:
            ctx.fail({"kind": "dry-run-writes", "pipeline": "xml"}, "the XML file was modified under dry-run", {"doc": text}); continue
        if cs is None or dry:
            if after != text:
                ctx.fail({"kind": "xml-written-without-change"}, "the XML file was rewritten although no change is reported", {"doc": text, "after": after})
            continue
        try:
            evs2 = record_events(f)
        except Exception as e:
            ctx.fail({"kind": "xml-output-not-wellformed"}, f"the rewritten document does not parse: {e}", {"doc": text, "after": after}); continue
        a, b = significant(evs), significant(evs2)
        # remove what the transformation is allowed to do
        def strip(sig, is_out):
            out = []
            skip = 0
            for x in sig:
                if kind == "attr" and x[0] == "start" and x[1] in amap:
                    out.append(("start", x[1], tuple(sorted((k2, v2) for k2, v2 in x[2] if k2 not in amap[x[1]])))); continue
                out.append(x)
            return out
        a2, b2 = strip(a, False), strip(b, True)
        if kind == "new":
            # drop the inserted <added ...>content</added> triples from the output
            names = {x.name for x in news}
            b3, i = [], 0
            while i < len(b2):
                if b2[i][0] == "start" and b2[i][1] in names:
                    j = i
                    while not (b2[j][0] == "end" and b2[j][1] in names): j += 1
                    i = j + 1; continue
                b3.append(b2[i]); i += 1
            b2 = b3
        if a2 != b2:
            diff = next((i for i, (x, y) in enumerate(zip(a2, b2)) if x != y), min(len(a2), len(b2)))
            what = (a2[diff] if diff < len(a2) else None, b2[diff] if diff < len(b2) else None)
            cls = "cdata" if any(x[0] == "startCDATA" for x in a) and what[0] and what[0][0] == "chars" else ("dtd" if (what[0] and what[0][0] == "dtd") else "other")
            ctx.fail({"kind": "xml-content-not-preserved", "what": cls}, f"non-target XML content changed: {what[0]} -> {what[1]}", {"doc": text, "after": after})


def corr(ctx):
    tmp = common.tmpdir("c19")
    corr_regex(ctx, tmp)
    corr_xml(ctx, tmp)
    shutil.rmtree(tmp, ignore_errors=True)
