"""C15 — the CodeTF report is well-formed, complete and internally consistent. Model CM.Pipeline (compileResults, the
changeset gates); tie = framework correspondence on whole reports; search = structural validation of real reports."""
from __future__ import annotations

import json
import random
import shutil
import uuid

import common
import e2e
import impl
import synth
from validate_codetf import validate

LEAN_TARGETS = ["CM.Props.Pipeline"]
THEOREMS = [
    "CM.Pipeline.C15_one_result_per_codemod",
    "CM.Pipeline.C03_write_iff_changeset",
    "CM.Pipeline.C15_failed_xor_changed",
    "CM.Pipeline.C10_failed_file",
]
RULE = (
    "framework correspondence: whole normalised reports of random scenarios (all detector kinds, faults, dependency changes) compared "
    "with the Lean compileResults; CLI search: reports of real runs (zero codemods, zero files, failures, dependency changes, non-ASCII "
    "content, SAST runs, the default codemod set) checked by a structural validator written from the property; non-trivial = distinct "
    "report with at least one changeset or failure"
)
ASSUMPTIONS = [
    "pydantic serialisation (model_dump_json) and the CodeTF JSON schema itself are not modelled; the validator encodes the structural "
    "rules stated in the property and the field set of codetf.py",
    "a line number 'inside the file' is a per-transformer fact (contract LineInRange), validated by the search only",
]
LEVEL_TEXT = (
    "Lean 4 theorems over CM.Pipeline: the report has one result per codemod handed to run, in order (C15_one_result_per_codemod); a "
    "changeset exists only with a non-empty diff and at least one change and exactly when the file is written (C03_write_iff_changeset); "
    "one file job yields a failure or a changeset, never both (C15_failed_xor_changed); a failed file reports all its findings as "
    "unfixed. Tied to the code by comparing the real reports of synthetic-registry runs with the Lean compileResults; every report "
    "produced by real runs in the search is checked by an independent structural validator."
)
LEVEL_NOTE = (
    "Trusted: Lean kernel (propext, Quot.sound, Classical.choice); the validator is my reading of the property; JSON serialisation by "
    "pydantic is third-party."
)
TECHNIQUE = "Lean 4 proof over hand-written pipeline/report model + framework correspondence + structural report validation"


def corr(ctx):
    rng = ctx.rng
    scns = [synth.gen_scenario(rng, faults=rng.random() < 0.5) for _ in range(ctx.pick(40, 250))]
    reals = impl.pool_map(synth.run_real, scns)
    models = common.lean_ask([synth.model_request(s) for s in scns])
    for s, r, m in zip(scns, reals, models):
        if r[0] != "ok":
            ctx.broke("synthetic framework run", r[1]); continue
        r = r[1]
        d = synth.compare(r, m, s) if "err" not in m else [str(m)]
        nt = any(x["changeset"] or x["failedFiles"] for x in r["results"])
        small = {"codemods": [(c["id"], c["det"]) for c in s["codemods"]], "files": [p for p, _ in s["world"]], "dry": s["dry"]}
        ctx.corr_case("run-report", small, {"diffs": d[:3], "rc": r["rc"]}, {"diffs": [], "rc": ["exit", 0]}, nt, "report")
        ctx.search_case("synthetic-report", small, nt)
        if r["report"] is not None:
            errs = validate(r["report"], None, [c["id"] for c in s["codemods"]])
            if errs:
                ctx.fail({"kind": "report-invalid", "where": "synthetic", "rule": errs[0].split(":")[-1][:40]}, "; ".join(errs[:3]), {"scenario": s})


def cli_case(case):
    rng = random.Random(case["seed"])
    seeds = e2e.load_seeds()
    root = common.tmpdir("c15")
    try:
        proj = root / "p"
        kind = case["kind"]
        args, ids = [], None
        if kind == "zero-codemods":
            e2e.write_project(proj, {"a.py": "x = 1\n"})
            args = ["--codemod-include", "pixee:python/does-not-exist"]; ids = []
        elif kind == "zero-files":
            proj.mkdir(parents=True)
            args = ["--codemod-include", "pixee:python/numpy-nan-equality,pixee:python/fix-assert-tuple"]
            ids = ["pixee:python/numpy-nan-equality", "pixee:python/fix-assert-tuple"]
        elif kind == "mixed":
            cms = rng.sample(case["pool"], min(len(case["pool"]), rng.randint(1, 4)))
            cms = cms if "manifest" not in case else list(case["pool"])
            files, _ = e2e.seed_project(rng, seeds, cms, rng.randint(2, 6), case.get("manifest") or rng.choice([None, "requirements.txt", "setup.cfg", "pyproject.toml"]),
                                        manifest_dir=case.get("manifest_dir") if "manifest_dir" in case else rng.choice(["", "", "backend/"]))
            files["bad.py"] = "def (:\n"
            files["uni.py"] = "# -*- coding: utf-8 -*-\nnom = 'héllo wörld ✓'\nimport numpy as np\nif nom == np.nan:\n    pass\n"
            e2e.write_project(proj, files)
            args = ["--codemod-include", ",".join(cms)]; ids = cms
        elif kind == "sast":
            items = json.loads((common.VERIF / "harness" / "corpus" / "sast_seeds.json").read_text())
            it = rng.choice(items)
            e2e.write_project(proj, {"code.py": it["code"]})
            rf = root / f"res-{uuid.uuid4().hex}.json"
            rf.write_text(json.dumps(it["results"]))
            args = ["--codemod-include", it["codemod"], it["flag"], str(rf)]; ids = [it["codemod"]]
        elif kind == "two-runs":
            # an earlier run in the same interpreter met a file it could not process; this run (another project) must not inherit anything
            cms = rng.sample(["pixee:python/numpy-nan-equality", "pixee:python/fix-assert-tuple", "pixee:python/use-walrus-if"], 2)
            first = root / "first"
            e2e.write_project(first, {"m.py": "def (:\n", "n.py": rng.choice(seeds[cms[0]])})
            e2e.run(first, ["--codemod-include", ",".join(cms)])
            e2e.write_project(proj, {"m.py": rng.choice(seeds[cms[0]]), "n.py": rng.choice(seeds[cms[1]])})
            args = ["--codemod-include", ",".join(cms)]; ids = cms
        elif kind == "same-output-twice":
            # the report path is reused: a long report (the run that fixes the project), then a short one (nothing left to do)
            cms = ["pixee:python/numpy-nan-equality", "pixee:python/fix-assert-tuple", "pixee:python/use-walrus-if"]
            e2e.write_project(proj, {f"m{i}.py": rng.choice(seeds[cms[i % 3]]) for i in range(6)})
            out = root / "report.codetf"
            lens = []
            for _ in range(2):
                before = e2e.read_tree(proj)
                rc = impl.run_cli([str(proj), "--output", str(out), "--codemod-include", ",".join(cms)])
                lens.append(out.stat().st_size if out.exists() else -1)
            rep = impl.read_report(out)
            errs = validate(rep, proj, cms, e2e.read_tree(proj), before) if rep is not None else [f"the report written over an earlier, longer one is not valid JSON (sizes {lens})"]
            return {"rc": list(rc), "errs": errs[:5], "nontrivial": lens[0] > lens[1] > 0, "args": ["--output <same path twice>"]}
        before = e2e.read_tree(proj)
        r = e2e.run(proj, args)
        after = e2e.read_tree(proj)
        errs = validate(r["report"], proj, ids, after, before) if r["report"] is not None else ["no report written"]
        nt = bool(r["report"]) and any(x["changeset"] or x.get("failedFiles") for x in r["report"]["results"])
        return {"rc": r["rc"], "errs": errs[:5], "nontrivial": nt, "args": [a for a in args if "/var/tmp" not in a]}
    finally:
        shutil.rmtree(root, ignore_errors=True)


POOL = ["pixee:python/numpy-nan-equality", "pixee:python/fix-assert-tuple", "pixee:python/use-walrus-if", "pixee:python/fix-mutable-params",
        "pixee:python/use-defusedxml", "pixee:python/flask-enable-csrf-protection", "pixee:python/secure-tempfile", "pixee:python/order-imports",
        "pixee:python/unused-imports", "pixee:python/sql-parameterization", "pixee:python/fix-file-resource-leak", "pixee:python/lazy-logging"]


def search(ctx):
    rng = ctx.rng
    cases = [{"kind": "zero-codemods", "seed": 0}, {"kind": "zero-files", "seed": 0}]
    cases += [{"kind": "mixed", "seed": rng.randint(0, 10**9), "pool": POOL} for _ in range(ctx.pick(12, 80))]
    cases += [{"kind": "sast", "seed": rng.randint(0, 10**9)} for _ in range(ctx.pick(8, 40))]
    # a dependency adder with its manifest in a sub-directory (every run has these, not only the seeds that draw them)
    for m in ["requirements.txt", "pyproject.toml", "setup.cfg"]:
        cases.append({"kind": "mixed", "seed": rng.randint(0, 10**9), "pool": ["pixee:python/use-defusedxml"], "manifest": m, "manifest_dir": "backend/"})
    cases += [{"kind": "two-runs", "seed": rng.randint(0, 10**9)} for _ in range(ctx.pick(2, 8))]
    cases += [{"kind": "same-output-twice", "seed": rng.randint(0, 10**9)} for _ in range(ctx.pick(1, 3))]
    for c, r in zip(cases, impl.pool_map(cli_case, cases)):
        if r[0] != "ok":
            ctx.broke("c15 cli harness", r[1]); continue
        r = r[1]
        ctx.search_case("cli-" + c["kind"], {"kind": c["kind"], "seed": c["seed"], "args": r["args"]}, r["nontrivial"])
        if r["rc"] != ["exit", 0]:
            ctx.fail({"kind": "cli-crash", "case": c["kind"]}, f"CLI failed {r['rc']} ({r['args']})", {"case": {k: v for k, v in c.items() if k != 'pool'}})
        elif r["errs"]:
            ctx.fail({"kind": "report-invalid", "where": "cli", "rule": r["errs"][0].split(":")[-1].strip()[:40], "codemod": ":".join(r["errs"][0].split(":")[:2])},
                     "; ".join(r["errs"][:3]) + f" ({r['args']})",
                     {"case": {k: v for k, v in c.items() if k != 'pool'}, "errors": r["errs"]})
