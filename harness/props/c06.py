"""C06 — SAST fixes land exactly on the reported findings. Models CM.Location / CM.RS / CM.Readers; tie = translator +
correspondence with the real match_location variants, get_findings_for_location and result lookups; search = 2^n subset
enumeration per SAST codemod through the real CLI."""
from __future__ import annotations

import copy
import itertools
import json
import random
import shutil
import uuid
from pathlib import Path

import common
import e2e
import impl
import sites

LEAN_TARGETS = ["CM.Props.C06", "CM.Generated.PredsEq"]
THEOREMS = [
    "CM.Location.C06_selected_sound",
    "CM.Location.C06_selected_complete",
    "CM.Location.C06_code_match_sound",
    "CM.Location.C06_code_match_complete",
    "CM.Location.C06_sites_separate",
    "CM.Location.C06_sonar_tuple",
    "CM.Location.C06_sonar_other",
    "CM.Location.C06_dd_spec",
    "CM.Location.C06_no_result_no_selection",
    "CM.Location.C06_findings_exact",
    "CM.Location.C06_foreign_finding_not_attached",
    "CM.Readers.C06_only_own_results",
    "CM.Readers.C06_foreign_results_empty",
    "CM.Generated.gen_same_line_eq",
    "CM.Generated.gen_fuzzy_column_match_eq",
    "CM.Generated.gen_match_location_eq",
    "CM.Generated.gen_dd_match_location_eq",
    "CM.Generated.gen_finding_covers_eq",
]
RULE = (
    "match_location (generic / Sonar / DefectDojo), same_line, fuzzy_column_match: every node position over lines {1,2} x columns "
    "{0..3} against every location on the same grid (+-1 line) exhaustively, real methods vs Lean model and vs the definitions "
    "translated from the current source; get_findings_for_location on generated result lists; CLI: per SAST codemod, n in {2,3} "
    "copies of a trigger at random line offsets (and column offset 4), result file synthesised in the tool's format, ALL 2^n "
    "subsets of reported sites plus foreign-rule / foreign-file / resolved decoys; non-trivial = distinct proper non-empty subset"
)
ASSUMPTIONS = [
    "which node type a transformer inspects, and whether it calls node_is_selected, is per-transformer libcst code: covered by the subset enumeration only (partial)",
    "libcst position metadata: 1-based lines, 0-based columns, exclusive end",
]
LEVEL_TEXT = (
    "Lean 4 theorems over CM.Location/CM.Readers: a node is matched only if a finding's location points at it (C06_selected_sound), a "
    "finding located exactly at a node always selects it (C06_selected_complete), findings on other lines never select it "
    "(C06_sites_separate), with results but no match nothing is selected, the findings attached to a change are exactly those whose "
    "range covers the line (C06_findings_exact), and the lookup hands over only findings of the requested rule in the requested file "
    "(C06_only_own_results). match_location, same_line, fuzzy_column_match, the DefectDojo matcher and the finding-range test are "
    "regenerated from the current source by the translator and proved equal to the model on every run; the real methods are also run "
    "against the Driver on an exhaustive grid. The per-transformer part (sites rewritten == sites reported, change entries carry "
    "exactly their findings) is enumerated through the real CLI for every SAST codemod with a harvested trigger."
)
LEVEL_NOTE = (
    "Partial: transformer bodies are not modelled. Trusted: Lean kernel (propext, Quot.sound, Classical.choice), the py2lean translator, "
    "libcst positions; Sonar/Semgrep findings carry the rule id as their id, so per-site identity of findings is checked for DefectDojo only."
)
TECHNIQUE = "Lean 4 proof over model regenerated from source (translator) + exhaustive correspondence + 2^n CLI subset enumeration"


def mk_pos(sl, sc, el, ec):
    from libcst._position import CodePosition, CodeRange

    return CodeRange(CodePosition(sl, sc), CodePosition(el, ec))


def corr_match(ctx):
    import libcst as cst
    from codemodder.result import LineInfo, Location, SASTResult, fuzzy_column_match, same_line
    from core_codemods.defectdojo.results import DefectDojoResult
    from core_codemods.sonar.results import SonarResult

    class L(Location):
        pass

    def loc(sl, sc, el, ec):
        return L(file=Path("a.py"), start=LineInfo(sl, sc), end=LineInfo(el, ec))

    tup = cst.Tuple(elements=[])
    name = cst.Name("x")
    cols = range(0, 4)
    positions = [(1, a, 1, b) for a in cols for b in cols] + [(1, a, 2, b) for a in (0, 2) for b in (1, 3)]
    locs1 = [(1, a, 1, b) for a in range(0, 5) for b in range(0, 5)] + [(2, 1, 2, 2), (1, 1, 2, 2), (0, 1, 1, 2)]
    if not ctx.thorough:
        locs1 = [l for i, l in enumerate(locs1) if i % 2 == ctx.seed % 2 or i >= 25]
    reqs, impls = [], []
    rng = ctx.rng
    for p in positions:
        for l in locs1:
            for extra in ([], [(2, 0, 2, 1)]):
                ls = [l] + extra
                pos = mk_pos(*p)
                objs = [loc(*x) for x in ls]
                isT = rng.random() < 0.5
                node = tup if isT else name
                g = SASTResult(rule_id="r", finding_id="1", locations=objs)
                s = SonarResult(rule_id="r", finding_id="1", locations=objs)
                d = DefectDojoResult(rule_id="r", finding_id="1", locations=objs)
                im = {"generic": bool(g.match_location(pos, node)), "sonar": bool(s.match_location(pos, node)),
                      "defectdojo": bool(d.match_location(pos, node)),
                      "same_line": [bool(same_line(pos, o)) for o in objs], "fuzzy": [bool(fuzzy_column_match(pos, o)) for o in objs]}
                im.update({"gen_generic": im["generic"], "gen_defectdojo": im["defectdojo"], "gen_same_line": im["same_line"], "gen_fuzzy": im["fuzzy"]})
                reqs.append({"op": "match_location", "pos": list(p), "locs": [list(x) for x in ls], "tuple": isT})
                impls.append(im)
    for rq, im, mo in zip(reqs, impls, common.lean_ask(reqs)):
        ok = ctx.corr_case("match_location", rq, im, mo, im["generic"] or im["sonar"] or im["defectdojo"],
                           "match-" + ("g" if im["generic"] else "") + ("s" if im["sonar"] else "") + ("d" if im["defectdojo"] else "") + ("-tuple" if rq["tuple"] else ""))
        # property oracle (independent): exact location (tool columns = libcst + 1) must select; a location on other lines must not
        p, l = rq["pos"], rq["locs"][0]
        exact = l[0] == p[0] and l[2] == p[2] and l[1] == p[1] + 1 and l[3] == p[3] + 1
        other_line = all(x[0] != p[0] for x in rq["locs"])
        if exact and not im["generic"]:
            ctx.fail({"kind": "match-location", "shape": "exact-not-selected"}, f"Result.match_location misses a finding located exactly at the node: pos {p} loc {l}", {"request": rq, "impl": im})
        # a node is selected only if some finding points at it: same lines, start / end columns equal or one less (tool columns 1-based)
        points_at = any(x[0] == p[0] and x[2] == p[2] and p[1] in (x[1] - 1, x[1]) and p[3] in (x[3] - 1, x[3]) for x in rq["locs"])
        if im["generic"] and not points_at:
            ctx.fail({"kind": "match-location", "shape": "selected-without-pointing-finding"}, f"Result.match_location selects a node no finding points at: pos {p} locs {rq['locs']}", {"request": rq, "impl": im})
        if other_line and im["generic"]:
            ctx.fail({"kind": "match-location", "shape": "other-line-selected"}, f"Result.match_location selects a node for a finding on another line: pos {p} locs {rq['locs']}", {"request": rq, "impl": im})
    ctx.exhaustive_parts.append(f"match_location grid: {len(reqs)} (position, locations) pairs")


def corr_findings(ctx):
    from codemodder.codetf import Finding, Rule
    from codemodder.file_context import FileContext
    from codemodder.result import LineInfo, Location, SASTResult

    class L(Location):
        pass

    rng = ctx.rng
    reqs, impls, exps = [], [], []
    for _ in range(ctx.pick(200, 1500)):
        rs, model_rs = [], []
        for k in range(rng.randint(0, 5)):
            locs = [(rng.randint(1, 6), 1, 0, 1) for _ in range(rng.choice([1, 1, 2, 0]))]
            locs = [(a, b, a + rng.choice([0, 0, 1, 2]), d) for a, b, _, d in locs]
            has = rng.random() < 0.85
            f = Finding(id=str(k), rule=Rule(id="r", name="r")) if has else None
            rs.append(SASTResult(rule_id="r", finding_id=str(k), finding=f,
                                 locations=[L(file=Path("a.py"), start=LineInfo(a, b), end=LineInfo(c, d)) for a, b, c, d in locs]))
            model_rs.append({"locs": [list(x) for x in locs], "finding": k if has else None})
        line = rng.randint(0, 8)
        fc = FileContext(Path("/p"), Path("/p/a.py"), [], [], rs if rng.random() < 0.9 else (rs or None))
        got = [int(f.id) for f in fc.get_findings_for_location(line)]
        reqs.append({"op": "findings_for_line", "results": model_rs, "line": line})
        covers = [any(a <= line <= c for a, _, c, _ in [tuple(x) for x in r["locs"]]) for r in model_rs]
        impls.append({"findings": got, "gen_covers": covers})
        exps.append([r["finding"] for r, c in zip(model_rs, covers) if c and r["finding"] is not None])
    for rq, im, mo, ex in zip(reqs, impls, common.lean_ask(reqs), exps):
        ctx.corr_case("findings_for_line", rq, im, mo, bool(im["findings"]), "findings")
        if im["findings"] != ex:
            ctx.fail({"kind": "findings-for-line"}, f"get_findings_for_location({rq['line']}) = {im['findings']}, reference {ex}", {"request": rq, "impl": im})


def corr(ctx):
    corr_match(ctx)
    corr_findings(ctx)


# ------------------------------------------------------------------------------------------ CLI subset enumeration


def shift_loc(tool, region_like, dl, dc):
    if tool == "sonar":
        tr = region_like
        tr["startLine"] += dl; tr["endLine"] += dl; tr["startOffset"] += dc; tr["endOffset"] += dc
    elif tool == "semgrep":
        rg = region_like
        rg["startLine"] += dl; rg["endLine"] = rg.get("endLine", rg["startLine"] - dl) + dl
        rg["startColumn"] += dc; rg["endColumn"] += dc


def entries_of(tool, doc):
    if tool == "sonar":
        return [("issues", e) for e in doc.get("issues") or []] + [("hotspots", e) for e in doc.get("hotspots") or []]
    if tool == "semgrep":
        return [("runs", r) for run in doc["runs"] for r in run["results"]]
    return [("results", e) for e in doc["results"]]


def entry_lines(tool, e):
    if tool == "sonar":
        tr = e.get("textRange")
        return [tr["startLine"], tr["endLine"]] if tr else []
    if tool == "semgrep":
        out = []
        for l in e.get("locations", []):
            rg = l["physicalLocation"]["region"]
            out += [rg["startLine"], rg.get("endLine", rg["startLine"])]
        return out
    return [e["line"]]


def place_entry(tool, e, fname, dl, dc, ident):
    e = copy.deepcopy(e)
    if tool == "sonar":
        e["component"] = f"proj:{fname}"
        e["key"] = ident
        e.setdefault("status", "OPEN")
        if e.get("textRange"):
            shift_loc(tool, e["textRange"], dl, dc)
        for fl in e.get("flows", []):
            for l in fl.get("locations", []):
                l["component"] = f"proj:{fname}"
                if l.get("textRange"):
                    shift_loc(tool, l["textRange"], dl, dc)
    elif tool == "semgrep":
        def fix(l):
            pl = l["physicalLocation"]
            pl["artifactLocation"]["uri"] = fname
            shift_loc(tool, pl["region"], dl, dc)
        for l in e.get("locations", []): fix(l)
        for l in e.get("relatedLocations", []): fix(l)
        for cf in e.get("codeFlows", []):
            for tf in cf.get("threadFlows", []):
                for l in tf.get("locations", []): fix(l["location"])
    else:
        e["file_path"] = fname
        e["line"] += dl
        e["id"] = ident
    return e


def build_doc(tool, seed_doc, placed):
    if tool == "sonar":
        d = {}
        for kind, e in placed:
            d.setdefault(kind, []).append(e)
        return d
    if tool == "semgrep":
        run0 = {k: v for k, v in seed_doc["runs"][0].items() if k != "results"}
        run0["results"] = [e for _, e in placed]
        return {"version": "2.1.0", "runs": [run0]}
    return {"results": [e for _, e in placed]}


def c06_case(case):
    rng = random.Random(case["seed"])
    seed, n, indent = case["item"], case["n"], case["indent"]
    tool, cid = seed["tool"], seed["codemod"]
    D = case.get("dir", "pkg")      # a tool's finding is acted on wherever the file lies: the default excludes of find-and-fix codemods do not apply
    lay = sites.build(seed["code"], n, [rng.randint(1, 3) for _ in range(n)], indent)
    if lay is None:
        return {"drop": "layout"}
    ents = entries_of(tool, seed["results"])
    if not ents or any(L <= lay.header_len for _, e in ents for L in entry_lines(tool, e)):
        return {"drop": "finding-in-header"}
    root = common.tmpdir("c06")
    try:
        proj = root / "p"
        out = {"codemod": cid, "tool": tool, "n": n, "indent": indent, "runs": []}
        subsets = [set(s) for k in range(0, n + 1) for s in itertools.combinations(range(n), k)]
        for S in subsets:
            e2e.write_project(proj, {f"{D}/code.py": lay.text, f"{D}/other.py": lay.text})
            placed, ids = [], {}
            for i in range(n):
                dl = lay.offsets[i] - lay.header_len
                for j, (kind, e) in enumerate(ents):
                    ident = (1000 * (i + 1) + j) if tool == "defectdojo" else f"K{i}-{j}"
                    pe = place_entry(tool, e, f"{D}/code.py", dl, indent, ident)
                    if i in S:
                        placed.append((kind, pe))
                        ids.setdefault(i, []).append(str(ident))
                    elif tool == "sonar" and case["decoys"]:
                        pe["status"] = rng.choice(["RESOLVED", "CLOSED", "REVIEWED"])   # closed issue / reviewed hotspot on an unreported site
                        placed.append((kind, pe))
            if case["decoys"]:
                # foreign rule on every site of code.py; the same findings are NOT reported for other.py
                for i in range(n):
                    dl = lay.offsets[i] - lay.header_len
                    for j, (kind, e) in enumerate(ents):
                        pe = place_entry(tool, e, f"{D}/code.py", dl, indent, (9000 + 10 * i + j) if tool == "defectdojo" else f"F{i}-{j}")
                        if tool == "sonar": pe["rule" if "rule" in pe else "ruleKey"] = "python:S99999"
                        elif tool == "semgrep": pe["ruleId"] = "foreign.rule.id"
                        else: pe["title"] = "foreign.rule.id"
                        placed.append((kind, pe))
            # tools do not promise an order: ascending, descending or shuffled entries must give the same outcome
            if case.get("order") == "desc":
                placed.reverse()
            elif case.get("order") == "shuffle":
                rng.shuffle(placed)
            if case.get("split") and len(placed) >= 2 and tool in ("sonar", "defectdojo"):   # two SARIF files of one tool are refused by the CLI
                # the same findings handed over in two result files (interleaved), as several exports of one tool would be
                parts = [placed[0::2], placed[1::2]]
            else:
                parts = [placed]
            rfs = []
            for part in parts:
                rf = root / f"res-{uuid.uuid4().hex}.json"
                rf.write_text(json.dumps(build_doc(tool, seed["results"], part)))
                rfs.append(str(rf))
            r = e2e.run(proj, ["--codemod-include", cid, seed["flag"], ",".join(rfs)])
            after = (proj / f"{D}/code.py").read_text()
            rew = sites.rewritten_sites(lay, after)
            other_changed = (proj / f"{D}/other.py").read_text() != lay.text
            entries = []
            for res in (r["report"] or {}).get("results", []):
                for cs in res["changeset"]:
                    for c in cs["changes"]:
                        entries.append({"path": cs["path"], "line": c["lineNumber"], "site": lay.site_of_line(c["lineNumber"]),
                                        "findings": [[f["id"], f["rule"]["id"]] for f in (c.get("findings") or [])]})
            failed = [f for res in (r["report"] or {}).get("results", []) for f in (res.get("failedFiles") or [])]
            out["runs"].append({"S": sorted(S), "rewritten": sorted(rew) if rew is not None else None, "other_changed": other_changed,
                                "entries": entries, "ids": ids, "rc": r["rc"], "failed": failed})
        return out
    finally:
        shutil.rmtree(root, ignore_errors=True)


def rule_ids_of(item):
    tool = item["tool"]
    out = set()
    for _, e in entries_of(tool, item["results"]):
        out.add(e.get("rule") or e.get("ruleKey") if tool == "sonar" else (e.get("ruleId") if tool == "semgrep" else e.get("title")))
    return out


def search(ctx):
    items = json.loads((common.VERIF / "harness" / "corpus" / "sast_seeds.json").read_text())
    rng = ctx.rng
    if not ctx.thorough:
        rng.shuffle(items)
        seen, pick = set(), []
        for it in items:
            if it["codemod"] not in seen:
                seen.add(it["codemod"]); pick.append(it)
        # every tool format takes part in every run (the formats differ in how findings are keyed and merged)
        by_tool = {}
        for it in pick:
            by_tool.setdefault(it["tool"], []).append(it)
        items = by_tool.get("sonar", [])[:4] + by_tool.get("defectdojo", [])[:2] + by_tool.get("semgrep", [])[:3] + by_tool.get("codeql", [])[:1]
    # DefectDojo reports a line, and a node is selected when its line range contains it: a call spread over several lines
    # with the finding on an inner line (hand-written: the harvested snippets are one-liners)
    items = list(items) + [{"code": '\nresponse.set_cookie(\n    "name",\n    "value",\n)\n', "codemod": "defectdojo:python/django-secure-set-cookie",
                            "flag": "--defectdojo-findings-json", "tool": "defectdojo", "test": "handwritten::finding-on-inner-line",
                            "results": {"results": [{"file_path": "code.py", "id": 1, "line": 3,
                                                     "title": "python.django.security.audit.secure-cookies.django-secure-set-cookie"}]}}]
    cases = []
    for k, it in enumerate(items):
        for n, indent in ([(3, 0), (2, 4)] if ctx.thorough else [(rng.choice([2, 3]), rng.choice([0, 4]))]):
            order = ["asc", "desc", "shuffle"][k % 3]
            multi = it["tool"] in ("sonar", "defectdojo")
            cases.append({"item": it, "n": n, "indent": indent, "seed": rng.randint(0, 10**9), "decoys": True, "split": multi and k % 2 == 0, "order": order})
            if multi and not ctx.thorough:
                # the same findings once more, the other way round: in one file / over two files, another order
                cases.append({"item": it, "n": n, "indent": indent, "seed": rng.randint(0, 10**9), "decoys": True, "split": k % 2 == 1, "order": ["desc", "shuffle", "asc"][k % 3]})
    # the same with the files in places the find-and-fix defaults exclude (tests/, build/): one case per tool
    seen_tools = set()
    for it in items:
        if it["tool"] not in seen_tools:
            seen_tools.add(it["tool"])
            cases.append({"item": it, "n": 2, "indent": 0, "seed": rng.randint(0, 10**9), "decoys": True, "split": False, "order": "asc",
                          "dir": ["tests", "build/lib"][len(seen_tools) % 2]})
    used = set()
    for c, r in zip(cases, impl.pool_map(c06_case, cases)):
        if r[0] != "ok":
            ctx.broke("c06 e2e harness", r[1])
            continue
        r = r[1]
        if "drop" in r:
            ctx.dropped += 1
            ctx.stat("drop:" + r["drop"])
            continue
        cid, tool = r["codemod"], r["tool"]
        own_rules = rule_ids_of(c["item"])
        used.add(cid)
        for run in r["runs"]:
            S = run["S"]
            key = {"codemod": cid, "n": r["n"], "indent": r["indent"], "S": S}
            ctx.search_case("cli-subset", key, 0 < len(S) < r["n"])
            rep = {"codemod": cid, "tool": tool, "test": c["item"]["test"], "n": r["n"], "indent": r["indent"], "run": run, "case_seed": c["seed"]}
            if run["rc"] != ["exit", 0]:
                ctx.fail({"kind": "cli-crash", "codemod": cid}, f"CLI failed {run['rc']}", rep)
                continue
            if run["failed"]:
                continue  # the file is reported failed (C10's concern), nothing to judge
            if run["rewritten"] is None:
                ctx.fail({"kind": "markers-lost", "codemod": cid}, "site markers disappeared from the rewritten file", rep)
                continue
            if run["rewritten"] != S:
                extra = [i for i in run["rewritten"] if i not in S]
                missing = [i for i in S if i not in run["rewritten"]]
                ctx.fail({"kind": "sites-rewritten", "codemod": cid, "extra": bool(extra), "missing": bool(missing), "indent": r["indent"]},
                         f"{cid}: findings reported on sites {S} of {r['n']} but sites {run['rewritten']} were rewritten (column offset {r['indent']})", rep)
                continue
            if run["other_changed"]:
                ctx.fail({"kind": "foreign-file", "codemod": cid}, f"{cid}: a file with no findings was rewritten", rep)
                continue
            # change entries: every rewritten site has an entry carrying its finding; no entry carries a foreign finding
            by_site = {}
            for e in run["entries"]:
                by_site.setdefault(e["site"], []).append(e)
            for i in S:
                es = by_site.get(i, [])
                carried = [f for e in es for f in e["findings"]]
                if tool == "defectdojo":
                    ok = any(f[0] in run["ids"].get(str(i), run["ids"].get(i, [])) for f in carried)
                else:
                    ok = any(f[1] in own_rules for f in carried)
                if not ok:
                    ctx.fail({"kind": "change-without-finding", "codemod": cid},
                             f"{cid}: rewritten site {i} has no change entry carrying its finding (entries {es})", rep)
                    break
            for e in run["entries"]:
                for fid, frule in e["findings"]:
                    foreign_rule = frule not in own_rules
                    foreign_site = tool == "defectdojo" and e["site"] is not None and fid not in run["ids"].get(str(e["site"]), run["ids"].get(e["site"], []))
                    if foreign_rule or foreign_site:
                        ctx.fail({"kind": "foreign-finding-attached", "codemod": cid, "foreign_rule": foreign_rule},
                                 f"{cid}: change entry on line {e['line']} (site {e['site']}) carries finding {fid}/{frule} of another {'rule' if foreign_rule else 'site'}", rep)
                        break
    ctx.notes.append(f"SAST codemods exercised: {len(used)}: {sorted(used)}")
