"""C07 — re-running a codemod on its own output changes nothing. Theorems CM.Pipeline.C07_second_application_noop (lifting of
the contract Idem) and CM.Args.C07_replaceArgs_idem_single (mechanism); search = second run over the program space."""
from __future__ import annotations

import argscorr
import common
import callshapes
import progspace

LEAN_TARGETS = ["CM.Props.Lift", "CM.Props.C16"]
THEOREMS = [
    "CM.Pipeline.C07_second_application_noop",
    "CM.Pipeline.C03_write_iff_changeset",
    "CM.Args.C07_replaceArgs_idem_single",
    "CM.Args.C16_replaceArgs_others",
]
RULE = (
    "argument editor: replace_args applied twice to generated argument lists (real method vs Lean model); program space of C01 for every "
    "codemod with snippets: the codemod is run again, with identical options, on the tree it produced; oracle: the second run modifies "
    "no file and reports no changeset; non-trivial = distinct program the first run changed"
)
ASSUMPTIONS = [
    "contract Idem K for each real transformer and detector (the rewrite falsifies its own detection): validated on the program space, not proved",
]
LEVEL_TEXT = (
    "Lean 4 theorems: (lifting) if a codemod's transformer reports nothing on text it produced (contract Idem), then processing the "
    "written file again yields no changeset and no write, whatever findings are passed (C07_second_application_noop, using the gates "
    "'no changes => no changeset' and 'empty diff => no changeset'); (mechanism) the shared argument editor is a fixed point on its own "
    "output (C07_replaceArgs_idem_single). The argument editor is tied to the code by running the real replace_args twice; the contract "
    "is validated by a real second run over the whole program space."
)
LEVEL_NOTE = "Partial: per-transformer idempotence is validated by search only. Trusted: Lean kernel (propext, Quot.sound, Classical.choice)."
TECHNIQUE = "Lean 4 proof (fixed-point lifting + argument-editor idempotence) + correspondence + second-run search"


def corr(ctx):
    for rq, im, ans in argscorr.corr(ctx, 150, 1200):
        if "twice" in im and im["twice"] != im["args"]:
            ctx.fail({"kind": "replace-args-not-idempotent"}, f"replace_args applied to its own output changes it again: {im['src']}", {"request": rq, "impl": im})


def search(ctx):
    res = progspace.run_pass(ctx.tier, ctx.seed)
    for cid, r in sorted(res.items()):
        if "error" in r:
            ctx.broke(f"program-space pass for {cid}", r["error"][-600:]); continue
        for name, rec in r["records"].items():
            changed = rec["after"] != rec["before"]
            ctx.search_case("second-run:" + cid, {"codemod": cid, "program": name}, changed)
            if rec["failed"] or rec["failed2"]:
                continue
            if rec["after2"] != rec["after"] or rec["changes2"] is not None:
                ctx.fail({"kind": "second-run-changes", "codemod": cid, "wrote": rec["after2"] != rec["after"], "shape": callshapes.shape_class(name)},
                         f"{cid}: a second run on its own output {'modifies the file' if rec['after2'] != rec['after'] else 'reports a changeset'} (variant {name})",
                         {"codemod": cid, "program": name, "before": rec["before"], "after": rec["after"], "after2": rec["after2"], "changes2": rec["changes2"]})
