"""C07 — re-running a codemod on its own output changes nothing. Theorems CM.Pipeline.C07_second_application_noop (lifting of
the contract Idem) and CM.Args.C07_replaceArgs_idem_single (mechanism); search = second run over the program space."""
from __future__ import annotations

import json
import random
import shutil

import argscorr
import preccorr
import common
import callshapes
import e2e
import impl
import progspace

LEAN_TARGETS = ["CM.Props.Lift", "CM.Props.C16", "CM.Props.PrecIdem", "CM.Props.C02ScopeIdem", "CM.Props.C16Idem"]
THEOREMS = [
    "CM.Pipeline.C07_second_application_noop",
    "CM.Pipeline.C03_write_iff_changeset",
    "CM.Args.C07_replaceArgs_idem_single",
    "CM.Args.C07_replaceArgs_idem",
    "CM.Args.C16_replaceArgs_others",
    "CM.Prec.C07_combine_idempotent",
    "CM.Prec.C07_invert_idempotent",
    "CM.Prec.C07_invert_old_second_pass_changes",
    "CM.Scope.C07_clean_idempotent",
]
RULE = (
    "expression rewrites: combine-startswith-endswith and invert-boolean-check run twice through the CLI on generated `if` tests; the "
    "second real output against the model's second application, and against the first output (the property); "
    "argument editor: replace_args applied twice to generated argument lists (real method vs Lean model); program space of C01 for every "
    "codemod with snippets: the codemod is run again, with identical options, on the tree it produced; oracle: the second run modifies "
    "no file and reports no changeset; non-trivial = distinct program the first run changed"
)
ASSUMPTIONS = [
    "contract Idem K for each real transformer and detector (the rewrite falsifies its own detection): validated on the program space, not proved",
]
LEVEL_TEXT = (
    "Lean 4 theorems: (lifting) if a codemod's transformer reports nothing on text it produced (contract Idem), then processing the "
    "written file again yields no changeset and no write, whatever findings are passed (C07_second_application_noop, using the gates "
    "'no changes => no changeset' and 'empty diff => no changeset'); (mechanism) the shared argument editor is a fixed point on its own "
    "output (C07_replaceArgs_idem_single for one specification and any call; C07_replaceArgs_idem for any specification list with pairwise "
    "different names on calls with pairwise different keywords, through a fixed-point criterion replaceArgs_fixed); (expression rewrites, CM.Prec) the combine pass reaches a normal form in one application "
    "on every tree (C07_combine_idempotent) and so does the invert pass (C07_invert_idempotent; before a fix `not (<comparison> is True)` "
    "became `not <comparison>`, which the second run flipped: C07_invert_old_second_pass_changes); (clean-up pass, CM.Scope) the "
    "unused-assignment clean-up with libcst's reference attribution removes nothing on its own output (C07_clean_idempotent). The argument editor is tied to the code by running the real replace_args twice; the contract "
    "is validated by a real second run over the whole program space."
)
LEVEL_NOTE = "Partial: per-transformer idempotence is validated by search only. Trusted: Lean kernel (propext, Quot.sound, Classical.choice)."
TECHNIQUE = "Lean 4 proof (fixed-point lifting + argument-editor idempotence) + correspondence + second-run search"


def corr(ctx):
    for rq, im, ans in argscorr.corr(ctx, 150, 1200):
        if "twice" in im and im["twice"] != im["args"]:
            ctx.fail({"kind": "replace-args-not-idempotent"}, f"replace_args applied to its own output changes it again: {im['src']}", {"request": rq, "impl": im})
    prec_second_application(ctx)
    scope_second_application(ctx)


def scope_second_application(ctx):
    """CM.Scope: the unused-assignment clean-up (run by sql-parameterization over the whole module) applied to its own output - the real
    `RemoveUnusedVariables` twice against the model's pass twice, and the property on the real outputs"""
    import scopecorr

    rng = ctx.rng
    bodies = [scopecorr.gen_body(rng) for _ in range(ctx.pick(100, 800))]
    codes = [scopecorr.program(b) for b in bodies]
    inputs = [scopecorr.parse_back(c) for c in codes]
    first = common.lean_ask([{"op": "scope_clean", "body": b} for b in inputs])
    if any("err" in a for a in first):
        ctx.broke("scope_clean driver op", str([a for a in first if "err" in a][:1])); return
    second = common.lean_ask([{"op": "scope_clean", "body": a["cleaned"]} for a in first])
    for b, code, a1, a2 in zip(inputs, codes, first, second):
        once = scopecorr.real_clean(code)
        twice = scopecorr.real_clean(once)
        changed = a1["cleaned"] != b
        ctx.corr_case("scope_second", {"program": code}, {"first": scopecorr.parse_back(once), "second": scopecorr.parse_back(twice)},
                      {"first": a1["cleaned"], "second": a2["cleaned"]}, changed, "scope-second:" + ("first-removes" if changed else "nothing-to-remove"))
        if a2["cleaned"] != a1["cleaned"]:
            ctx.broke("CM.Scope.C07_clean_idempotent instance", code)
        ctx.search_case("clean-up-second-application", {"program": code}, changed)
        if twice != once:
            ctx.fail({"kind": "second-run-changes", "codemod": "pixee:python/sql-parameterization", "wrote": True, "shape": "clean-up-pass"},
                     "RemoveUnusedVariables (the clean-up pass of sql-parameterization) applied to its own output removes more", {"before": code, "after": once, "after2": twice})


def prec_second_application(ctx):
    """CM.Prec: two CLI runs of the real codemod on generated `if` tests against two applications of the model's pass"""
    rng = ctx.rng
    n = ctx.pick(60, 600)
    wp = lambda **kw: preccorr.repair(preccorr.gen(rng, rng.randint(2, 4), **kw))
    for cid, field, trees in [
        ("pixee:python/combine-startswith-endswith", "combine",
         [wp(calls=0.75, kinds=["or", "or", "or", "and", "and", "lnot", "cmp", "ifx"]) for _ in range(n // 2)] + [preccorr.gen_combine(rng) for _ in range(n)]),
        ("pixee:python/invert-boolean-check", "invert",
         [wp(calls=0.1, kinds=["lnot", "lnot", "lnot", "cmp", "cmp", "cmp", "and", "or", "ifx", "chain"]) for _ in range(n // 2)] + [preccorr.gen_invert(rng) for _ in range(n)]
         + [preccorr.gen_is_true_over_comparison(rng) for _ in range(6)]),
    ]:
        a0 = common.lean_ask([{"op": "prec", "e": t} for t in trees])
        if any("err" in a for a in a0):
            ctx.broke("prec driver op", str([a for a in a0 if "err" in a][:1])); return
        raises1 = [field == "invert" and a["invert_raises"] for a in a0]
        firsts = [t if r else a[field] for t, a, r in zip(trees, a0, raises1)]       # a failed file keeps its text
        a1 = common.lean_ask([{"op": "prec", "e": t} for t in firsts])
        srcs = [f"if {a['render']}:\n    pass\n" for a in a0]
        out1, out2 = preccorr.run_codemod(cid, srcs, passes=2)
        for t, m0, m1, r1, first, src, o1, o2 in zip(trees, a0, a1, raises1, firsts, srcs, out1, out2):
            got1, got2 = preccorr.test_of(o1), preccorr.test_of(o2)
            want1 = "failed" if r1 else first
            want2 = "failed" if (field == "invert" and m1["invert_raises"]) else m1[field]
            second_changes = want2 != "failed" and m1[field] != first
            cls = field + (":second-changes" if second_changes else (":first-changes" if first != t else ":same"))
            ctx.corr_case("prec_second_" + field, {"source": src}, {"first": got1, "second": got2}, {"first": want1, "second": want2}, first != t, cls)
            # what the theorems say about the model's own answers (a disagreement here is a broken model, not a finding)
            if second_changes:
                ctx.broke(f"CM.Prec.C07_{field}_idempotent instance", src)
            # the property on the real runs
            ctx.search_case("second-run-expression:" + cid, {"source": src}, first != t)
            if "failed" in (got1, got2) or o1 is None or o2 is None:
                continue
            if o2 != o1:
                shape = "not-of-comparison-is-True" if (field == "invert" and m0["invert_shallow"] != m0["invert"]) else "other"
                ctx.fail({"kind": "second-run-changes", "codemod": cid, "wrote": True, "shape": shape},
                         f"{cid}: a second run on its own output modifies the file ({src.splitlines()[0]!r} -> {o1.splitlines()[0]!r} -> {o2.splitlines()[0]!r})",
                         {"codemod": cid, "before": src, "after": o1, "after2": o2})


def sast_case(case):
    """a tool-result driven codemod run twice with the same result file: the findings still point at the (now fixed) code"""
    item = case["item"]
    rng = random.Random(case["seed"])
    root = common.tmpdir("c07s")
    try:
        proj = root / "p"
        pad = "" if case["pad"] == 0 else "import os\n" * 0
        e2e.write_project(proj, {"code.py": pad + item["code"], "other.py": "x = 1\n"})
        rf = root / "results.json"
        rf.write_text(json.dumps(item["results"]))
        args = ["--codemod-include", item["codemod"], item["flag"], str(rf)]
        r1 = e2e.run(proj, args)
        t1 = (proj / "code.py").read_bytes()
        m1 = (proj / "code.py").stat().st_mtime_ns
        r2 = e2e.run(proj, args)
        t2 = (proj / "code.py").read_bytes()
        m2 = (proj / "code.py").stat().st_mtime_ns
        cs2 = [{"path": cs["path"], "diff": cs["diff"], "changes": len(cs["changes"])} for res in (r2["report"] or {}).get("results", []) for cs in res["changeset"]]
        return {"rc": [r1["rc"], r2["rc"]], "changed1": t1.decode("utf-8", "replace") != item["code"], "same": t1 == t2, "rewritten": m1 != m2, "changesets2": cs2,
                "after": t1.decode("utf-8", "replace"), "after2": t2.decode("utf-8", "replace")}
    finally:
        shutil.rmtree(root, ignore_errors=True)


def shape_of(cid, name, before):
    """coarse input class for known-findings signatures"""
    if cid.endswith("flask-enable-csrf-protection") and "from flask_wtf import" in before:
        return "class-imported-from-package-reexport"
    if cid.endswith("flask-json-response-type"):
        # the recorded finding is about files with several vulnerable routes (one is fixed per run)
        return "several-sites-in-one-file" if before.count("json.dumps(") >= 2 else "single-site"
    return callshapes.shape_class(name)


def search(ctx):
    res = progspace.run_pass(ctx.tier, ctx.seed)
    for cid, r in sorted(res.items()):
        if "error" in r:
            ctx.broke(f"program-space pass for {cid}", r["error"][-600:]); continue
        for name, rec in r["records"].items():
            changed = rec["after"] != rec["before"]
            ctx.search_case("second-run:" + cid, {"codemod": cid, "program": name}, changed)
            if rec["failed"] or rec["failed2"]:
                continue
            if rec["after2"] != rec["after"] or rec["changes2"] is not None:
                ctx.fail({"kind": "second-run-changes", "codemod": cid, "wrote": rec["after2"] != rec["after"], "shape": shape_of(cid, name, rec["before"])},
                         f"{cid}: a second run on its own output {'modifies the file' if rec['after2'] != rec['after'] else 'reports a changeset'} (variant {name})",
                         {"codemod": cid, "program": name, "before": rec["before"], "after": rec["after"], "after2": rec["after2"], "changes2": rec["changes2"]})

    # tool-result driven codemods: second run with the same result file
    items = json.loads((common.VERIF / "harness" / "corpus" / "sast_seeds.json").read_text())
    ctx.rng.shuffle(items)
    cases = [{"item": it, "pad": 0, "seed": ctx.rng.randint(0, 10**9)} for it in items]
    for c, r in zip(cases, impl.pool_map(sast_case, cases)):
        if r[0] != "ok":
            ctx.broke("c07 sast second-run harness", r[1]); continue
        r = r[1]
        cid = c["item"]["codemod"]
        ctx.search_case("sast-second-run:" + cid, {"codemod": cid, "test": c["item"]["test"]}, r["changed1"])
        if r["rc"] != [["exit", 0], ["exit", 0]]:
            ctx.fail({"kind": "cli-crash", "codemod": cid}, f"CLI failed {r['rc']}", {"case": c})
        elif not r["same"] or r["changesets2"] or r["rewritten"]:
            what = "modifies the file" if not r["same"] else ("reports a changeset" if r["changesets2"] else "writes the file again")
            ctx.fail({"kind": "second-run-changes", "codemod": cid, "wrote": not r["same"], "shape": "same-result-file"},
                     f"{cid}: a second run with the same result file {what} (changesets {r['changesets2']})",
                     {"codemod": cid, "item": c["item"], "after": r["after"], "after2": r["after2"], "changesets2": r["changesets2"]})
