"""Shared machinery for the /verif checks (see DESIGN.md §6).

Run with /venv/bin/python (the venv installs /repo in editable mode, so the code that runs
is /repo's current working tree).
"""
from __future__ import annotations

import atexit
import fcntl
import hashlib
import json
import os
import random
import re
import shutil
import subprocess
import sys
import tempfile
import time
from pathlib import Path

VERIF = Path(__file__).resolve().parent.parent
LEAN_DIR = VERIF / "lean"
REPO = Path(os.environ.get("VERIF_REPO", "/repo"))
EVIDENCE = VERIF / "evidence"
REPLAYS = EVIDENCE / "replays"
ALLOWED_AXIOMS = {"propext", "Classical.choice", "Quot.sound"}
FORBIDDEN = re.compile(
    r"\bsorry\b|\badmit\b|^\s*axiom\s|native_decide|bv_decide|implemented_by|\bunsafe\s|maxHeartbeats\s+0"
)

_private_tmp: Path | None = None


def setup_env() -> Path:
    """PATH for semgrep, offline semgrep flags, private TMPDIR (removed at exit)."""
    global _private_tmp
    if _private_tmp is not None:
        return _private_tmp
    os.environ["PATH"] = "/venv/bin:" + os.environ.get("PATH", "")
    os.environ["SEMGREP_ENABLE_VERSION_CHECK"] = "0"
    os.environ["SEMGREP_SEND_METRICS"] = "off"
    os.environ.setdefault("PYTHONDONTWRITEBYTECODE", "1")
    import logging

    logging.lastResort = logging.NullHandler()  # codemodder logs exceptions it handles
    import warnings

    warnings.filterwarnings("ignore", category=SyntaxWarning)
    base = Path(os.environ.get("VERIF_TMP_BASE", "/var/tmp"))
    base.mkdir(parents=True, exist_ok=True)
    d = Path(tempfile.mkdtemp(prefix="verif-", dir=str(base)))
    os.environ["TMPDIR"] = str(d)
    tempfile.tempdir = str(d)
    _private_tmp = d
    atexit.register(lambda: shutil.rmtree(d, ignore_errors=True))
    return d


def tmpdir(prefix="w") -> Path:
    setup_env()
    return Path(tempfile.mkdtemp(prefix=prefix + "-", dir=str(_private_tmp)))


# ------------------------------------------------------------------------------------------
# Lean side


class LeanError(Exception):
    pass


def _lake(args, timeout=1800, input_bytes=None, stdin=None):
    return subprocess.run(
        ["lake"] + args,
        cwd=str(LEAN_DIR),
        stdout=subprocess.PIPE,
        stderr=subprocess.STDOUT,
        timeout=timeout,
        input=input_bytes,
        stdin=stdin,
    )


class BuildLock:
    def __enter__(self):
        self.f = open(LEAN_DIR / ".lake.lock", "w")
        fcntl.flock(self.f, fcntl.LOCK_EX)
        return self

    def __exit__(self, *a):
        fcntl.flock(self.f, fcntl.LOCK_UN)
        self.f.close()


def lean_build(targets: list[str]) -> tuple[bool, str]:
    """lake build of the given modules (incremental). Returns (ok, log)."""
    with BuildLock():
        p = _lake(["build"] + targets + ["CM.Driver.Ops"])
    log = p.stdout.decode("utf-8", "replace")
    return p.returncode == 0, log


def lean_audit(theorems: list[str], imports: list[str]) -> dict[str, dict]:
    """`#print axioms` for every theorem. Returns name -> {ok, axioms | error}."""
    src = "".join(f"import {m}\n" for m in imports)
    for t in theorems:
        src += f"#print axioms {t}\n"
    f = tmpdir("audit") / "Audit.lean"
    f.write_text(src)
    with BuildLock():
        p = _lake(["env", "lean", str(f)], timeout=600)
    out = p.stdout.decode("utf-8", "replace")
    res: dict[str, dict] = {}
    # outputs: "'name' depends on axioms: [a, b]" or "'name' does not depend on any axioms"
    for m in re.finditer(r"'([^']+)' depends on axioms: \[([^\]]*)\]", out, re.S):
        ax = [a.strip() for a in m.group(2).replace("\n", " ").split(",") if a.strip()]
        res[m.group(1)] = {"axioms": ax, "ok": set(ax) <= ALLOWED_AXIOMS}
    for m in re.finditer(r"'([^']+)' does not depend on any axioms", out):
        res[m.group(1)] = {"axioms": [], "ok": True}
    for t in theorems:
        if t not in res:
            # unknown constant / failed import
            res[t] = {"ok": False, "error": "not checked: " + out[-400:]}
    return res


def forbidden_tokens() -> list[str]:
    hits = []
    for p in sorted(LEAN_DIR.rglob("*.lean")):
        if ".lake" in p.parts:
            continue
        text = p.read_text()
        # strip block comments and line comments
        text = re.sub(r"/-.*?-/", lambda m: "\n" * m.group(0).count("\n"), text, flags=re.S)
        for i, line in enumerate(text.splitlines(), 1):
            line = line.split("--", 1)[0]
            if FORBIDDEN.search(line):
                hits.append(f"{p.relative_to(VERIF)}:{i}: {line.strip()[:80]}")
    return hits


def lean_ask(reqs: list[dict], timeout=1800) -> list[dict]:
    """Send all requests to the Driver (one process), return the answers in order."""
    if not reqs:
        return []
    d = tmpdir("drv")
    inp = d / "in.jsonl"
    with open(inp, "w") as f:
        for r in reqs:
            f.write(json.dumps(r, ensure_ascii=True) + "\n")
    with open(inp, "rb") as fin:
        p = subprocess.run(
            ["lake", "env", "lean", "--run", "Driver.lean"],
            cwd=str(LEAN_DIR),
            stdin=fin,
            stdout=subprocess.PIPE,
            stderr=subprocess.PIPE,
            timeout=timeout,
        )
    lines = p.stdout.decode("utf-8").splitlines()
    if p.returncode != 0 or len(lines) != len(reqs):
        raise LeanError(
            f"driver rc={p.returncode} answers={len(lines)}/{len(reqs)} stderr={p.stderr.decode()[-2000:]}"
        )
    shutil.rmtree(d, ignore_errors=True)
    return [json.loads(l) for l in lines]


# ------------------------------------------------------------------------------------------
# Check context


def canon(x):
    return json.dumps(x, sort_keys=True, ensure_ascii=True, default=str)


class Ctx:
    def __init__(self, prop: str, tier: str, seed: int):
        self.prop = prop
        self.tier = tier
        self.seed = seed
        self.rng = random.Random(f"{prop}-{seed}")
        self.t0 = time.time()
        self.corr_requests = 0
        self.corr_nontrivial: set[str] = set()
        self.branches: dict[str, int] = {}
        self.ops: dict[str, int] = {}
        self.corr_samples: list = []
        self.disagreements: list[dict] = []
        self.search_programs = 0
        self.search_nontrivial: set[str] = set()
        self.search_samples: list = []
        self.search_stats: dict[str, int] = {}
        self.failures: list[dict] = []  # property fails on the real code at this input
        self.broken: list[dict] = []  # obligations / correspondences that no longer check
        self.notes: list[str] = []
        self.exhaustive_parts: list[str] = []
        self.dropped = 0

    @property
    def thorough(self):
        return self.tier == "thorough"

    def pick(self, quick, thorough):
        return thorough if self.thorough else quick

    # -- correspondence bookkeeping
    def corr_case(self, op: str, req, impl, model, nontrivial: bool, branch: str = ""):
        """Record one correspondence case; returns True when they agree."""
        self.corr_requests += 1
        self.ops[op] = self.ops.get(op, 0) + 1
        if branch:
            self.branches[branch] = self.branches.get(branch, 0) + 1
        if nontrivial:
            self.corr_nontrivial.add(hashlib.sha1(canon([op, req]).encode()).hexdigest())
        if len(self.corr_samples) < 6 and (nontrivial or self.corr_requests % 50 == 1):
            self.corr_samples.append({"op": op, "request": req, "impl": impl, "model": model})
        if canon(impl) != canon(model):
            if len(self.disagreements) < 50:
                self.disagreements.append({"op": op, "request": req, "impl": impl, "model": model})
            return False
        return True

    def search_case(self, family: str, case, nontrivial: bool):
        self.search_programs += 1
        self.search_stats[family] = self.search_stats.get(family, 0) + 1
        if nontrivial:
            self.search_nontrivial.add(hashlib.sha1(canon([family, case]).encode()).hexdigest())
        if len(self.search_samples) < 6 and nontrivial and self.search_stats[family] <= 2:
            self.search_samples.append({"family": family, "case": case})

    def stat(self, key: str, n: int = 1):
        self.search_stats[key] = self.search_stats.get(key, 0) + n

    def fail(self, sig: dict, what: str, replay: dict):
        """The property fails on the real code at this concrete input."""
        self.failures.append({"sig": sig, "what": what, "replay": replay})

    def broke(self, name: str, detail):
        self.broken.append({"name": name, "detail": detail})


def load_known():
    p = VERIF / "known_findings.json"
    if not p.exists():
        return []
    return json.loads(p.read_text())["findings"]


def sig_matches(entry_sig: dict, sig: dict) -> bool:
    return all(sig.get(k) == v for k, v in entry_sig.items())


def write_replay(prop: str, payload: dict) -> Path:
    REPLAYS.mkdir(parents=True, exist_ok=True)
    h = hashlib.sha1(canon(payload).encode()).hexdigest()[:12]
    p = REPLAYS / f"{prop}-{h}.json"
    p.write_text(json.dumps(payload, indent=1, sort_keys=True, default=str))
    return p


TRUSTED_BASE = [
    "Lean 4.33.0 kernel (lake build; thorough tier re-checks the .olean files with leanchecker)",
    "axioms allowed: propext, Classical.choice, Quot.sound (audited per theorem with #print axioms); no sorry/native_decide/bv_decide/own axioms (grep on every run)",
    "the correspondence harness (harness/*.py), its generators and canonicalisers, and the Driver's JSON decoding",
    "third-party behaviour assumed, not verified: CPython 3.12 stdlib, libcst 1.4, semgrep 1.90, pydantic, tomlkit, packaging",
]


def generic_replay(prop: str, mod, path: str) -> int:
    """`./check <ID> --replay <file>`: show what the replay file records and re-run the check with the recorded seed and
    tier (every random choice derives from the seed, so the failing input is regenerated and re-judged on the current tree)."""
    data = json.loads(Path(path).read_text())
    print(f"replay {path}: kind={data.get('kind')} seed={data.get('seed')} tier={data.get('tier')}")
    if data.get("kind") == "failing-input":
        print("  signature:", json.dumps(data.get("sig")))
        print("  what:", (data.get("what") or "")[:600])
    else:
        for b in data.get("broken", [])[:5]:
            print("  broken:", b.get("name"), json.dumps(b.get("detail"))[:400])
    return run_check(prop, mod, data.get("tier") or "quick", int(data.get("seed") or 0))


def run_check(prop: str, mod, tier: str, seed: int) -> int:
    setup_env()
    ctx = Ctx(prop, tier, seed)
    for old in REPLAYS.glob(f"{prop}-*.json"):
        old.unlink()

    def say(s):
        print(s, flush=True)

    # 1. gen (instance data / translated predicates regenerated from /repo)
    gen_note = None
    try:
        from gen import generate

        gen_note = generate()
    except Exception as e:  # cannot even import /repo: obligations over Generated are broken
        gen_note = f"generation failed: {type(e).__name__}: {e}"
        ctx.broke("CM.Generated (regeneration from /repo)", gen_note)

    # 2. build
    theorems: list[str] = list(mod.THEOREMS)
    try:
        ok, log = lean_build(list(mod.LEAN_TARGETS))
    except subprocess.TimeoutExpired:
        say("infrastructure: lake build timed out")
        return 2
    if shutil.which("lake") is None:
        say("infrastructure: lake not found")
        return 2
    build_errors = []
    if not ok:
        build_errors = re.findall(r"error: (\S+\.lean:\d+:\d+: .*)", log)
        ctx.broke("lake build " + " ".join(mod.LEAN_TARGETS), build_errors[:10] or log[-1500:])

    # 3. audit
    audit = lean_audit(theorems, list(mod.LEAN_TARGETS)) if ok else {t: {"ok": False, "error": "build failed"} for t in theorems}
    forb = forbidden_tokens()
    discharged = [t for t in theorems if audit[t]["ok"]] if not forb else []
    for t in theorems:
        if not audit[t]["ok"] and ok:
            ctx.broke(f"theorem {t}", audit[t])
    if forb:
        ctx.broke("forbidden tokens in lean/", forb[:10])

    # thorough tier: independent re-check of the compiled .olean files
    if ok and tier == "thorough" and shutil.which("leanchecker"):
        with BuildLock():
            lc = _lake(["env", "leanchecker"] + list(mod.LEAN_TARGETS), timeout=1800)
        ctx.notes.append(f"leanchecker {' '.join(mod.LEAN_TARGETS)}: exit {lc.returncode}")
        if lc.returncode != 0:
            ctx.broke("leanchecker", lc.stdout.decode("utf-8", "replace")[-800:])

    # 4/5. correspondence and search (the module drives both; it needs the Driver, which needs the build)
    driver_ok = True
    try:
        lean_ask([{"op": "ping"}])
    except Exception as e:
        driver_ok = False
        ctx.broke("Driver", str(e)[-800:])
    ctx.driver_ok = driver_ok
    try:
        if hasattr(mod, "corr"):
            mod.corr(ctx)
        if hasattr(mod, "search"):
            mod.search(ctx)
    except LeanError as e:
        ctx.broke("Driver", str(e)[-800:])
    except Exception:
        import traceback

        # the harness calls /repo's functions directly: an exception here means the code no longer has the
        # shape the correspondence relies on (or /repo does not import): the tie is broken
        ctx.broke("correspondence / search harness raised", traceback.format_exc()[-1500:])
    for d in ctx.disagreements[:5]:
        ctx.broke(f"correspondence op={d['op']}", d)

    # 6. decide
    known = [k for k in load_known() if k["property"] == prop and k.get("status") == "open"]
    violations = 0
    known_hit: dict[str, int] = {}
    seen_new = set()
    for f in ctx.failures:
        hit = next((k for k in known if sig_matches(k["signature"], f["sig"])), None)
        if hit:
            known_hit[hit["what"]] = known_hit.get(hit["what"], 0) + 1
            continue
        key = canon(f["sig"])
        if key in seen_new:
            continue
        seen_new.add(key)
        violations += 1
        rp = write_replay(prop, {"property": prop, "kind": "failing-input", "seed": seed, "tier": tier, **f})
        say(f"VIOLATION property={prop} replay={rp}")
    for what, n in known_hit.items():
        say(f"KNOWN-FINDING: property={prop} {what} (reproduced on {n} input(s))")
    if ctx.broken and violations == 0:
        # a proof obligation or the correspondence no longer checks and the search found no
        # failing input: the property is no longer shown to hold
        rp = write_replay(
            prop,
            {"property": prop, "kind": "broken-obligation", "seed": seed, "tier": tier, "broken": ctx.broken},
        )
        violations += 1
        say(f"VIOLATION property={prop} replay={rp} no-failing-input-found")

    # 7. evidence
    wall = time.time() - ctx.t0
    samples = [{"theorem": t, "axioms": audit[t].get("axioms")} for t in theorems[:4]]
    cov = {
        "obligations": len(theorems),
        "discharged": len(discharged),
        "checker_cmd": f"cd lean && lake build {' '.join(mod.LEAN_TARGETS)} && lake env lean <#print axioms for each theorem>"
        + (" && lake env leanchecker" if ctx.thorough else ""),
        "trusted_base": TRUSTED_BASE + list(getattr(mod, "TRUSTED_EXTRA", [])),
        "theorems": theorems,
        "evaluations": ctx.corr_requests + ctx.search_programs,
        "distinct_nontrivial": len(ctx.corr_nontrivial) + len(ctx.search_nontrivial),
        "rule": getattr(mod, "RULE", ""),
        "samples": samples + ctx.corr_samples[:4] + ctx.search_samples[:4],
        "exhaustive": False,
        "exhaustive_parts": ctx.exhaustive_parts,
        "correspondence": {
            "requests": ctx.corr_requests,
            "distinct_nontrivial": len(ctx.corr_nontrivial),
            "ops": ctx.ops,
            "branches": ctx.branches,
            "disagreements": len(ctx.disagreements),
        },
        "search": {
            "programs": ctx.search_programs,
            "distinct_nontrivial": len(ctx.search_nontrivial),
            "stats": ctx.search_stats,
            "dropped_precondition": ctx.dropped,
            "failing_inputs": len(ctx.failures),
            "known_findings_reproduced": known_hit,
        },
        "generated": gen_note,
        "notes": ctx.notes,
    }
    ev = {
        "property_id": prop,
        "tier": tier,
        "seed": seed,
        "level": "proof",
        "coverage": cov,
        "assumptions": list(getattr(mod, "ASSUMPTIONS", [])),
        "wall_s": round(wall, 2),
        "violations": violations,
    }
    EVIDENCE.mkdir(exist_ok=True)
    (EVIDENCE / f"{prop}.json").write_text(json.dumps(ev, indent=1, default=str))
    say(
        f"{prop} tier={tier} seed={seed}: obligations {len(discharged)}/{len(theorems)}, corr {ctx.corr_requests} "
        f"({len(ctx.disagreements)} disagreements), search {ctx.search_programs}, failing inputs {len(ctx.failures)} "
        f"(known {sum(known_hit.values())}), violations {violations}, {wall:.1f}s"
    )
    return 1 if violations else 0
