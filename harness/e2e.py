"""End-to-end runs of the real codemodder on generated projects (DESIGN §5)."""
from __future__ import annotations

import hashlib
import json
import os
import shutil
import stat
import uuid
from pathlib import Path

import common
import impl


def write_project(root: Path, files: dict, symlinks: dict | None = None) -> Path:
    root.mkdir(parents=True, exist_ok=True)
    for rel, content in files.items():
        p = root / rel
        p.parent.mkdir(parents=True, exist_ok=True)
        if isinstance(content, str):
            content = content.encode("utf-8")
        p.write_bytes(content)
    for rel, target in (symlinks or {}).items():
        p = root / rel
        p.parent.mkdir(parents=True, exist_ok=True)
        os.symlink(target, p)
    return root


def snapshot(root: Path) -> dict:
    """rel path -> ['file', sha1, mode] | ['link', target] | ['dir'] (mtime deliberately not compared)"""
    out = {}
    for dirpath, dirnames, filenames in os.walk(root, followlinks=False):
        for n in dirnames + filenames:
            p = Path(dirpath) / n
            rel = str(p.relative_to(root))
            if p.is_symlink():
                out[rel] = ["link", os.readlink(p)]
            elif p.is_dir():
                out[rel] = ["dir"]
            else:
                out[rel] = ["file", hashlib.sha1(p.read_bytes()).hexdigest(), stat.S_IMODE(p.stat().st_mode)]
    return out


def read_tree(root: Path) -> dict:
    out = {}
    for p in sorted(root.rglob("*")):
        if p.is_file() and not p.is_symlink():
            out[str(p.relative_to(root))] = p.read_bytes()
    return out


def normalise_report(rep: dict | None, root: Path | None = None) -> dict | None:
    """drop timing / absolute paths"""
    if rep is None:
        return None
    rep = json.loads(json.dumps(rep))
    run = rep.get("run", {})
    run.pop("elapsed", None)
    run.pop("commandLine", None)
    run.pop("directory", None)
    return rep


def run(proj: Path, args: list[str], *, output: bool = True, env: dict | None = None, stub_semgrep: bool = False):
    """Run codemodder in-process on `proj`. Returns dict(rc, report, out_path)."""
    out = None
    argv = [str(proj)] + list(args)
    if output:
        out = Path(common.tmpdir("rep")) / f"r-{uuid.uuid4().hex}.codetf"
        argv += ["--output", str(out)]
    path0 = os.environ["PATH"]
    if stub_semgrep:
        os.environ["PATH"] = str(common.VERIF / "harness" / "bin") + ":" + path0
    try:
        res = impl.run_cli(argv, env)
    finally:
        os.environ["PATH"] = path0
    rep = impl.read_report(out) if out else None
    if out:
        shutil.rmtree(out.parent, ignore_errors=True)
    return {"rc": list(res), "report": rep}


def changed_files(rep: dict | None) -> dict[str, list[str]]:
    """codemod id -> changeset paths"""
    out = {}
    for r in (rep or {}).get("results", []):
        out.setdefault(r["codemod"], []).extend(cs["path"] for cs in r["changeset"])
    return out


def reproduces_recorded_finding(code: str) -> bool:
    """seeds that exist to replay a recorded defect of the clean tree (known_findings.json) in the program-space pass; the other
    scenarios (sequences, pairs, line filters, ...) draw their programs from the rest, so that a recorded finding is not met again
    under a second signature"""
    return ("import __future__\n" in code and "from __future__ import" in code) or '"\u00e9\u00e9\u00e9"; requests.get' in code


def load_seeds(include_findings: bool = False) -> dict[str, list[str]]:
    p = common.VERIF / "harness" / "corpus" / "seeds.json"
    seeds = json.loads(p.read_text()) if p.exists() else {}
    if include_findings:
        return seeds
    return {k: [s for s in v if not reproduces_recorded_finding(s)] for k, v in seeds.items()}


MANIFESTS = {
    "requirements.txt": ["requests==2.31.0\nflask>=2\n", "# deps\nrequests\n", "requests", "", "   \n", "-r other.txt\nrequests\n"],
    "pyproject.toml": [
        '[project]\nname = "x"\nversion = "0.1"\ndependencies = [\n    "requests",\n]\n',
        '[project]\nname = "x"\nversion = "0.1"\ndependencies = ["requests", "flask>=2"]\n',
        '[tool.poetry]\nname = "x"\nversion = "0.1"\n\n[tool.poetry.dependencies]\npython = "^3.10"\nrequests = "^2.0"\n',
        '[build-system]\nrequires = ["setuptools"]\n',
    ],
    "setup.py": [
        'from setuptools import setup\n\nsetup(\n    name="x",\n    install_requires=[\n        "requests",\n        "flask>=2",\n    ],\n)\n',
        'from setuptools import setup\nsetup(name="x", install_requires=["requests"])\n',
    ],
    "setup.cfg": [
        "[metadata]\nname = x\n\n[options]\ninstall_requires =\n    requests\n    flask>=2\n",
        "[metadata]\nname = x\n\n[options]\ninstall_requires = requests, flask\n",
    ],
}

# find-and-fix codemods that add a dependency (all add `security` or `defusedxml` / `flask-wtf`)
DEP_CODEMODS = ["pixee:python/use-defusedxml", "pixee:python/url-sandbox", "pixee:python/sandbox-process-creation",
                "pixee:python/flask-enable-csrf-protection"]


def seed_project(rng, seeds: dict, codemods: list[str], n_files: int, manifest: str | None = None, manifest_dir: str = ""):
    """files {rel: text} built from seeds of the given codemods (+ optionally one manifest); returns (files, origin)"""
    files, origin = {}, {}
    dirs = ["", "pkg/", "pkg/sub/", "app/"]
    for i in range(n_files):
        cid = rng.choice(codemods)
        pool = seeds.get(cid) or []
        if not pool:
            continue
        rel = f"{rng.choice(dirs)}m{i}.py"
        files[rel] = rng.choice(pool)
        origin[rel] = cid
    if manifest:
        files[manifest_dir + manifest] = rng.choice(MANIFESTS[manifest])
    return files, origin


def layout_variants(code: str) -> dict[str, bytes]:
    """layout / encoding variants of a snippet (all still valid Python with the same token stream)"""
    out = {"plain": code.encode()}
    out["crlf"] = code.replace("\n", "\r\n").encode()
    out["no-final-newline"] = code.rstrip("\n").encode()
    out["trailing-blank"] = (code + "\n\n").encode()
    out["nonascii-comment"] = ("# héllo ✓ κόσμος\n" + code).encode()
    out["formfeed"] = (code.split("\n", 1)[0] + "\n\x0c" + (code.split("\n", 1)[1] if "\n" in code else "")).encode()
    out["bom"] = b"\xef\xbb\xbf" + code.encode()
    out["cr-only-in-string"] = (code + 's = "a\\rb"\n').encode()
    # a declared non-UTF-8 source encoding with a non-ASCII byte: codemodder decodes as UTF-8 only
    out["latin1-cookie"] = b"# -*- coding: latin-1 -*-\n# caf\xe9\n" + code.encode()
    return out


def gnu_patch(before: bytes, diff: str) -> bytes | None:
    """apply a unified diff with patch(1) (independent oracle); None when patch rejects it"""
    import subprocess, tempfile
    d = Path(tempfile.mkdtemp(prefix="patch-", dir=os.environ.get("TMPDIR")))
    try:
        # the report's diff text cannot express whether the last line had a newline (difflines_to_str completes every
        # line): the property is "up to the presence of a final newline", so the oracle works on newline-terminated text
        if before and not before.endswith(b"\n"):
            before = before + b"\n"
        (d / "f").write_bytes(before)
        (d / "d.diff").write_text(diff if diff.endswith("\n") else diff + "\n", encoding="utf-8", newline="")
        p = subprocess.run(["patch", "--binary", "-s", "-f", "--no-backup-if-mismatch", "-F0", str(d / "f"), str(d / "d.diff")],
                           stdout=subprocess.PIPE, stderr=subprocess.STDOUT)
        if p.returncode != 0:
            return None
        return (d / "f").read_bytes()
    finally:
        shutil.rmtree(d, ignore_errors=True)
