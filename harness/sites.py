"""Multi-site program construction shared by the C06 / C13 / C18 searches.

A seed snippet is split into its leading import lines (header, emitted once) and the rest (body). A file with n sites is
header + n bodies, each preceded by blank padding (arbitrary line offset) and optionally wrapped in `if True:` (column
offset 4). Which original lines a run rewrote is read off difflib opcodes between the text before and after.
"""
from __future__ import annotations

import ast
import difflib


def split_seed(code: str) -> tuple[list[str], list[str]]:
    lines = code.splitlines(keepends=True)
    # header = maximal prefix consisting of blank lines, comments and (complete, single-line) import statements
    k = 0
    for i, ln in enumerate(lines):
        s = ln.strip()
        if s == "" or s.startswith("#") or ((s.startswith("import ") or s.startswith("from ")) and not s.endswith(("(", "\\", ","))):
            k = i + 1
            continue
        break
    header, body = lines[:k], lines[k:]
    while body and body[-1].strip() == "":
        body.pop()
    if body and not body[-1].endswith("\n"):
        body[-1] += "\n"
    return header, body


def marker(i: int) -> str:
    return f'print("__site_{i}__")\n'


class Layout:
    """file text + for each site the 1-based original line range [lo, hi]; every site is preceded by a unique marker
    statement so that the text after a run can be split into the same segments (identical bodies make a global diff ambiguous)"""

    def __init__(self, header, body, n, pads, indent, wrap="if"):
        self.header, self.body, self.n, self.indent = header, body, n, indent
        out = list(header)
        self.ranges = []
        self.offsets = []
        for i in range(n):
            out += ["\n"] * pads[i]
            out.append(marker(i))
            if indent:
                # every site in its own function: local names of one copy cannot interfere with another copy
                out.append(f"def site_fn_{i}():\n" if wrap == "def" else "if True:\n")
            lo = len(out) + 1
            self.offsets.append(len(out))  # body line j (0-based) is file line offsets[i] + j + 1
            for ln in body:
                out.append((" " * indent + ln) if ln.strip() else ln)
            self.ranges.append((lo, len(out)))
        self.text = "".join(out)
        self.header_len = len(header)

    def site_of_line(self, line: int):
        for i, (lo, hi) in enumerate(self.ranges):
            if lo <= line <= hi:
                return i
        return None

    def segments(self, text: str):
        """split `text` at the marker lines: [header segment, site 0 segment (marker included), ...] or None"""
        lines = text.splitlines(keepends=True)
        idx = []
        for i in range(self.n):
            m = marker(i)
            where = [k for k, ln in enumerate(lines) if ln == m]
            if len(where) != 1:
                return None
            idx.append(where[0])
        if idx != sorted(idx):
            return None
        bounds = [0] + idx + [len(lines)]
        return [lines[bounds[k]:bounds[k + 1]] for k in range(len(bounds) - 1)]


def single_line_construct(text: str, line: int) -> bool:
    """is the innermost statement (for compound statements: its header) containing `line` confined to that one line?"""
    try:
        tree = ast.parse(text)
    except SyntaxError:
        return False
    best = None
    for node in ast.walk(tree):
        if isinstance(node, ast.stmt) and node.lineno <= line <= (node.end_lineno or node.lineno):
            lo, hi = node.lineno, node.end_lineno or node.lineno
            body = getattr(node, "body", None)
            if isinstance(body, list) and body and isinstance(body[0], ast.stmt):
                first = min(b.lineno for b in body)
                decos = getattr(node, "decorator_list", [])
                if decos:
                    lo = min(d.lineno for d in decos)
                if line < first:
                    hi = first - 1          # the header of a compound statement
                else:
                    continue                # the line belongs to a nested statement, found separately
            if best is None or (hi - lo) < (best[1] - best[0]):
                best = (lo, hi)
    return best is not None and best[0] == best[1] == line


def build(code: str, n: int, pads=None, indent: int = 0, wrap: str = "if") -> Layout | None:
    header, body = split_seed(code)
    if not body:
        return None
    lay = Layout(header, body, n, pads or [1] * n, indent, wrap)
    try:
        ast.parse(lay.text)
    except SyntaxError:
        return None
    return lay


def changed_original_lines(lay: Layout, after: str):
    """original (1-based) line numbers that were replaced or deleted, computed segment by segment; also the set of sites
    that received insertions. Returns None when the markers cannot be found in `after`."""
    sa, sb = lay.segments(lay.text), lay.segments(after)
    if sa is None or sb is None:
        return None
    changed, inserted_sites = set(), set()
    base = 0
    for k, (a, b) in enumerate(zip(sa, sb)):
        for tag, i1, i2, j1, j2 in difflib.SequenceMatcher(None, a, b, autojunk=False).get_opcodes():
            if tag in ("replace", "delete"):
                changed.update(range(base + i1 + 1, base + i2 + 1))
            elif tag == "insert" and k >= 1:
                inserted_sites.add(k - 1)
        base += len(a)
    return changed, inserted_sites


def rewritten_lines(before: str, after: str) -> tuple[set[int], set[int]]:
    """global diff (only for texts without repeated blocks)"""
    a, b = before.splitlines(keepends=True), after.splitlines(keepends=True)
    changed, inserted_at = set(), set()
    for tag, i1, i2, j1, j2 in difflib.SequenceMatcher(None, a, b, autojunk=False).get_opcodes():
        if tag in ("replace", "delete"):
            changed.update(range(i1 + 1, i2 + 1))
        elif tag == "insert":
            inserted_at.add(i1)
    return changed, inserted_at


def rewritten_sites(lay: Layout, after: str):
    r = changed_original_lines(lay, after)
    if r is None:
        return None
    changed, inserted_sites = r
    out = set(inserted_sites)
    for L in changed:
        s = lay.site_of_line(L)
        if s is not None:
            out.add(s)
    return out
