"""Framework correspondence: the real `codemodder.codemodder.run` driven in-process with a synthetic registry of
table-driven codemods (real FindAndFixCodemod / RemediationCodemod subclasses, real LibcstTransformerPipeline, real
SemgrepRuleDetector talking to a semgrep double or the real binary), and the same scenario sent to the Lean `run` op.

A scenario is a JSON-able dict (see `gen_scenario`). Table semantics (mirrored by CM/Driver/OpsRun.lean):
  * a codemod rewrites every line containing `from` into the same line with `from` replaced by `to`; with results it only
    touches lines that carry a finding; it reports one change per touched line (findings attached by line through the real
    FileContext.get_findings_for_location), adds `deps` when it changed something, raises on `raise_paths`.
  * semgrep-detected codemods have a rule matching string literals containing `token`.
  * SAST codemods get a result table path -> findings.
"""
from __future__ import annotations

import json
import os
import shutil
import threading
import time
import uuid
from pathlib import Path

import common
import e2e
import impl

_state = threading.local()
INFLIGHT = {"cur": 0, "max": 0, "lock": threading.Lock(), "order": []}


def make_registry(scn, proj: Path, delays=None):
    import libcst as cst
    from codemodder.codemods.api import FindAndFixCodemod, Metadata, RemediationCodemod, ReviewGuidance, ToolMetadata, ToolRule
    from codemodder.codemods.base_detector import BaseDetector
    from codemodder.codemods.libcst_transformer import LibcstResultTransformer, LibcstTransformerPipeline
    from codemodder.codemods.semgrep import SemgrepRuleDetector
    from codemodder.codetf import Finding, Rule
    from codemodder.dependency import Dependency, License
    from codemodder.registry import CodemodRegistry
    from codemodder.result import LineInfo, Location, ResultSet, SASTResult
    from packaging.requirements import Requirement

    class L(Location):
        pass

    def mk_transformer(spec):
        class T(LibcstResultTransformer):
            change_description = spec["desc"]

            def transform_module_impl(self, tree):
                rel = str(self.file_context.file_path.relative_to(proj))
                d = (delays or {}).get(rel, 0)
                with INFLIGHT["lock"]:
                    INFLIGHT["cur"] += 1
                    INFLIGHT["max"] = max(INFLIGHT["max"], INFLIGHT["cur"])
                try:
                    if d:
                        time.sleep(d)
                    if rel in spec["raise_paths"] and not spec.get("raise_late"):
                        raise RuntimeError("synthetic transformer failure")
                    lines = tree.code.splitlines(keepends=True)
                    out, touched = [], False
                    for i, ln in enumerate(lines, 1):
                        hit = spec["from"] in ln
                        if hit and self.results is not None:
                            hit = any(loc.start.line == i for r in self.results for loc in r.locations)
                        if hit:
                            touched = True
                            self.report_change_for_line(i)
                            out.append(ln if spec["report_only"] else ln.replace(spec["from"], spec["to"]))
                        else:
                            out.append(ln)
                    if rel in spec["raise_paths"] and spec.get("raise_codegen") and touched:
                        # the transformer hands back a tree from which no code can be generated
                        class Boom(cst.SimpleStatementLine):
                            def _codegen_impl(self, state, **kwargs):
                                raise TypeError("synthetic code generation failure")
                        good = cst.parse_module("".join(out))
                        return good.with_changes(body=[Boom(body=[cst.Pass()]), *good.body])
                    if rel in spec["raise_paths"]:
                        # the transformer fails part-way, after it already recorded changes for earlier nodes
                        raise RuntimeError("synthetic transformer failure (late)")
                    if touched:
                        for dname in spec["deps"]:
                            self.add_dependency(Dependency(Requirement(dname), "d", License("MIT", "u"), "o", "p"))
                    return cst.parse_module("".join(out))
                finally:
                    with INFLIGHT["lock"]:
                        INFLIGHT["cur"] -= 1
                        INFLIGHT["order"].append(rel)

        return T

    class SastDetector(BaseDetector):
        def __init__(self, table):
            self.table = table

        def apply(self, codemod_id, context):
            rs = ResultSet()
            for ent in self.table:
                for f in ent["findings"]:
                    rs.add_result(SASTResult(rule_id=f["rule"], finding_id=f["id"],
                                             finding=Finding(id=f["id"], rule=Rule(id=f["rule"], name=f["rule"])),
                                             locations=[L(file=Path(ent["path"]), start=LineInfo(f["line"], 1), end=LineInfo(f["line"], 2))]))
            return rs

    class FF(FindAndFixCodemod):
        origin = "pixee"
        docs_module_path = "core_codemods.docs"

    class SAST(RemediationCodemod):
        origin = "sonar"
        docs_module_path = "core_codemods.docs"

    reg = CodemodRegistry()
    for spec in scn["codemods"]:
        md = Metadata(name=spec["name"], summary="s", review_guidance=ReviewGuidance.MERGE_WITHOUT_REVIEW, description="synthetic")
        pipe = LibcstTransformerPipeline(mk_transformer(spec))
        if spec["det"] == "none":
            cm = FF(metadata=md, transformer=pipe, default_extensions=spec["exts"])
        elif spec["det"] == "semgrep":
            rule = f"""rules:
  - id: {spec['name']}
    message: synthetic
    severity: WARNING
    languages: [python]
    metadata: {{verif_token: "{spec['token']}"}}
    pattern-regex: '{spec['token']}'
"""
            cm = FF(metadata=md, transformer=pipe, detector=SemgrepRuleDetector(rule), default_extensions=spec["exts"])
        else:
            rules = sorted({f["rule"] for ent in spec["sast"] for f in ent["findings"]}) or ["none"]
            md = Metadata(name=spec["name"], summary="s", review_guidance=ReviewGuidance.MERGE_WITHOUT_REVIEW, description="synthetic",
                          tool=ToolMetadata(name="Sonar", rules=[ToolRule(id=r, name=r, url=None) for r in rules]))
            cm = SAST(metadata=md, transformer=pipe, detector=SastDetector(spec["sast"]), default_extensions=spec["exts"], requested_rules=rules)
        reg._codemods_by_id[cm.id] = cm
        reg._default_include_paths.update(["*.py", "**/*.py"])
    return reg


def run_real(scn, ids=None, world=None, dry=None, workers=1, delays=None, real_semgrep=False):
    """Execute the scenario on the real framework. Returns dict(rc, world, results, max_inflight)."""
    from codemodder import registry as R

    root = common.tmpdir("syn")
    proj = root / "p"
    try:
        w = world if world is not None else scn["world"]
        e2e.write_project(proj, {p: c for p, c in w})
        for p in scn["unparsable"]:
            if (proj / p).exists():
                (proj / p).write_bytes(b"def (\xff\n")
        reg = make_registry(scn, proj, delays)
        ids = ids if ids is not None else [c["id"] for c in scn["codemods"]]
        args = ["--codemod-include", ",".join(ids), "--max-workers", str(workers)]
        if scn["path_include"]: args += ["--path-include", ",".join(scn["path_include"])]
        if scn["path_exclude"]: args += ["--path-exclude", ",".join(scn["path_exclude"])]
        if scn["dry"] if dry is None else dry: args.append("--dry-run")
        old = R.load_registered_codemods
        R.load_registered_codemods = lambda *a, **k: reg
        INFLIGHT.update(cur=0, max=0, order=[])
        try:
            r = e2e.run(proj, args, stub_semgrep=not real_semgrep)
        finally:
            R.load_registered_codemods = old
        after = []
        for p, _ in w:
            f = proj / p
            after.append([p, f.read_bytes().decode("utf-8", "replace") if f.exists() else None])
        res = []
        for x in (r["report"] or {}).get("results", []):
            res.append({
                "codemod": x["codemod"],
                "changeset": [{"path": cs["path"], "diff": "D" if cs["diff"] else "",
                               "changes": [{"line": c["lineNumber"], "findings": [f["id"] for f in (c.get("findings") or [])]} for c in cs["changes"]]}
                              for cs in x["changeset"]],
                "failedFiles": [str(Path(f).relative_to(proj)) if str(f).startswith(str(proj)) else str(f) for f in (x.get("failedFiles") or [])],
                "unfixed": [{"id": u["id"], "path": u["path"], "line": u.get("lineNumber") or 0, "reason": u["reason"]} for u in (x.get("unfixedFindings") or [])],
                "description_has_dep_notice": "depend" in x["description"].lower(),
            })
        return {"rc": r["rc"], "world": after, "results": res, "max_inflight": INFLIGHT["max"], "order": list(INFLIGHT["order"]),
                "report": r["report"]}
    finally:
        shutil.rmtree(root, ignore_errors=True)


def model_request(scn, ids=None, world=None, dry=None):
    from codemodder import code_directory as D

    ids = ids if ids is not None else [c["id"] for c in scn["codemods"]]
    by_id = {c["id"]: c for c in scn["codemods"]}
    w = world if world is not None else scn["world"]
    manifest_paths = [s["path"] for s in scn["stores"]]
    return {
        "op": "run", "dry": scn["dry"] if dry is None else dry, "world": [[p, c] for p, c in w if c is not None],
        "unparsable": scn["unparsable"], "codemods": [by_id[i] for i in ids], "stores": scn["stores"],
        "default_include": D.DEFAULT_INCLUDED_PATHS, "default_exclude": D.DEFAULT_EXCLUDED_PATHS,
        "registry_include": ["*.py", "**/*.py"], "path_include": scn["path_include"], "path_exclude": scn["path_exclude"],
        "all_files": sorted(p for p, c in w if c is not None),
    }


def canon_model(ans, scn):
    """model answer -> the shape run_real returns (world in scenario order, results without depStore details)"""
    world = dict((p, c) for p, c in ans["world"])
    res = []
    for x in ans["results"]:
        res.append({"codemod": x["codemod"], "changeset": x["changeset"], "failedFiles": x["failedFiles"], "unfixed": x["unfixed"],
                    "description_has_dep_notice": x["hasDeps"]})
    return world, res


TOKENS = ["alpha", "beta", "gamma"]


def gen_scenario(rng, *, n_codemods=None, faults=False, deps=True, kinds=("none", "semgrep", "sast")):
    """random scenario: small python files whose lines are `vN = "tok"` assignments"""
    files = ["a.py", "b.py", "pkg/c.py", "pkg/d.py", "tests/t.py", "notes.txt", "e.py"]
    files = [f for f in files if rng.random() < 0.8] or ["a.py"]
    world = []
    for f in files:
        n = rng.randint(1, 5)
        if f.endswith(".txt"):
            world.append([f, "alpha beta\n"])
            continue
        lines = [f'v{i} = "{rng.choice(TOKENS + ["zeta"])}_{rng.choice(["x", "y", "z"])}"\n' for i in range(n)]
        world.append([f, "".join(lines)])
    stores = []
    if deps and rng.random() < 0.7:
        world.append(["requirements.txt", rng.choice(["requests\n", "requests\nflask", "# c\n", "dep-one\n"])])
        stores.append({"path": "requirements.txt", "declared": []})
    k = n_codemods or rng.randint(1, 4)
    codemods = []
    for i in range(k):
        det = rng.choice(list(kinds))
        frm = rng.choice(TOKENS)
        to = rng.choice(TOKENS + ["omega", frm.upper()])
        name = f"syn-{i}-{det}"
        spec = {"id": ("pixee" if det != "sast" else "sonar") + ":python/" + name, "name": name, "det": det, "exts": [".py"],
                "token": frm if det == "semgrep" else "", "sast": [], "from": frm, "to": to,
                "deps": [rng.choice(["dep-one", "dep-two"])] if deps and rng.random() < 0.4 else [],
                "raise_paths": [], "report_only": rng.random() < 0.08, "desc": f"d{i}"}
        if det == "sast":
            for f, c in world:
                if f.endswith(".py") and rng.random() < 0.6:
                    nl = c.count("\n")
                    fs = [{"id": f"F{i}-{f}-{j}", "rule": f"rule{i}", "line": rng.randint(1, max(1, nl))} for j in range(rng.randint(1, 2))]
                    spec["sast"].append({"path": f, "findings": fs})
        if faults and rng.random() < 0.5:
            hits = [f for f, c in world if f.endswith(".py") and frm in c]
            spec["raise_paths"] = [rng.choice(hits if hits and rng.random() < 0.7 else [f for f, _ in world])]
            spec["raise_late"] = rng.random() < 0.6
            spec["raise_codegen"] = spec["raise_late"] and rng.random() < 0.5
        codemods.append(spec)
    scn = {"world": world, "codemods": codemods, "stores": stores, "unparsable": [], "dry": rng.random() < 0.25,
           "path_include": [], "path_exclude": []}
    if rng.random() < 0.25:
        scn["path_exclude"] = [rng.choice(["pkg/**", "a.py", "*.py:2", "tests/**"])]
    if rng.random() < 0.2:
        scn["path_include"] = [rng.choice(["*.py", "pkg/*.py", "**/*.py", "a.py:1"])]
    if faults and rng.random() < 0.5:
        scn["unparsable"] = [rng.choice([f for f, _ in world if f.endswith(".py")] or ["a.py"])]
    # requirement names declared in the manifest text
    for s in stores:
        txt = dict((p, c) for p, c in world)[s["path"]]
        s["declared"] = [ln.strip() for ln in txt.splitlines() if ln.strip() and not ln.strip().startswith("#")]
    return scn


def compare(real, model_ans, scn):
    """returns list of human-readable differences (empty = agree)"""
    mw, mres = canon_model(model_ans, scn)
    diffs = []
    for p, c in real["world"]:
        if p in scn["unparsable"]:
            if c is not None and "def (" not in c:
                diffs.append(f"unparsable file {p} was modified")
            continue
        if mw.get(p) != c:
            diffs.append(f"world[{p}]: impl {c!r} model {mw.get(p)!r}")
    rres = [{k: v for k, v in r.items()} for r in real["results"]]
    if json.dumps(rres, sort_keys=True) != json.dumps(mres, sort_keys=True):
        for a, b in zip(rres, mres):
            if json.dumps(a, sort_keys=True) != json.dumps(b, sort_keys=True):
                for k in a:
                    if json.dumps(a[k], sort_keys=True) != json.dumps(b.get(k), sort_keys=True):
                        diffs.append(f"result[{a['codemod']}].{k}: impl {json.dumps(a[k])[:300]} model {json.dumps(b.get(k))[:300]}")
        if len(rres) != len(mres):
            diffs.append(f"results length impl {len(rres)} model {len(mres)}")
    return diffs
