"""Structural CodeTF validator written from the property C15 and the field set of codemodder/codetf.py (no network schema)."""
from __future__ import annotations

from pathlib import Path


def validate(rep: dict, proj: Path | None, executed_ids: list[str] | None, tree_after: dict | None = None, tree_before: dict | None = None) -> list[str]:
    errs = []
    if not isinstance(rep, dict) or set(rep) - {"run", "results"} or "run" not in rep or "results" not in rep:
        return ["top level must be an object with exactly `run` and `results`"]
    run = rep["run"]
    for k, t in (("vendor", str), ("tool", str), ("version", str), ("commandLine", str), ("directory", str)):
        if not isinstance(run.get(k), t) or not run.get(k):
            errs.append(f"run.{k} missing or empty")
    if "elapsed" in run and not isinstance(run["elapsed"], int):
        errs.append("run.elapsed not an integer")
    res = rep["results"]
    if not isinstance(res, list):
        return errs + ["results is not a list"]
    if executed_ids is not None and [r.get("codemod") for r in res] != list(executed_ids):
        errs.append(f"results are not one per executed codemod in execution order: {[r.get('codemod') for r in res][:6]} vs {list(executed_ids)[:6]}")
    for r in res:
        cid = r.get("codemod")
        for k in ("codemod", "summary", "description"):
            if not isinstance(r.get(k), str) or not r.get(k):
                errs.append(f"{cid}: `{k}` missing or empty")
        if not isinstance(r.get("references"), list):
            errs.append(f"{cid}: references missing")
        else:
            for ref in r["references"]:
                if not isinstance(ref.get("url"), str) or not ref["url"] or not ref.get("description"):
                    errs.append(f"{cid}: malformed reference {ref}")
        if not isinstance(r.get("changeset"), list):
            errs.append(f"{cid}: changeset missing"); continue
        origin = (cid or "").split(":")[0]
        if origin and origin != "pixee":
            if not (isinstance(r.get("detectionTool"), dict) and r["detectionTool"].get("name")):
                errs.append(f"{cid}: SAST result without detectionTool")
        failed = [str(f) for f in (r.get("failedFiles") or [])]
        changed = []
        for cs in r["changeset"]:
            path = cs.get("path")
            changed.append(path)
            if not isinstance(path, str) or not path or path.startswith("/") or ".." in Path(path).parts:
                errs.append(f"{cid}: changeset path {path!r} is not project-relative")
            elif proj is not None and not (proj / path).is_file():
                errs.append(f"{cid}: changeset names {path!r} which does not exist")
            if not isinstance(cs.get("diff"), str) or not cs["diff"]:
                errs.append(f"{cid}: {path}: empty diff")
            chs = cs.get("changes")
            if not isinstance(chs, list) or not chs:
                errs.append(f"{cid}: {path}: changeset without changes")
                continue
            nlines = None
            if tree_after is not None and path in tree_after:
                # change lines of source edits refer to the file as it was before the codemod, manifest additions to the file after:
                # "inside the file" is judged against the longer of the two
                nlines = len(tree_after[path].decode("utf-8", "replace").splitlines()) or 1
                if tree_before is not None and path in tree_before:
                    nlines = max(nlines, len(tree_before[path].decode("utf-8", "replace").splitlines()))
                # ... and, when several codemods rewrite one file, against the file as this codemod met it: an earlier codemod of
                # the run may have made it longer than it was before the run and than it is after it (the hunk headers say how long)
                import re as _re
                for mm in _re.finditer(r"^@@ -(\d+)(?:,(\d+))? \+(\d+)(?:,(\d+))? @@", cs.get("diff") or "", _re.M):
                    a0, al, b0, bl = int(mm.group(1)), int(mm.group(2) or 1), int(mm.group(3)), int(mm.group(4) or 1)
                    nlines = max(nlines, a0 + al - 1, b0 + bl - 1)
            for c in chs:
                ln = c.get("lineNumber")
                if not isinstance(ln, int) or isinstance(ln, bool) or ln < 1:
                    errs.append(f"{cid}: {path}: lineNumber {ln!r} < 1")
                elif nlines is not None and ln > nlines + 1:
                    errs.append(f"{cid}: {path}: lineNumber {ln} outside the file ({nlines} lines)")
                if "description" in c and c["description"] is not None and not c["description"]:
                    errs.append(f"{cid}: {path}: empty change description")
                if c.get("description") is None:
                    errs.append(f"{cid}: {path}: change without description")
                for f in c.get("findings") or []:
                    if not f.get("id") or not isinstance(f.get("rule"), dict) or not f["rule"].get("id") or not f["rule"].get("name"):
                        errs.append(f"{cid}: {path}: finding without id / rule id / rule name: {f}")
        if proj is not None:
            for f in failed:
                if not str(f).startswith(str(proj) + "/"):
                    errs.append(f"{cid}: failedFiles names {f!r}, which is not a file of the project this run was given")
            for u in r.get("unfixedFindings") or []:
                up = str(u.get("path") or "")
                if up.startswith("/") and not up.startswith(str(proj) + "/"):
                    errs.append(f"{cid}: unfixed finding for {up!r}, which is not a file of this project")
        if origin and origin != "pixee":
            # identifiers of what was fixed: every source changeset of a tool-result driven codemod has a change that carries a finding
            # (a fix that spans several lines may report further changes without one)
            for cs in r["changeset"]:
                chs = cs.get("changes") or []
                if chs and Path(cs.get("path") or "").suffix == ".py" and not any(c.get("findings") for c in chs):
                    errs.append(f"{cid}: {cs.get('path')}: no change of this changeset carries a finding although the codemod is driven by tool results")
        fset = {f.split("/")[-1] if proj is None else (str(Path(f).relative_to(proj)) if str(f).startswith(str(proj)) else f) for f in failed}
        both = fset & set(changed)
        if both:
            errs.append(f"{cid}: files both failed and changed: {sorted(both)}")
        for u in r.get("unfixedFindings") or []:
            if not u.get("id") or not u.get("path") or not u.get("reason") or not isinstance(u.get("rule"), dict):
                errs.append(f"{cid}: malformed unfixed finding {u}")
    return errs
