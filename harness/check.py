"""Entry point: ./check <ID> [--tier quick|thorough] [--replay file]"""
import argparse
import importlib
import os
import signal
import sys
from pathlib import Path

sys.path.insert(0, str(Path(__file__).resolve().parent))
import common  # noqa: E402


def main():
    ap = argparse.ArgumentParser()
    ap.add_argument("prop")
    ap.add_argument("--tier", default=os.environ.get("VERIF_TIER") or "quick", choices=["quick", "thorough"])
    ap.add_argument("--replay")
    a = ap.parse_args()
    seed = int(os.environ.get("VERIF_SEED", "0") or 0)
    prop = a.prop.upper()
    mod = importlib.import_module(f"props.{prop.lower()}")
    if a.replay:
        common.setup_env()
        return mod.replay(a.replay) if hasattr(mod, "replay") else common.generic_replay(prop, mod, a.replay)

    limit = int(os.environ.get("VERIF_TIMEOUT", "1500" if a.tier == "quick" else "7200"))

    def on_alarm(*_):
        print(f"infrastructure: {prop} timed out after {limit}s", flush=True)
        os._exit(2)

    signal.signal(signal.SIGALRM, on_alarm)
    signal.alarm(limit)
    try:
        return common.run_check(prop, mod, a.tier, seed)
    except common.LeanError as e:
        print("infrastructure: driver failed:", str(e)[-500:])
        return 2


if __name__ == "__main__":
    sys.exit(main())
