"""Program-space pass shared by C01, C02, C07, C16, C18 (DESIGN §5): for every codemod K, variants of its trigger
snippets are packed into one project, K is run through the real CLI, re-run on its own output, and (for rule-detected
codemods) the codemod's own semgrep rule is run before and after. The records are cached per (source hash, tier, seed)
outside /verif so that the property checks, run one after the other, share one pass."""
from __future__ import annotations

import ast
import hashlib
import json
import os
import random
import shutil
import subprocess
import tempfile
import textwrap
from pathlib import Path

import common
import e2e
import impl
import sites
import callshapes

CACHE = Path(os.environ.get("VERIF_CACHE", "/var/tmp/verif-cache"))


def src_hash() -> str:
    h = hashlib.sha1()
    for p in sorted((common.REPO / "src").rglob("*")):
        if p.is_file() and p.suffix in (".py", ".yaml", ".md", ".toml"):
            h.update(str(p.relative_to(common.REPO)).encode())
            h.update(p.read_bytes())
    for p in sorted((common.VERIF / "harness").glob("*.py")) + [common.VERIF / "harness" / "corpus" / "seeds.json", common.VERIF / "harness" / "corpus" / "extra_seeds.json"]:
        h.update(p.read_bytes())
    return h.hexdigest()[:16]


def indent(code: str, n=4) -> str:
    return "".join((" " * n + ln) if ln.strip() else ln for ln in code.splitlines(keepends=True))


def variants(code: str, rng) -> dict[str, str]:
    """context / nesting / layout variants of one trigger snippet; each is kept only if it still compiles"""
    header, body = sites.split_seed(code)
    h, b = "".join(header), "".join(body)
    out = {"identity": code}
    if b.strip():
        out["in-def"] = h + "def outer_fn(request=None, *args, **kwargs):\n" + indent(b)
        out["in-async-def"] = h + "async def outer_coro(request=None):\n" + indent(b)
        out["in-method"] = h + "class Holder:\n    def method(self, request=None):\n" + indent(b, 8)
        out["in-if"] = h + "if True:\n" + indent(b)
        out["in-try"] = h + "try:\n" + indent(b) + "finally:\n    pass\n"
        out["in-with"] = h + "import contextlib\nwith contextlib.suppress(Exception):\n" + indent(b)
        out["after-docstring"] = '"""module docstring"""\n' + code
        out["with-decoy"] = code + "\n\ndef unrelated(a, b=2, *c, **d):\n    return [a, b, c, d]\n"
        lay = sites.build(code, 2, [1, 2], 0)
        if lay is not None:
            out["two-sites"] = lay.text
    out["crlf"] = code.replace("\n", "\r\n")
    out["no-final-newline"] = code.rstrip("\n")
    out["trailing-comment"] = code.rstrip("\n") + "  # trailing comment\n"
    out["tabs-after"] = code + "\nif True:\n\tz = 1\n"
    good = {}
    for k, v in out.items():
        try:
            ast.parse(v)
            good[k] = v
        except SyntaxError:
            pass
    return good


def semgrep_flag(codemod, files: list[Path]) -> dict[str, list]:
    """run the codemod's own rule (as the codemod does) over `files`: path -> [(start line, end line)]"""
    from codemodder.codemods.semgrep import SemgrepRuleDetector

    if not isinstance(codemod.detector, SemgrepRuleDetector) or not files:
        return {}
    yamls = codemod.detector.get_yaml_files(codemod._internal_name)
    out = Path(tempfile.mkstemp(suffix=".sarif", dir=os.environ.get("TMPDIR"))[1])
    try:
        cmd = ["semgrep", "scan", "--no-error", "--sarif", "-o", str(out)]
        for y in yamls:
            cmd += ["--config", str(y)]
        cmd += [str(f) for f in files]
        subprocess.run(cmd, stdout=subprocess.DEVNULL, stderr=subprocess.DEVNULL, timeout=600)
        data = json.loads(out.read_text() or "{}")
        res: dict[str, list] = {}
        for run in data.get("runs", []):
            for r in run.get("results", []):
                for l in r.get("locations", []):
                    pl = l["physicalLocation"]
                    rg = pl["region"]
                    res.setdefault(pl["artifactLocation"]["uri"], []).append([rg["startLine"], rg.get("endLine", rg["startLine"])])
        return res
    finally:
        for y in yamls:
            try: os.unlink(y)
            except OSError: pass
        try: os.unlink(out)
        except OSError: pass


def one_codemod(job):
    cid, programs = job["codemod"], job["programs"]
    from codemodder.registry import load_registered_codemods

    cm = next(c for c in load_registered_codemods().codemods if c.id == cid)
    root = common.tmpdir("ps")
    try:
        proj = root / "p"
        e2e.write_project(proj, {name + ".py": text.encode("utf-8") for name, text in programs.items()})
        files = sorted(proj.glob("*.py"))
        flagged0 = semgrep_flag(cm, files)
        r1 = e2e.run(proj, ["--codemod-include", cid])
        t1 = e2e.read_tree(proj)
        flagged1 = semgrep_flag(cm, files)
        r2 = e2e.run(proj, ["--codemod-include", cid])
        t2 = e2e.read_tree(proj)

        def per_file(rep):
            ch, failed = {}, set()
            for res in (rep or {}).get("results", []):
                for cs in res["changeset"]:
                    ch[cs["path"]] = [c["lineNumber"] for c in cs["changes"]]
                for f in res.get("failedFiles") or []:
                    failed.add(Path(f).name)
            return ch, failed

        ch1, failed1 = per_file(r1["report"])
        ch2, failed2 = per_file(r2["report"])
        recs = {}
        for name, text in programs.items():
            fn = name + ".py"
            recs[name] = {
                "before": text, "after": t1[fn].decode("utf-8", "replace"), "after2": t2[fn].decode("utf-8", "replace"),
                "changes": ch1.get(fn), "failed": fn in failed1, "changes2": ch2.get(fn), "failed2": fn in failed2,
                "flagged0": flagged0.get(str(proj / fn), []), "flagged1": flagged1.get(str(proj / fn), []),
            }
        return {"codemod": cid, "rc": [r1["rc"], r2["rc"]], "semgrep": bool(flagged0) or bool(flagged1) or _is_semgrep(cm), "records": recs}
    finally:
        shutil.rmtree(root, ignore_errors=True)


def _is_semgrep(cm):
    from codemodder.codemods.semgrep import SemgrepRuleDetector

    return isinstance(cm.detector, SemgrepRuleDetector)


def run_pass(tier: str, seed: int, want: set[str] | None = None) -> dict:
    """returns {codemod id: result of one_codemod}; cached"""
    key = f"{src_hash()}-{tier}-{seed}"
    CACHE.mkdir(parents=True, exist_ok=True)
    f = CACHE / f"progspace-{key}.json"
    if f.exists():
        try:
            return json.loads(f.read_text())
        except Exception:
            pass
    from codemodder.codemods.semgrep import SemgrepRuleDetector
    from codemodder.registry import load_registered_codemods

    reg = load_registered_codemods()
    sg = {c.id for c in reg.codemods if isinstance(c.detector, SemgrepRuleDetector)}
    seeds = e2e.load_seeds()
    extra = json.loads((common.VERIF / "harness" / "corpus" / "extra_seeds.json").read_text())
    rng = random.Random(f"progspace-{seed}")
    ids = sorted(k for k, v in seeds.items() if v and any(c.id == k for c in reg.codemods))
    if tier == "quick":
        libcst = [i for i in ids if i not in sg]
        sgi = [i for i in ids if i in sg]
        rng.shuffle(libcst); rng.shuffle(sgi)
        must = ["pixee:python/lazy-logging", "pixee:python/sql-parameterization", "pixee:python/invert-boolean-check"]
        ids = sorted(set(libcst[:18] + sgi[:8] + [m for m in must if m in ids]))
    jobs = []
    for cid in ids:
        pool = list(seeds[cid])
        rng.shuffle(pool)
        # the hand-written snippets (corner shapes recorded while building the checks) always take part
        prio = [x for x in extra.get(cid, []) if x in pool]
        pool = (prio + [x for x in pool if x not in prio])[: max(len(prio), 4 if tier == "quick" else 14)]
        programs = {}
        for si, code in enumerate(pool):
            vs = variants(code, rng)
            keys = list(vs) if tier != "quick" else (["identity"] + rng.sample([k for k in vs if k != "identity"], min(5, len(vs) - 1)))
            for k in keys:
                programs[f"s{si}_{k.replace('-', '_')}"] = vs[k]
        programs.update(callshapes.programs(cid, rng, 8 if tier == "quick" else 0))
        jobs.append({"codemod": cid, "programs": programs})
    results = impl.pool_map(one_codemod, jobs)
    out = {}
    for j, r in zip(jobs, results):
        out[j["codemod"]] = r[1] if r[0] == "ok" else {"codemod": j["codemod"], "error": r[1], "records": {}}
    tmp = f.with_suffix(".tmp%d" % os.getpid())
    tmp.write_text(json.dumps(out))
    os.replace(tmp, f)
    # keep the cache small
    old = sorted(CACHE.glob("progspace-*.json"), key=lambda p: p.stat().st_mtime)
    for p in old[:-6]:
        try: p.unlink()
        except OSError: pass
    return out
