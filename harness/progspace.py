"""Program-space pass shared by C01, C02, C07, C16, C18 (DESIGN §5): for every codemod K, variants of its trigger
snippets are packed into one project, K is run through the real CLI, re-run on its own output, and (for rule-detected
codemods) the codemod's own semgrep rule is run before and after. The records are cached per (source hash, tier, seed)
outside /verif so that the property checks, run one after the other, share one pass."""
from __future__ import annotations

import ast
import hashlib
import json
import os
import random
import shutil
import subprocess
import tempfile
import textwrap
from pathlib import Path

import common
import e2e
import impl
import sites
import callshapes

CACHE = Path(os.environ.get("VERIF_CACHE", "/var/tmp/verif-cache"))


def src_hash() -> str:
    h = hashlib.sha1()
    for p in sorted((common.REPO / "src").rglob("*")):
        if p.is_file() and p.suffix in (".py", ".yaml", ".md", ".toml"):
            h.update(str(p.relative_to(common.REPO)).encode())
            h.update(p.read_bytes())
    for p in sorted((common.VERIF / "harness").glob("*.py")) + [common.VERIF / "harness" / "corpus" / n for n in ("seeds.json", "extra_seeds.json", "added_imports.json")]:
        h.update(p.read_bytes())
    return h.hexdigest()[:16]


def indent(code: str, n=4) -> str:
    return "".join((" " * n + ln) if ln.strip() else ln for ln in code.splitlines(keepends=True))


def variants(code: str, rng, added_imports=()) -> dict:
    """context / nesting / layout variants of one trigger snippet; each is kept only if it still compiles"""
    header, body = sites.split_seed(code)
    h, b = "".join(header), "".join(body)
    out = {"identity": code}
    if b.strip():
        out["in-def"] = h + "def outer_fn(request=None, *args, **kwargs):\n" + indent(b)
        out["in-async-def"] = h + "async def outer_coro(request=None):\n" + indent(b)
        out["in-method"] = h + "class Holder:\n    def method(self, request=None):\n" + indent(b, 8)
        out["in-if"] = h + "if True:\n" + indent(b)
        out["in-try"] = h + "try:\n" + indent(b) + "finally:\n    pass\n"
        out["in-with"] = h + "import contextlib\nwith contextlib.suppress(Exception):\n" + indent(b)
        out["after-docstring"] = '"""module docstring"""\n' + code
        out["with-decoy"] = code + "\n\ndef unrelated(a, b=2, *c, **d):\n    return [a, b, c, d]\n"
        lay = sites.build(code, 2, [1, 2], 0)
        if lay is not None:
            out["two-sites"] = lay.text
    if added_imports:
        # what the codemod imports is already imported (and used) - but only inside an unrelated function or class body
        def bound(lines):
            names = []
            for ln in lines:
                for n in ast.parse(ln).body[0].names:
                    names.append((n.asname or n.name).split(".")[0])
            return ", ".join(dict.fromkeys(names))
        out["nested-scope-imports"] = (code + "\n\ndef _late_imports():\n" + "".join(f"    {ln}\n" for ln in added_imports) + f"    return [{bound(added_imports)}]\n\n\nclass _Cfg:\n"
                                       + "".join(f"    {ln}\n" for ln in added_imports[:2]) + f"    x = [{bound(added_imports[:2])}]\n")
    out["crlf"] = code.replace("\n", "\r\n")
    out["no-final-newline"] = code.rstrip("\n")
    out["trailing-comment"] = code.rstrip("\n") + "  # trailing comment\n"
    out["tabs-after"] = code + "\nif True:\n\tz = 1\n"
    good = {}
    for k, v in out.items():
        try:
            ast.parse(v)
            good[k] = v
        except SyntaxError:
            pass
    # a source file in a legacy encoding announced by a PEP 263 cookie (bytes, not text)
    try:
        legacy = ("# -*- coding: latin-1 -*-\ncaf\u00e9 = '\u00e9t\u00e9'\n" + code).encode("latin-1")
        compile(legacy, "x", "exec")
        good["cookie-latin1"] = legacy
    except (SyntaxError, UnicodeError, ValueError):
        pass
    return good


def to_text(b: bytes) -> str:
    try:
        return b.decode("utf-8")
    except UnicodeDecodeError:
        return b.decode("latin-1")


def compiles(b: bytes) -> bool:
    """does Python accept the file as it is on disk (the coding cookie is honoured)"""
    try:
        compile(b, "x", "exec")
        return True
    except (SyntaxError, ValueError, UnicodeError):
        try:
            ast.parse(b)
            return True
        except Exception:
            return False


def semgrep_flag(codemod, files: list[Path]) -> dict[str, list]:
    """run the codemod's own rule (as the codemod does) over `files`: path -> [(start line, end line)]"""
    from codemodder.codemods.semgrep import SemgrepRuleDetector

    if not isinstance(codemod.detector, SemgrepRuleDetector) or not files:
        return {}
    yamls = codemod.detector.get_yaml_files(codemod._internal_name)
    out = Path(tempfile.mkstemp(suffix=".sarif", dir=os.environ.get("TMPDIR"))[1])
    try:
        cmd = ["semgrep", "scan", "--no-error", "--jobs", "1", "--sarif", "-o", str(out)]
        for y in yamls:
            cmd += ["--config", str(y)]
        cmd += [str(f) for f in files]
        subprocess.run(cmd, stdout=subprocess.DEVNULL, stderr=subprocess.DEVNULL, timeout=600)
        data = json.loads(out.read_text() or "{}")
        res: dict[str, list] = {}
        for run in data.get("runs", []):
            for r in run.get("results", []):
                for l in r.get("locations", []):
                    pl = l["physicalLocation"]
                    rg = pl["region"]
                    res.setdefault(pl["artifactLocation"]["uri"], []).append([rg["startLine"], rg.get("endLine", rg["startLine"])])
        return res
    finally:
        for y in yamls:
            try: os.unlink(y)
            except OSError: pass
        try: os.unlink(out)
        except OSError: pass


def flag_many(items) -> dict[str, dict[str, list]]:
    """ONE semgrep run for many codemods: items = [(codemod, project dir)]; codemod id -> {file path: [[start line, end line]]}.
    Each codemod's own rule file is built as the codemod builds it; a result counts for codemod K only inside K's project."""
    import yaml
    from codemodder.codemods.semgrep import SemgrepRuleDetector

    items = [(cm, d) for cm, d in items if isinstance(cm.detector, SemgrepRuleDetector)]
    if not items:
        return {}
    yamls, rule_ids = [], {}
    for cm, d in items:
        ys = cm.detector.get_yaml_files(cm._internal_name)
        yamls += ys
        rule_ids[cm.id] = [r["id"] for y in ys for r in yaml.safe_load(Path(y).read_text())["rules"]]
    out = Path(tempfile.mkstemp(suffix=".sarif", dir=os.environ.get("TMPDIR"))[1])
    try:
        cmd = ["semgrep", "scan", "--no-error", "--jobs", "16", "--sarif", "-o", str(out)]
        for y in yamls:
            cmd += ["--config", str(y)]
        cmd += [str(d) for _, d in items]
        subprocess.run(cmd, stdout=subprocess.DEVNULL, stderr=subprocess.DEVNULL, timeout=1800)
        data = json.loads(out.read_text() or "{}")
        res: dict[str, dict[str, list]] = {cm.id: {} for cm, _ in items}
        for run in data.get("runs", []):
            for r in run.get("results", []):
                rid = r.get("ruleId", "")
                for l in r.get("locations", []):
                    pl = l["physicalLocation"]
                    uri, rg = pl["artifactLocation"]["uri"], pl["region"]
                    for cm, d in items:
                        if uri.startswith(str(d) + "/") and any(rid == i or rid.endswith("." + i) for i in rule_ids[cm.id]):
                            res[cm.id].setdefault(uri, []).append([rg["startLine"], rg.get("endLine", rg["startLine"])])
        return res
    finally:
        for y in yamls + [out]:
            try: os.unlink(y)
            except OSError: pass


def _per_file(rep):
    ch, failed = {}, set()
    for res in (rep or {}).get("results", []):
        for cs in res["changeset"]:
            ch[cs["path"]] = [c["lineNumber"] for c in cs["changes"]]
        for f in res.get("failedFiles") or []:
            failed.add(Path(f).name)
    return ch, failed


def cli_step(job):
    """one CLI run of the codemod on its project (in place); returns (rc, changes per file, failed files, tree)"""
    proj = Path(job["proj"])
    r = e2e.run(proj, ["--codemod-include", job["codemod"]])
    ch, failed = _per_file(r["report"])
    tree = e2e.read_tree(proj)
    return {"rc": r["rc"], "changes": ch, "failed": sorted(failed), "tree": {k: to_text(v) for k, v in tree.items()}, "compiles": {k: compiles(v) for k, v in tree.items()}}


def _is_semgrep(cm):
    from codemodder.codemods.semgrep import SemgrepRuleDetector

    return isinstance(cm.detector, SemgrepRuleDetector)


def run_pass(tier: str, seed: int, want: set[str] | None = None) -> dict:
    """returns {codemod id: per-codemod records}; cached"""
    key = f"{src_hash()}-{tier}-{seed}"
    CACHE.mkdir(parents=True, exist_ok=True)
    f = CACHE / f"progspace-{key}.json"
    if f.exists():
        try:
            return json.loads(f.read_text())
        except Exception:
            pass
    from codemodder.codemods.semgrep import SemgrepRuleDetector
    from codemodder.registry import load_registered_codemods

    reg = load_registered_codemods()
    sg = {c.id for c in reg.codemods if isinstance(c.detector, SemgrepRuleDetector)}
    seeds = e2e.load_seeds(include_findings=True)
    extra = json.loads((common.VERIF / "harness" / "corpus" / "extra_seeds.json").read_text())
    added = json.loads((common.VERIF / "harness" / "corpus" / "added_imports.json").read_text())
    rng = random.Random(f"progspace-{seed}")
    ids = sorted(k for k, v in seeds.items() if v and any(c.id == k for c in reg.codemods))
    if tier == "quick":
        libcst = [i for i in ids if i not in sg]
        sgi = [i for i in ids if i in sg]
        rng.shuffle(libcst); rng.shuffle(sgi)
        # codemods with hand-written corner shapes or call-shape templates always take part
        must = [m for m in ids if m in extra or m in callshapes.TEMPLATES]
        ids = sorted(set(libcst[:6] + sgi[:2] + must))
    jobs = []
    for cid in ids:
        pool = list(seeds[cid])
        rng.shuffle(pool)
        # the hand-written snippets (corner shapes recorded while building the checks) always take part
        prio = [x for x in extra.get(cid, []) if x in pool]
        pool = (prio + [x for x in pool if x not in prio])[: max(len(prio), 4 if tier == "quick" else 14)]
        programs = {}
        for si, code in enumerate(pool):
            vs = variants(code, rng, [] if cid.endswith(("order-imports", "unused-imports", "remove-future-imports")) else added.get(cid, []))
            always = [k for k in ("identity", "nested-scope-imports") if k in vs] + (["cookie-latin1"] if si == 0 and "cookie-latin1" in vs else [])
            keys = list(vs) if tier != "quick" else (always + rng.sample([k for k in vs if k not in always], min(4, len(vs) - len(always))))
            for k in keys:
                programs[f"s{si}_{k.replace('-', '_')}"] = vs[k]
        programs.update(callshapes.programs(cid, rng, 8 if tier == "quick" else 0))
        jobs.append({"codemod": cid, "programs": programs})
    by_id = {c.id: c for c in reg.codemods}
    root = common.tmpdir("ps")
    try:
        for j in jobs:
            j["proj"] = str(root / j["codemod"].replace(":", "_").replace("/", "_") / "p")
            e2e.write_project(Path(j["proj"]), {name + ".py": (text if isinstance(text, bytes) else text.encode("utf-8")) for name, text in j["programs"].items()})
        items = [(by_id[j["codemod"]], Path(j["proj"])) for j in jobs]
        flagged0 = flag_many(items)
        step = [{"codemod": j["codemod"], "proj": j["proj"]} for j in jobs]
        run1 = impl.pool_map(cli_step, step)
        flagged1 = flag_many(items)
        run2 = impl.pool_map(cli_step, step)
        out = {}
        for j, r1, r2 in zip(jobs, run1, run2):
            cid = j["codemod"]
            if r1[0] != "ok" or r2[0] != "ok":
                out[cid] = {"codemod": cid, "error": (r1[1] if r1[0] != "ok" else r2[1]), "records": {}}
                continue
            r1, r2 = r1[1], r2[1]
            recs = {}
            for name, text in j["programs"].items():
                fn = name + ".py"
                path = str(Path(j["proj"]) / fn)
                recs[name] = {"before": to_text(text) if isinstance(text, bytes) else text, "after": r1["tree"][fn], "after2": r2["tree"][fn],
                              "before_compiles": compiles(text if isinstance(text, bytes) else text.encode("utf-8")), "after_compiles": r1["compiles"][fn],
                              "changes": r1["changes"].get(fn), "failed": fn in r1["failed"], "changes2": r2["changes"].get(fn), "failed2": fn in r2["failed"],
                              "flagged0": flagged0.get(cid, {}).get(path, []), "flagged1": flagged1.get(cid, {}).get(path, [])}
            out[cid] = {"codemod": cid, "rc": [r1["rc"], r2["rc"]], "semgrep": cid in sg, "records": recs}
    finally:
        shutil.rmtree(root, ignore_errors=True)
    tmp = f.with_suffix(".tmp%d" % os.getpid())
    tmp.write_text(json.dumps(out))
    os.replace(tmp, f)
    # keep the cache small
    old = sorted(CACHE.glob("progspace-*.json"), key=lambda p: p.stat().st_mtime)
    for p in old[:-6]:
        try: p.unlink()
        except OSError: pass
    return out
