"""Scope-aware unresolved-name analysis (oracle for C02), built on `symtable`.

A name is reported unresolved only if some scope *reads* it as a global (explicitly or implicitly), the module
scope does not bind it (assignment, import, def, class, for/with/except target, global declaration in a function that
assigns it), and it is not a builtin. A module with a star import, `exec`/`eval`, `globals()`/`locals()`/`vars()` use or
a module-level `__getattr__` is opaque (nothing reported)."""
from __future__ import annotations

import ast
import builtins
import symtable

BUILTINS = set(dir(builtins)) | {"__file__", "__name__", "__doc__", "__builtins__", "__spec__", "__loader__", "__package__", "__path__", "__debug__", "__class__", "__annotations__", "__dict__", "__module__", "__qualname__"}


def unresolved(text: str) -> set[str] | None:
    """None = the module is opaque or does not compile to a symbol table"""
    try:
        tree = ast.parse(text)
        top = symtable.symtable(text, "<x>", "exec")
    except (SyntaxError, ValueError, RecursionError):
        return None
    for node in ast.walk(tree):
        if isinstance(node, ast.ImportFrom) and any(a.name == "*" for a in node.names):
            return None
        if isinstance(node, ast.Name) and node.id in ("exec", "eval", "globals", "locals", "vars"):
            return None
        if isinstance(node, ast.FunctionDef) and node.name == "__getattr__" and node in tree.body:
            return None
    module_bound = set()
    def collect_global_assignments(t):
        for s in t.get_symbols():
            if t is top:
                if s.is_assigned() or s.is_imported() or s.is_namespace() or s.is_parameter():
                    module_bound.add(s.get_name())
            elif s.is_declared_global() and (s.is_assigned() or s.is_imported() or s.is_namespace()):
                module_bound.add(s.get_name())
        for c in t.get_children():
            collect_global_assignments(c)
    collect_global_assignments(top)
    out = set()
    def walk(t):
        for s in t.get_symbols():
            if not s.is_referenced():
                continue
            n = s.get_name()
            if t is top:
                if not (s.is_assigned() or s.is_imported() or s.is_namespace()) and n not in BUILTINS:
                    out.add(n)
            elif s.is_global() and n not in module_bound and n not in BUILTINS:
                out.add(n)
        for c in t.get_children():
            walk(c)
    walk(top)
    return out
