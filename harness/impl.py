"""Running the real codemodder (in-process, /repo's working tree) from the harness."""
from __future__ import annotations

import contextlib
import json
import multiprocessing as mp
import os
import sys
import traceback
from pathlib import Path


@contextlib.contextmanager
def quiet():
    """Silence fds 1 and 2 (codemodder logs to both) for the duration."""
    sys.stdout.flush()
    sys.stderr.flush()
    devnull = os.open(os.devnull, os.O_WRONLY)
    o1, o2 = os.dup(1), os.dup(2)
    os.dup2(devnull, 1)
    os.dup2(devnull, 2)
    try:
        yield
    finally:
        sys.stdout.flush()
        sys.stderr.flush()
        os.dup2(o1, 1)
        os.dup2(o2, 2)
        for fd in (devnull, o1, o2):
            os.close(fd)


@contextlib.contextmanager
def environ(extra: dict | None):
    old = {}
    for k, v in (extra or {}).items():
        old[k] = os.environ.get(k)
        if v is None:
            os.environ.pop(k, None)
        else:
            os.environ[k] = v
    try:
        yield
    finally:
        for k, v in old.items():
            if v is None:
                os.environ.pop(k, None)
            else:
                os.environ[k] = v


def reset_logging():
    import logging

    lg = logging.getLogger("codemodder")
    for h in list(lg.handlers):
        lg.removeHandler(h)
    root = logging.getLogger()
    for h in list(root.handlers):
        root.removeHandler(h)


def run_cli(argv: list[str], env: dict | None = None):
    """codemodder.codemodder.run(argv) in-process. Returns ("exit", n) | ("uncaught", type name)."""
    from codemodder import codemodder as cm

    with environ(env), quiet():
        try:
            rc = cm.run(list(argv))
            res = ("exit", int(rc))
        except SystemExit as e:
            code = e.code
            res = ("exit", 0 if code is None else (code if isinstance(code, int) else 1))
        except BaseException as e:  # noqa
            res = ("uncaught", type(e).__name__)
        finally:
            reset_logging()
    return res


_FN = None


def _call(item):
    fn = _FN  # inherited through fork: the function itself is never pickled (closures and lambdas work)
    try:
        return ("ok", fn(item))
    except BaseException as e:  # noqa
        return ("err", f"{type(e).__name__}: {e}\n{traceback.format_exc()[-1500:]}")


def pool_map(fn, items, procs: int | None = None, chunksize: int = 1):
    """Ordered parallel map over forked workers; a worker exception becomes ('err', text)."""
    items = list(items)
    if not items:
        return []
    procs = min(procs or (os.cpu_count() or 4), len(items))
    global _FN
    _FN = fn
    if procs <= 1:
        return [_call(it) for it in items]
    ctx = mp.get_context("fork")
    with ctx.Pool(procs) as pool:
        return pool.map(_call, items, chunksize=chunksize)


def read_report(path) -> dict | None:
    try:
        return json.loads(Path(path).read_text())
    except Exception:
        return None
