"""Translator: closed boolean / arithmetic Python functions of /repo -> Lean definitions (DESIGN §2).

For each function of SPECS the current source text is parsed with `ast` and translated into a Lean
`def gen_<name>` (CM/Generated/Preds.lean); CM/Generated/PredsEq.lean states and proves
`gen_<name> = <hand-written model function>`, so the property theorems (stated over the model) are
re-checked against what the code says now. A function that leaves the whitelist is emitted as
`gen_<name> := <model>` with a note (the tie for it falls back to the correspondence alone).
"""
from __future__ import annotations

import ast
from pathlib import Path

import common

POS_ATTR = {("start", "line"): "sl", ("start", "column"): "sc", ("end", "line"): "el", ("end", "column"): "ec"}


class Untranslatable(Exception):
    pass


class Tr:
    def __init__(self, spec, auxes):
        self.spec = spec
        self.vars = dict(spec["vars"])  # python name -> lean name
        self.selfattrs = dict(spec.get("selfattrs", {}))
        self.walrus: dict[str, str] = {}
        self.auxes = auxes  # list of (name, params, body) emitted before the main def
        self.calls = spec.get("calls", {})

    def attr_chain(self, node):
        parts = []
        while isinstance(node, ast.Attribute):
            parts.append(node.attr)
            node = node.value
        if not isinstance(node, ast.Name):
            raise Untranslatable("attribute base")
        return node.id, tuple(reversed(parts))

    def num(self, node) -> str:
        """integer-valued term"""
        if isinstance(node, ast.Constant) and isinstance(node.value, int) and not isinstance(node.value, bool):
            return f"({node.value} : Int)"
        if isinstance(node, ast.NamedExpr):
            if not isinstance(node.target, ast.Name):
                raise Untranslatable("walrus target")
            v = self.num(node.value)
            self.walrus[node.target.id] = v
            return v
        if isinstance(node, ast.Name):
            if node.id in self.walrus:
                return self.walrus[node.id]
            if node.id in self.vars:
                return self.vars[node.id]
            raise Untranslatable(f"name {node.id}")
        if isinstance(node, ast.Attribute):
            base, parts = self.attr_chain(node)
            if base in self.vars and parts in POS_ATTR:
                return f"{self.vars[base]}.{POS_ATTR[parts]}"
            raise Untranslatable(f"attribute {base}.{'.'.join(parts)}")
        if isinstance(node, ast.BinOp) and isinstance(node.op, (ast.Add, ast.Sub)):
            op = "+" if isinstance(node.op, ast.Add) else "-"
            return f"({self.num(node.left)} {op} {self.num(node.right)})"
        if isinstance(node, ast.UnaryOp) and isinstance(node.op, ast.USub):
            return f"(-{self.num(node.operand)})"
        raise Untranslatable(f"numeric {ast.dump(node)[:60]}")

    def listexpr(self, node) -> str:
        if isinstance(node, ast.Attribute):
            base, parts = self.attr_chain(node)
            if base == "self" and len(parts) == 1 and parts[0] in self.selfattrs:
                return self.selfattrs[parts[0]]
            if base in self.vars and len(parts) == 1 and parts[0] in self.selfattrs:
                return self.selfattrs[parts[0]]
        raise Untranslatable("list expression")

    def boolean(self, node) -> str:
        if isinstance(node, ast.Constant) and isinstance(node.value, bool):
            return "true" if node.value else "false"
        if isinstance(node, ast.BoolOp):
            op = " && " if isinstance(node.op, ast.And) else " || "
            return "(" + op.join(self.boolean(v) for v in node.values) + ")"
        if isinstance(node, ast.UnaryOp) and isinstance(node.op, ast.Not):
            return f"(!{self.boolean(node.operand)})"
        if isinstance(node, ast.Compare):
            terms = []
            left = node.left
            for op, right in zip(node.ops, node.comparators):
                if isinstance(op, ast.In):
                    if not isinstance(right, ast.Tuple):
                        raise Untranslatable("in non-tuple")
                    # evaluate the tuple elements first (walrus bindings inside them), as Python does
                    l = self.num(left)
                    elts = [self.num(e) for e in right.elts]
                    terms.append("(" + " || ".join(f"({l} == {e})" for e in elts) + ")")
                else:
                    l, r = self.num(left), self.num(right)
                    sym = {ast.Eq: "==", ast.NotEq: "!=", ast.Lt: "<", ast.LtE: "≤", ast.Gt: ">", ast.GtE: "≥"}.get(type(op))
                    if sym is None:
                        raise Untranslatable("comparison operator")
                    terms.append(f"({l} {sym} {r})" if sym in ("==", "!=") else f"decide ({l} {sym} {r})")
                left = right
            return "(" + " && ".join(terms) + ")" if len(terms) > 1 else terms[0]
        if isinstance(node, ast.Call) and isinstance(node.func, ast.Name):
            if node.func.id == "any" and len(node.args) == 1 and isinstance(node.args[0], ast.GeneratorExp):
                g = node.args[0]
                if len(g.generators) != 1 or g.generators[0].ifs or not isinstance(g.generators[0].target, ast.Name):
                    raise Untranslatable("comprehension shape")
                xs = self.listexpr(g.generators[0].iter)
                var = g.generators[0].target.id
                ty = self.spec["elem"][var]
                lv = {"Loc": "l", "Int": "line"}[ty]
                sub = Tr(dict(self.spec, vars=dict(self.vars, **{var: lv})), self.auxes)
                body = sub.boolean(g.elt)
                free = [(v, t) for v, t in self.spec["params"]]
                aux_name = f"gen_{self.spec['name']}_{len(self.auxes) + 1}"
                params = " ".join(f"({v} : {t})" for v, t in free) + f" ({lv} : {ty})"
                self.auxes.append((aux_name, params, body))
                args = " ".join(v for v, _ in free)
                return f"({xs}.any fun {lv} => {aux_name} {args} {lv})"
            if node.func.id in self.calls and not node.keywords:
                return f"({self.calls[node.func.id]} " + " ".join(self.arg(a) for a in node.args) + ")"
        if isinstance(node, ast.Attribute):  # truthiness of a list attribute
            return f"(!{self.listexpr(node)}.isEmpty)"
        raise Untranslatable(f"boolean {ast.dump(node)[:80]}")

    def arg(self, node) -> str:
        if isinstance(node, ast.Name) and node.id in self.vars:
            return self.vars[node.id]
        raise Untranslatable("call argument")

    def body(self, stmts) -> str:
        stmts = [s for s in stmts if not (isinstance(s, ast.Expr) and isinstance(s.value, ast.Constant)) and not isinstance(s, ast.Delete)]
        if not stmts:
            raise Untranslatable("falls off the end")
        s = stmts[0]
        if isinstance(s, ast.Return) and s.value is not None:
            return self.boolean(s.value)
        if isinstance(s, ast.If) and not s.orelse:
            c = self.boolean(s.test)
            t = self.body(s.body)
            e = self.body(stmts[1:])
            return f"(if {c} then {t} else {e})"
        if isinstance(s, ast.If):
            return f"(if {self.boolean(s.test)} then {self.body(s.body)} else {self.body(s.orelse)})"
        raise Untranslatable(f"statement {type(s).__name__}")


P, L = ("p", "Pos"), ("l", "Loc")
SPECS = [
    dict(name="same_line", file="src/codemodder/result.py", func="same_line", params=[P, L],
         vars={"pos": "p", "location": "l"}, model="sameLine p l"),
    dict(name="fuzzy_column_match", file="src/codemodder/result.py", func="fuzzy_column_match", params=[P, L],
         vars={"pos": "p", "location": "l"}, model="fuzzyColumnMatch p l"),
    dict(name="match_location", file="src/codemodder/result.py", cls="Result", func="match_location",
         params=[P], extra=[("locs", "List Loc")], vars={"pos": "p"}, selfattrs={"locations": "locs"},
         elem={"location": "Loc"}, calls={"same_line": "gen_same_line"}, model="matchLoc p locs", aux_model="matchLoc1 p l"),
    dict(name="dd_match_location", file="src/core_codemods/defectdojo/results.py", cls="DefectDojoResult", func="match_location",
         params=[P], extra=[("locs", "List Loc")], vars={"pos": "p"}, selfattrs={"locations": "locs"},
         elem={"location": "Loc"}, model="ddMatchLoc p locs", aux_model="ddMatch1 p l"),
    dict(name="match_line", file="src/codemodder/codemods/base_visitor.py", func="match_line", params=[P, ("line", "Int")],
         vars={"pos": "p", "line": "line"}, model="matchLine p line"),
    dict(name="match_line_rui", file="src/core_codemods/remove_unused_imports.py", func="match_line", params=[P, ("line", "Int")],
         vars={"pos": "p", "line": "line"}, model="matchLine p line"),
    dict(name="line_filter", file="src/codemodder/codemods/base_visitor.py", cls="UtilsMixin", func="filter_by_path_includes_or_excludes",
         params=[P], extra=[("excl", "List Int"), ("incl", "List Int")], vars={"pos_to_match": "p"},
         selfattrs={"line_exclude": "excl", "line_include": "incl"}, elem={"line": "Int"},
         calls={"match_line": "gen_match_line"}, model="lineFilter excl incl p", aux_model="matchLine p line"),
    dict(name="line_filter_rui", file="src/core_codemods/remove_unused_imports.py", cls="RemoveUnusedImportsCodemod",
         func="filter_by_path_includes_or_excludes",
         params=[P], extra=[("excl", "List Int"), ("incl", "List Int")], vars={"pos_to_match": "p"},
         selfattrs={"line_exclude": "excl", "line_include": "incl"}, elem={"line": "Int"},
         calls={"match_line": "gen_match_line_rui"}, model="lineFilter excl incl p", aux_model="matchLine p line"),
    dict(name="finding_covers", file="src/codemodder/file_context.py", cls="FileContext", func="get_findings_for_location",
         inner_any=True, params=[("line", "Int")], extra=[("locs", "List Loc")], vars={"line_number": "line"},
         selfattrs={"locations": "locs"}, elem={"location": "Loc"}, model="coversLine locs line", aux_model="covers1 line l"),
]


def find_func(tree, cls, func):
    nodes = tree.body
    if cls:
        for n in tree.body:
            if isinstance(n, ast.ClassDef) and n.name == cls:
                nodes = n.body
                break
        else:
            # the class may have been renamed: look for the method anywhere
            for n in ast.walk(tree):
                if isinstance(n, ast.ClassDef) and any(isinstance(m, ast.FunctionDef) and m.name == func for m in n.body):
                    nodes = n.body
                    break
    for n in nodes:
        if isinstance(n, ast.FunctionDef) and n.name == func:
            return n
    return None


def translate(spec):
    src = (common.REPO / spec["file"]).read_text()
    fn = find_func(ast.parse(src), spec.get("cls"), spec["func"])
    if fn is None:
        raise Untranslatable("function not found")
    auxes: list = []
    tr = Tr(spec, auxes)
    if spec.get("inner_any"):
        calls = [n for n in ast.walk(fn) if isinstance(n, ast.Call) and isinstance(n.func, ast.Name) and n.func.id == "any"]
        if len(calls) != 1:
            raise Untranslatable("expected one any(...)")
        tr.vars["result"] = "r"
        body = tr.boolean(calls[0])
    else:
        body = tr.body(fn.body)
    return auxes, body


def block():
    """returns (defs text, theorems text, info)"""
    defs, thms, info = [], [], {"translated": [], "untranslatable": {}}
    defs.append("open CM.Location\n")
    thms.append("open CM.Location\n")
    for spec in SPECS:
        name = "gen_" + spec["name"]
        allparams = list(spec["params"]) + list(spec.get("extra", []))
        ptxt = " ".join(f"({v} : {t})" for v, t in allparams)
        args = " ".join(v for v, _ in allparams)
        try:
            auxes, body = translate(spec)
        except (Untranslatable, SyntaxError, OSError) as e:
            info["untranslatable"][spec["name"]] = str(e)
            defs.append(f"/-- NOT TRANSLATED ({e}): falls back to the model; tie by correspondence only -/\n"
                        f"def {name} {ptxt} : Bool := {spec['model']}\n")
            thms.append(f"theorem {name}_eq {ptxt} : {name} {args} = {spec['model']} := rfl\n")
            continue
        info["translated"].append(spec["name"])
        simp_extra = []
        call_eqs = [f"{c}_eq" for c in spec.get("calls", {}).values()]
        model_defs = ["sameLine", "fuzzyColumnMatch", "matchLoc", "matchLoc1", "ddMatchLoc", "ddMatch1", "matchLine",
                      "lineFilter", "coversLine", "covers1"]
        fin = "  all_goals first | rfl | grind | (simp; done)\n"
        for aname, aparams, abody in auxes:
            anames = " ".join(x.split(":")[0].strip("( ") for x in aparams.split(")") if x.strip())
            defs.append(f"def {aname} {aparams} : Bool := {abody}\n")
            thms.append(f"theorem {aname}_eq {aparams} : {aname} {anames} = {spec['aux_model']} := by\n"
                        f"  try simp only [{', '.join([aname] + model_defs + call_eqs)}]\n" + fin)
            simp_extra.append(f"{aname}_eq")
        defs.append(f"/-- translated from {spec['file']} `{(spec.get('cls') + '.') if spec.get('cls') else ''}{spec['func']}` -/\n"
                    f"def {name} {ptxt} : Bool := {body}\n")
        thms.append(f"theorem {name}_eq {ptxt} : {name} {args} = {spec['model']} := by\n"
                    f"  try simp only [{', '.join([name] + model_defs + call_eqs + simp_extra)}]\n" + fin)
    return "\n".join(defs), "\n".join(thms), info
