"""Call-shape program generator for the call-editing codemods (C16 quantifier: positional / keyword / star arguments in any
order and layout, nested calls, aliases, several calls per file). Templates give the import header, the callee and the minimal
triggering arguments; the generator varies everything around them. Programs are inputs only."""
from __future__ import annotations

TEMPLATES = {
    "pixee:python/requests-verify": {"imports": ["import requests"], "callee": "requests.get", "pos": ["'https://example.com/x'"], "kw": ["verify=False"], "alias": ("import requests as rq", "rq.get")},
    "pixee:python/add-requests-timeouts": {"imports": ["import requests"], "callee": "requests.get", "pos": ["'https://example.com'"], "kw": [], "alias": ("import requests as rq", "rq.get")},
    "pixee:python/subprocess-shell-false": {"imports": ["import subprocess"], "callee": "subprocess.run", "pos": ["'echo hi'"], "kw": ["shell=True"], "alias": ("from subprocess import Popen", "Popen")},
    "pixee:python/harden-pyyaml": {"imports": ["import yaml"], "callee": "yaml.load", "pos": ["data"], "kw": ["Loader=yaml.Loader"], "alias": ("import yaml as yml", "yml.load"), "pre": "data = 'a: 1'\n"},
    "pixee:python/enable-jinja2-autoescape": {"imports": ["import jinja2"], "callee": "jinja2.Environment", "pos": [], "kw": ["autoescape=False"], "alias": ("from jinja2 import Environment", "Environment")},
    "pixee:python/safe-lxml-parser-defaults": {"imports": ["import lxml.etree"], "callee": "lxml.etree.XMLParser", "pos": [], "kw": ["resolve_entities=True"], "alias": ("from lxml import etree", "etree.XMLParser")},
    "pixee:python/secure-random": {"imports": ["import random"], "callee": "random.choice", "pos": ["items"], "kw": [], "alias": ("import random as rnd", "rnd.choice"), "pre": "items = [1, 2, 3]\n", "nest": "random.sample(items, 2)"},
    "pixee:python/secure-flask-cookie": {"imports": ["import flask"], "callee": "resp.set_cookie", "pos": ["'name'", "'value'"], "kw": ["secure=False"], "pre": "resp = flask.make_response('x')\n"},
    "pixee:python/https-connection": {"imports": ["import urllib3"], "callee": "urllib3.HTTPConnectionPool", "pos": ["'localhost'", "80"], "kw": [], "alias": ("from urllib3 import HTTPConnectionPool", "HTTPConnectionPool"),
                                      "long_pos": ["'localhost'", "80", "None", "False", "None", "1", "False", "0", "None"], "long_kw": ["socket_options=opts", "source_address=src"], "pre": "opts = []\nsrc = None\n"},
    "pixee:python/limit-readline": {"imports": [], "callee": "fh.readline", "pos": [], "kw": [], "pre": "fh = open('some_file.txt')\n"},
    "pixee:python/harden-ruamel": {"imports": ["from ruamel.yaml import YAML"], "callee": "YAML", "pos": [], "kw": ["typ='unsafe'"]},
    "pixee:python/jwt-decode-verify": {"imports": ["import jwt"], "callee": "jwt.decode", "pos": ["token", "'key'"], "kw": ["algorithms=['HS256']", "verify=False"], "pre": "token = 'x.y.z'\n"},
    "pixee:python/upgrade-sslcontext-tls": {"imports": ["import ssl"], "callee": "ssl.SSLContext", "pos": [], "kw": ["protocol=ssl.PROTOCOL_SSLv2"], "alias": ("from ssl import SSLContext, PROTOCOL_SSLv2", "SSLContext")},
    "pixee:python/sandbox-process-creation": {"imports": ["import subprocess"], "callee": "subprocess.run", "pos": ["cmd"], "kw": [], "pre": "cmd = input()\n"},
    "pixee:python/url-sandbox": {"imports": ["import requests"], "callee": "requests.get", "pos": ["url"], "kw": [], "pre": "url = input()\n"},
}


def programs(cid: str, rng, limit: int) -> dict[str, str]:
    t = TEMPLATES.get(cid)
    if t is None:
        return {}
    head = "\n".join(t["imports"]) + ("\n" if t["imports"] else "") + t.get("pre", "") + "extra = ['e']\nopts_kw = {}\n"
    callee = t["callee"]
    pos, kw = t["pos"], t["kw"]
    def call(args, c=callee):
        return f"{c}({', '.join(args)})"
    shapes = {
        "plain": call(pos + kw),
        "trailing-comma": f"{callee}({', '.join(pos + kw)},)" if pos + kw else call([]),
        "star-args": call(pos + ["*extra"] + kw),
        "star-after-kw": call(pos + kw + ["*extra"]) if kw else call(pos + ["*extra"]),
        "double-star": call(pos + kw + ["**opts_kw"]),
        "kw-first": call(kw + [f"p{i}={p}" for i, p in enumerate([])] + pos) if not pos else call(pos + kw[::-1] + ["headers=None"]),
        "extra-kw-before": call(pos + ["headers=None"] + kw + ["cert=None"]),
        "multi-line": f"{callee}(\n    " + ",\n    ".join(pos + kw + ["# a comment\n    stream=True"] if False else pos + kw) + ",\n)" if pos + kw else call([]),
        "assigned": "result = " + call(pos + kw),
        "as-argument": "print(" + call(pos + kw) + ")",
        "two-calls": call(pos + kw) + "\n" + call(pos + kw),
        "in-lambda": "fn = lambda: " + call(pos + kw),
    }
    nest = t.get("nest") or call(pos + kw)
    if pos:
        shapes["nested-in-first-arg"] = call([f"str({nest})" if not t.get("nest") else nest] + pos[1:] + kw)
        shapes["nested-direct"] = call([nest] + pos[1:] + kw)
    if "long_pos" in t:
        shapes["nine-positional-plus-keywords"] = call(t["long_pos"] + t["long_kw"])
        shapes["ten-positional"] = call(t["long_pos"] + ["None"])
        shapes["ten-positional-plus-keywords"] = call(t["long_pos"] + ["None"] + t["long_kw"])
    out = {}
    for name, body in shapes.items():
        out[f"cs_{name.replace('-', '_')}"] = head + body + "\n"
    if "alias" in t:
        imp, c2 = t["alias"]
        out["cs_alias"] = imp + "\n" + t.get("pre", "") + "extra = ['e']\nopts_kw = {}\n" + call(pos + kw, c2) + "\n"
        out["cs_alias_star"] = imp + "\n" + t.get("pre", "") + "extra = ['e']\nopts_kw = {}\n" + call(pos + kw + ["**opts_kw"], c2) + "\n"
    good = {}
    import ast
    for k, v in out.items():
        try:
            ast.parse(v); good[k] = v
        except SyntaxError:
            pass
    keys = sorted(good)
    if limit and len(keys) > limit:
        keep = ["cs_plain", "cs_nested_direct", "cs_nested_in_first_arg", "cs_star_after_kw", "cs_nine_positional_plus_keywords", "cs_ten_positional_plus_keywords"]
        rest = [k for k in keys if k not in keep]
        rng.shuffle(rest)
        keys = [k for k in keep if k in good] + rest[: max(0, limit - len(keep))]
    return {k: good[k] for k in keys}


def shape_class(program_name: str) -> str:
    """coarse class of a program-space variant name, for known-findings signatures"""
    return "trigger-nested-in-own-argument" if program_name.startswith("cs_nested") else "ordinary"
