"""Correspondence for CM.Prec (precedence / parentheses model of the three expression rewrites).

Trees are the JSON form of `CM.Prec.E`. Two kinds of question are put to the code and to the model:
  * `WP 0 e`  vs  libcst: build the tree by hand (parentheses only where the flags say), let libcst generate the code, parse
    `if <code>:` again and compare the tree obtained with the one put in (exactly, flags included);
  * the rewrites: a well-parenthesised tree is rendered into a file, the real codemod is run through the CLI, the `if` test of the
    output is read back as a tree and compared with `combine` / `invert` / `walrus` of the model.
"""
from __future__ import annotations

import json
import random
import shutil

import libcst as cst

import common
import e2e

COPS = {"eq": cst.Equal, "ne": cst.NotEqual, "lt": cst.LessThan, "ge": cst.GreaterThanEqual, "gt": cst.GreaterThan, "le": cst.LessThanEqual,
        "in_": cst.In, "notIn": cst.NotIn, "is_": cst.Is, "isNot": cst.IsNot}
COP_OF = {v: k for k, v in COPS.items()}
COP_TEXT = {"eq": "==", "ne": "!=", "lt": "<", "ge": ">=", "gt": ">", "le": "<=", "in_": "in", "notIn": "not in", "is_": "is", "isNot": "is not"}
ATOMS = ["a", "b", "c", "flag", "1", "True", "False", "x.y", "d[0]"]
RECV = ["s", "t"]
PATS = ["'a'", "'b'", "'c'"]


# ------------------------------------------------------------------ tree <-> libcst

def _par(node, p):
    return node.with_changes(lpar=[cst.LeftParen()], rpar=[cst.RightParen()]) if p else node


def call_code(e):
    arg = e["ps"][0] if len(e["ps"]) == 1 else "(" + ", ".join(e["ps"]) + ")"
    return f"{e['r']}.startswith({arg})"


def to_cst(e):
    k = e["k"]
    if k == "atom":
        n = cst.parse_expression(e["n"])
    elif k == "call":
        n = cst.parse_expression(call_code(e))
    elif k == "neg":
        n = cst.UnaryOperation(operator=cst.Minus(), expression=to_cst(e["e"]))
    elif k == "lnot":
        n = cst.UnaryOperation(operator=cst.Not(), expression=to_cst(e["e"]))
    elif k == "bin":
        if e["op"] == "arith":
            n = cst.BinaryOperation(left=to_cst(e["l"]), operator=cst.Add(), right=to_cst(e["r"]))
        else:
            n = cst.BooleanOperation(left=to_cst(e["l"]), operator=cst.And() if e["op"] == "and" else cst.Or(), right=to_cst(e["r"]))
    elif k == "cmp":
        n = cst.Comparison(left=to_cst(e["l"]), comparisons=[cst.ComparisonTarget(operator=COPS[e["op"]](), comparator=to_cst(e["r"]))])
    elif k == "chain":
        n = cst.Comparison(left=to_cst(e["l"]), comparisons=[cst.ComparisonTarget(operator=COPS[e["o1"]](), comparator=to_cst(e["m"])),
                                                            cst.ComparisonTarget(operator=COPS[e["o2"]](), comparator=to_cst(e["r"]))])
    elif k == "ifx":
        n = cst.IfExp(test=to_cst(e["c"]), body=to_cst(e["t"]), orelse=to_cst(e["f"]))
    elif k == "named":
        n = cst.NamedExpr(target=cst.Name(e["n"]), value=to_cst(e["v"]))
    elif k == "tup":
        n = cst.Tuple(elements=[cst.Element(to_cst(e["a"])), cst.Element(to_cst(e["b"]))], lpar=[], rpar=[])
    else:
        raise ValueError(k)
    return _par(n, e["p"])


_MOD = cst.Module(body=[])


def code_of(node) -> str:
    return _MOD.code_for_node(node)


def from_cst(n):
    """libcst expression -> tree; None when the expression is outside the modelled fragment"""
    p = len(n.lpar) > 0 if hasattr(n, "lpar") else False
    if isinstance(n, cst.Call) and isinstance(n.func, cst.Attribute) and isinstance(n.func.value, cst.Name) and n.func.attr.value in ("startswith", "endswith") and len(n.args) == 1:
        v = n.args[0].value
        ps = [code_of(el.value) for el in v.elements] if isinstance(v, cst.Tuple) else [code_of(v)]
        return {"k": "call", "r": n.func.value.value, "ps": ps, "p": p}
    if isinstance(n, (cst.Name, cst.Integer, cst.Attribute, cst.Subscript, cst.SimpleString, cst.Call)):
        return {"k": "atom", "n": code_of(n.with_changes(lpar=[], rpar=[])), "p": p}
    if isinstance(n, cst.UnaryOperation):
        x = from_cst(n.expression)
        if x is None: return None
        if isinstance(n.operator, cst.Minus): return {"k": "neg", "e": x, "p": p}
        if isinstance(n.operator, cst.Not): return {"k": "lnot", "e": x, "p": p}
        return None
    if isinstance(n, cst.BinaryOperation) and isinstance(n.operator, cst.Add):
        l, r = from_cst(n.left), from_cst(n.right)
        return None if l is None or r is None else {"k": "bin", "op": "arith", "l": l, "r": r, "p": p}
    if isinstance(n, cst.BooleanOperation):
        l, r = from_cst(n.left), from_cst(n.right)
        return None if l is None or r is None else {"k": "bin", "op": "and" if isinstance(n.operator, cst.And) else "or", "l": l, "r": r, "p": p}
    if isinstance(n, cst.Comparison):
        parts = [from_cst(n.left)] + [from_cst(t.comparator) for t in n.comparisons]
        ops = [COP_OF.get(type(t.operator)) for t in n.comparisons]
        if any(x is None for x in parts) or any(o is None for o in ops): return None
        if len(ops) == 1: return {"k": "cmp", "op": ops[0], "l": parts[0], "r": parts[1], "p": p}
        if len(ops) == 2: return {"k": "chain", "l": parts[0], "o1": ops[0], "m": parts[1], "o2": ops[1], "r": parts[2], "p": p}
        return None
    if isinstance(n, cst.IfExp):
        t, c, f = from_cst(n.body), from_cst(n.test), from_cst(n.orelse)
        return None if None in (t, c, f) else {"k": "ifx", "t": t, "c": c, "f": f, "p": p}
    if isinstance(n, cst.Tuple) and len(n.elements) == 2 and all(isinstance(el, cst.Element) for el in n.elements):
        a, b = from_cst(n.elements[0].value), from_cst(n.elements[1].value)
        return None if a is None or b is None else {"k": "tup", "a": a, "b": b, "p": p}
    if isinstance(n, cst.NamedExpr) and isinstance(n.target, cst.Name):
        v = from_cst(n.value)
        return None if v is None else {"k": "named", "n": n.target.value, "v": v, "p": p}
    return None


def reparse(e, context="if"):
    """the tree libcst's parser gives for the code libcst's generator prints for `e`, as the test of an `if` or as the right-hand
    side of an assignment; None = does not parse"""
    code = code_of(to_cst(e))
    try:
        mod = cst.parse_module(f"if {code}:\n    pass\n" if context == "if" else f"val = {code}\n")
        compile(mod.code, "x", "exec")
    except Exception:
        return None, code
    return from_cst(mod.body[0].test if context == "if" else mod.body[0].body[0].value), code


# ------------------------------------------------------------------ generators

LEVEL = {"tup": 0, "named": 1, "ifx": 2, "or": 3, "and": 4, "lnot": 5, "cmp": 6, "chain": 6, "arith": 7, "neg": 8, "atom": 10, "call": 10}
IF_SLOT, EXPR_SLOT = 1, 2      # the test of an `if` takes a bare `:=`; most other places take an expression


def kind(e):
    return e["op"] if e["k"] == "bin" else e["k"]


def level(e):
    return 10 if e["p"] else LEVEL[kind(e)]


def children(e):
    """[(slot level, key)]"""
    k = kind(e)
    el = 1 if e["p"] else 2
    return {"atom": [], "call": [], "neg": [(8, "e")], "lnot": [(5, "e")], "arith": [(7, "l"), (8, "r")], "and": [(4, "l"), (5, "r")], "or": [(3, "l"), (4, "r")],
            "cmp": [(7, "l"), (7, "r")], "chain": [(7, "l"), (7, "m"), (7, "r")], "ifx": [(3, "t"), (3, "c"), (2, "f")], "named": [(2, "v")],
            "tup": [(el, "a"), (el, "b")]}[k]


def gen(rng, depth, calls=0.3, kinds=None):
    """random tree, parentheses at random (mostly NOT well parenthesised)"""
    if depth == 0 or rng.random() < 0.15:
        if rng.random() < calls:
            return {"k": "call", "r": rng.choice(RECV), "ps": rng.sample(PATS, rng.choice([1, 1, 2])), "p": rng.random() < 0.15}
        return {"k": "atom", "n": rng.choice(ATOMS), "p": rng.random() < 0.15}
    k = rng.choice(kinds or ["neg", "lnot", "lnot", "arith", "and", "or", "or", "or", "cmp", "cmp", "chain", "ifx", "named", "tup"])
    p = rng.random() < 0.3
    sub = lambda: gen(rng, depth - 1, calls, kinds)
    if k in ("neg", "lnot"): return {"k": k, "e": sub(), "p": p}
    if k in ("arith", "and", "or"): return {"k": "bin", "op": k, "l": sub(), "r": sub(), "p": p}
    if k == "cmp": return {"k": "cmp", "op": rng.choice(list(COPS)), "l": sub(), "r": sub(), "p": p}
    if k == "chain": return {"k": "chain", "l": sub(), "o1": rng.choice(list(COPS)), "m": sub(), "o2": rng.choice(list(COPS)), "r": sub(), "p": p}
    if k == "ifx": return {"k": "ifx", "t": sub(), "c": sub(), "f": sub(), "p": p}
    if k == "tup": return {"k": "tup", "a": sub(), "b": sub(), "p": p}
    return {"k": "named", "n": rng.choice(["w", "v"]), "v": sub(), "p": p}


def _call(rng):
    return {"k": "call", "r": rng.choice(RECV + ["s", "s"]), "ps": rng.sample(PATS, rng.choice([1, 1, 2])), "p": rng.random() < 0.1}


def wrap_context(rng, core, layers):
    """put `core` into `layers` random operator contexts (either operand position), parentheses at random"""
    e = core
    for _ in range(layers):
        other = gen(rng, rng.randint(0, 1), calls=0.3)
        k = rng.choice(["neg", "lnot", "arith", "and", "or", "cmp", "ifx", "named", "attr-like"])
        p = rng.random() < 0.25
        if k in ("neg", "lnot"): e = {"k": k, "e": e, "p": p}
        elif k in ("arith", "and", "or"):
            l, r = (e, other) if rng.random() < 0.5 else (other, e)
            e = {"k": "bin", "op": k, "l": l, "r": r, "p": p}
        elif k == "cmp":
            l, r = (e, other) if rng.random() < 0.5 else (other, e)
            e = {"k": "cmp", "op": rng.choice(list(COPS)), "l": l, "r": r, "p": p}
        elif k == "ifx":
            parts = [other, gen(rng, 0), gen(rng, 0)]
            parts.insert(rng.randint(0, 2), e)
            e = {"k": "ifx", "t": parts[0], "c": parts[1], "f": parts[2], "p": p}
        elif k == "named":
            e = {"k": "named", "n": "w", "v": e, "p": p}
    return e


def gen_combine(rng):
    """trees around the three shapes `leave_BooleanOperation` matches (and near misses), in operator contexts"""
    # arguments that are names take part too (never de-duplicated, whatever a literal next to them says): `pfx` and `'pfx'`
    pats = PATS + ["pfx", "'pfx'", "pfx", "'a'"]
    def _call(rng):
        return {"k": "call", "r": rng.choice(RECV + ["s", "s"]), "ps": [rng.choice(pats) for _ in range(rng.choice([1, 1, 2]))], "p": rng.random() < 0.1}
    k = rng.choice(["and", "or", "or"])
    x = gen(rng, rng.randint(0, 1), calls=0.3)
    core = rng.choice([
        lambda: {"k": "bin", "op": "or", "l": _call(rng), "r": _call(rng), "p": rng.random() < 0.4},
        lambda: {"k": "bin", "op": "or", "l": _call(rng), "r": {"k": "bin", "op": k, "l": _call(rng), "r": x, "p": rng.random() < 0.5}, "p": rng.random() < 0.4},
        lambda: {"k": "bin", "op": "or", "l": {"k": "bin", "op": k, "l": x, "r": _call(rng), "p": rng.random() < 0.3}, "r": _call(rng), "p": rng.random() < 0.4},
        lambda: {"k": "bin", "op": "or", "l": {"k": "bin", "op": "or", "l": _call(rng), "r": _call(rng), "p": rng.random() < 0.3}, "r": _call(rng), "p": rng.random() < 0.4},
        lambda: {"k": "bin", "op": "and", "l": _call(rng), "r": _call(rng), "p": rng.random() < 0.4},
        lambda: {"k": "bin", "op": "or", "l": _call(rng), "r": {"k": "bin", "op": "arith", "l": _call(rng), "r": x, "p": True}, "p": False},
    ])()
    return repair(wrap_context(rng, core, rng.choice([0, 1, 1, 2])))


def gen_invert(rng):
    """trees around `not <comparison>` (single, chained, `is True`/`is False`, nested nots), in operator contexts"""
    l, r = gen(rng, rng.randint(0, 1), calls=0.1), gen(rng, rng.randint(0, 1), calls=0.15)
    op = rng.choice(list(COPS) + ["is_", "is_"])
    if op == "is_" and rng.random() < 0.6:
        r = {"k": "atom", "n": rng.choice(["True", "False"]), "p": rng.random() < 0.1}
    c = {"k": "cmp", "op": op, "l": l, "r": r, "p": rng.random() < 0.4}
    core = rng.choice([
        lambda: {"k": "lnot", "e": c, "p": rng.random() < 0.5},
        lambda: {"k": "lnot", "e": {"k": "lnot", "e": c, "p": rng.random() < 0.5}, "p": rng.random() < 0.3},
        lambda: {"k": "lnot", "e": {"k": "chain", "l": l, "o1": op, "m": r, "o2": rng.choice(list(COPS)), "r": gen(rng, 0), "p": rng.random() < 0.3}, "p": rng.random() < 0.3},
        lambda: {"k": "lnot", "e": {"k": "bin", "op": "and", "l": c, "r": gen(rng, 0), "p": True}, "p": False},
    ])()
    return repair(wrap_context(rng, core, rng.choice([0, 1, 1, 2])))


def repair(e, slot=IF_SLOT):
    """add the parentheses that are needed (and keep the ones that are there)"""
    e = dict(e)
    if level(e) < slot:
        e["p"] = True
    for m, key in children(e):
        e[key] = repair(e[key], m)
    return e


def break_one(rng, e, slot=IF_SLOT):
    """drop one pair of parentheses that is needed (None when there is none)"""
    spots = []

    def walk(x, m, path):
        if x["p"] and LEVEL[kind(x)] < m:
            spots.append(path)
        for mm, key in children(x):
            walk(x[key], mm, path + [key])

    walk(e, slot, [])
    if not spots:
        return None
    path = rng.choice(spots)
    e = json.loads(json.dumps(e))
    x = e
    for key in path:
        x = x[key]
    x["p"] = False
    return e


def small_trees():
    """every tree of depth <= 2 over two leaves, all parenthesis flags, a few operators"""
    leaves = [{"k": "atom", "n": "a", "p": p} for p in (False, True)] + [{"k": "call", "r": "s", "ps": ["'a'"], "p": False}]
    d1 = list(leaves)
    for p in (False, True):
        for x in leaves:
            d1 += [{"k": "neg", "e": x, "p": p}, {"k": "lnot", "e": x, "p": p}, {"k": "named", "n": "w", "v": x, "p": p}]
        for x in leaves[:2]:
            for y in leaves[1:]:
                d1 += [{"k": "bin", "op": op, "l": x, "r": y, "p": p} for op in ("arith", "and", "or")] + [{"k": "cmp", "op": "eq", "l": x, "r": y, "p": p}]
        d1.append({"k": "ifx", "t": leaves[0], "c": leaves[2], "f": leaves[0], "p": p})
        d1.append({"k": "tup", "a": leaves[0], "b": leaves[2], "p": p})
        d1.append({"k": "tup", "a": {"k": "named", "n": "w", "v": leaves[0], "p": False}, "b": leaves[0], "p": p})
    out = list(d1)
    for x in d1:
        out += [{"k": "neg", "e": x, "p": False}, {"k": "lnot", "e": x, "p": False}, {"k": "named", "n": "w", "v": x, "p": False},
                {"k": "bin", "op": "arith", "l": x, "r": leaves[0], "p": False}, {"k": "bin", "op": "arith", "l": leaves[0], "r": x, "p": False},
                {"k": "bin", "op": "and", "l": x, "r": leaves[0], "p": False}, {"k": "bin", "op": "and", "l": leaves[0], "r": x, "p": False},
                {"k": "bin", "op": "or", "l": x, "r": leaves[2], "p": False}, {"k": "bin", "op": "or", "l": leaves[2], "r": x, "p": False},
                {"k": "cmp", "op": "is_", "l": x, "r": leaves[0], "p": False}, {"k": "cmp", "op": "lt", "l": leaves[0], "r": x, "p": False},
                {"k": "ifx", "t": x, "c": leaves[0], "f": leaves[0], "p": False}, {"k": "ifx", "t": leaves[0], "c": x, "f": leaves[0], "p": False},
                {"k": "ifx", "t": leaves[0], "c": leaves[0], "f": x, "p": False},
                {"k": "tup", "a": x, "b": leaves[0], "p": False}, {"k": "tup", "a": leaves[0], "b": x, "p": True}]
    return out


# ------------------------------------------------------------------ running the real codemods

def run_codemod(cid: str, sources: list[str], passes: int = 1):
    """the files after one CLI run of `cid` (None = reported failed / CLI crash); with `passes` > 1 the list of such lists, one per
    successive run on the same project directory (a file a run reports failed keeps its text for the next run)"""
    root = common.tmpdir("prec")
    try:
        proj = root / "p"
        e2e.write_project(proj, {f"m{i:04d}.py": s for i, s in enumerate(sources)})
        rounds = []
        for _ in range(passes):
            r = e2e.run(proj, ["--codemod-include", cid])
            if r["rc"] != ["exit", 0]:
                rounds.append([None] * len(sources))
                continue
            failed = {f.split("/")[-1] for res in (r["report"] or {}).get("results", []) for f in (res.get("failedFiles") or [])}
            rounds.append([None if f"m{i:04d}.py" in failed else (proj / f"m{i:04d}.py").read_text() for i in range(len(sources))])
        return rounds[0] if passes == 1 else rounds
    finally:
        shutil.rmtree(root, ignore_errors=True)


def gen_is_true_over_comparison(rng):
    """`not (<comparison> is True)`: the shape on which one application of invert-boolean-check leaves a `not <comparison>` behind"""
    inner = {"k": "cmp", "op": rng.choice(list(COPS)), "l": gen(rng, 0, calls=0.1), "r": gen(rng, 0, calls=0.1), "p": True}
    c = {"k": "cmp", "op": "is_", "l": inner, "r": {"k": "atom", "n": "True", "p": False}, "p": rng.random() < 0.7}
    return repair({"k": "lnot", "e": c, "p": rng.random() < 0.3})


def test_of(source: str | None, in_def=False):
    """tree of the first `if` test of the file; ("unparsable"/"outside") markers otherwise"""
    if source is None:
        return "failed"
    try:
        compile(source, "x", "exec")
        mod = cst.parse_module(source)
    except Exception:
        return "unparsable"
    body = mod.body[0].body.body if in_def else mod.body
    for st in body:
        if isinstance(st, cst.If):
            return from_cst(st.test) or "outside"
    return "no-if"
