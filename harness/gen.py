"""Regenerates lean/CM/Generated.lean from /repo's current working tree (DESIGN §2, Layer B)."""
from pathlib import Path

import common


def generate() -> str:
    return "no generated instance data yet"
