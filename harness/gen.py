"""Regenerates lean/CM/Generated.lean from /repo's current working tree (DESIGN §2, Layer B).

Instance data (live registry, default tables) and, where the source is a closed boolean /
arithmetic expression, a Lean translation of the function body (py2lean). The file is only
rewritten when its content changes, so an unchanged tree costs no rebuild.
"""
from __future__ import annotations

import json
from pathlib import Path

import common


def lstr(s: str) -> str:
    return json.dumps(s, ensure_ascii=False)


def llist(xs) -> str:
    return "[" + ", ".join(xs) + "]"


def registry_block() -> tuple[str, dict]:
    from codemodder import registry as R

    reg = R.load_registered_codemods()
    cms = [(c.id, c.origin) for c in reg.codemods]
    out = ["/-- the live registry: (id, origin) in registry order -/",
           "def registry : List CM.Registry.Codemod := " + llist(f"⟨{lstr(i)}, {lstr(o)}⟩" for i, o in cms),
           "",
           "def defaultExcluded : List String := " + llist(lstr(x) for x in R.DEFAULT_EXCLUDED_CODEMODS), ""]
    return "\n".join(out), {"codemods": len(cms), "default_excluded": len(R.DEFAULT_EXCLUDED_CODEMODS)}


def paths_block() -> tuple[str, dict]:
    from codemodder import code_directory as D

    out = ["def defaultIncludedPaths : List String := " + llist(lstr(x) for x in D.DEFAULT_INCLUDED_PATHS),
           "def defaultExcludedPaths : List String := " + llist(lstr(x) for x in D.DEFAULT_EXCLUDED_PATHS), ""]
    return "\n".join(out), {"default_included_paths": len(D.DEFAULT_INCLUDED_PATHS), "default_excluded_paths": len(D.DEFAULT_EXCLUDED_PATHS)}


def write_if_changed(name: str, imports: list[str], body: str) -> bool:
    text = ("".join(f"import {m}\n" for m in imports)
            + "/-! GENERATED from /repo by harness/gen.py on every run — do not edit. -/\n"
            + "set_option linter.unusedSimpArgs false\nnamespace CM.Generated\n\n" + body + "\nend CM.Generated\n")
    p = common.LEAN_DIR / "CM" / "Generated" / f"{name}.lean"
    p.parent.mkdir(exist_ok=True)
    if not p.exists() or p.read_text() != text:
        with common.BuildLock():
            p.write_text(text)
        return True
    return False


def generate() -> dict:
    info = {"rewritten": []}
    b, i = registry_block()
    info.update(i)
    if write_if_changed("Registry", ["CM.Model.Registry"], b):
        info["rewritten"].append("Registry")
    b, i = paths_block()
    info.update(i)
    if write_if_changed("Paths", [], b):
        info["rewritten"].append("Paths")
    try:
        import py2lean
    except ImportError:
        py2lean = None
    if py2lean is not None:
        d, t, i = py2lean.block()
        info.update(i)
        if write_if_changed("Preds", ["CM.Model.Location"], d):
            info["rewritten"].append("Preds")
        if write_if_changed("PredsEq", ["CM.Generated.Preds"], t):
            info["rewritten"].append("PredsEq")
    try:
        import py2lean_tables
    except ImportError:
        py2lean_tables = None
    if py2lean_tables is not None:
        d, t, i = py2lean_tables.block()
        info.update(i)
        if write_if_changed("Tables", ["CM.Model.Prec"], d):
            info["rewritten"].append("Tables")
        if write_if_changed("TablesEq", ["CM.Generated.Tables"], t):
            info["rewritten"].append("TablesEq")
    return info
