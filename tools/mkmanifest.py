#!/venv/bin/python
"""Writes /verif/MANIFEST.json from the property modules under harness/props."""
import importlib, json, sys
from pathlib import Path
V = Path(__file__).resolve().parent.parent
sys.path.insert(0, str(V / "harness"))
props = [json.loads(l) for l in open(V / "properties.jsonl")]
checks, na = [], []
for p in props:
    pid = p["id"]
    f = V / "harness" / "props" / f"{pid.lower()}.py"
    if not f.exists():
        na.append({"property_id": pid, "reason": "check not built yet (see DESIGN.md section 7 for the planned Lean model and tie)"})
        continue
    m = importlib.import_module(f"props.{pid.lower()}")
    checks.append({
        "property_id": pid,
        "quick_cmd": f"./check {pid} --tier quick",
        "thorough_cmd": f"./check {pid} --tier thorough",
        "evidence_file": f"evidence/{pid}.json",
        "replay_cmd_template": f"./check {pid} --replay {{path}}",
        "engine": "lean4-model+correspondence",
        "level_claimed": {"category": "proof", "text": m.LEVEL_TEXT, "design_ref": f"DESIGN.md section 7, {pid}"},
        "level_note": m.LEVEL_NOTE,
        "technique": m.TECHNIQUE,
    })
man = {
    "version": 1,
    "setup_cmd": "cd lean && lake build",
    "hooks": {
        "guard": "CODEMODDER_VERIF",
        "enable": "no hooks: the harness substitutes objects through public extension points (registry, codemod/transformer/detector subclasses); nothing in /repo is guarded",
        "baseline_off_cmd": "cd /repo && /venv/bin/python -m pytest -ra -q -p no:cacheprovider --timeout=900 --continue-on-collection-errors",
        "source_commits": [],
        "add_only": True,
    },
    "engines": [{
        "name": "lean4-model+correspondence",
        "path": "lean/ (model CM/Model, theorems CM/Props, Driver.lean) + harness/ (correspondence and failing-input search against /repo's working tree)",
        "serves_properties": [c["property_id"] for c in checks],
        "kind_free_text": "machine-checked proof in Lean 4 over a hand-written executable model; the model is tied to the code on every run by a correspondence check (same inputs through the real Python code and through the Lean Driver) and by regenerating instance data / translated predicates from the source",
    }],
    "checks": checks,
    "not_applicable": na,
    "notes": "All checks: ./check <ID> --tier quick|thorough (reads VERIF_SEED). Exit 0 ok, 1 with VIOLATION line, 2 infrastructure failure. known_findings.json lists recorded genuine defects and fixed ones.",
}
(V / "MANIFEST.json").write_text(json.dumps(man, indent=1) + "\n")
print(f"{len(checks)} checks, {len(na)} not_applicable")
