#!/venv/bin/python
"""Developer tool: harvests trigger snippets from /repo/tests/codemods (string literals of the test classes)
and the hand-written ones in harness/corpus/extra_seeds.json, keeps those on which the codemod (run through
the real CLI on the clean tree) reports a change, and writes harness/corpus/seeds.json.
The snippets are only *inputs* for the checks; no oracle assumes that a codemod changes them."""
import ast, importlib, json, shutil, sys, textwrap
from pathlib import Path
V = Path(__file__).resolve().parent.parent
sys.path.insert(0, str(V / "harness"))
import common, e2e, impl
common.setup_env()
TESTS = common.REPO / "tests" / "codemods"

def harvest():
    out = {}
    for f in sorted(TESTS.glob("test_*.py")):
        tree = ast.parse(f.read_text())
        imports = {}
        for n in tree.body:
            if isinstance(n, ast.ImportFrom) and n.module:
                for a in n.names:
                    imports[a.asname or a.name] = (n.module, a.name)
        for cls in [n for n in tree.body if isinstance(n, ast.ClassDef)]:
            cm = None
            for st in cls.body:
                if isinstance(st, ast.Assign) and any(isinstance(t, ast.Name) and t.id == "codemod" for t in st.targets) and isinstance(st.value, ast.Name):
                    cm = st.value.id
            if cm is None or cm not in imports:
                continue
            try:
                obj = getattr(importlib.import_module(imports[cm][0]), imports[cm][1])
                obj = obj() if isinstance(obj, type) else obj
                cid = obj.id
            except Exception:
                continue
            if not cid.startswith("pixee:"):
                continue
            for node in ast.walk(cls):
                if isinstance(node, ast.Constant) and isinstance(node.value, str) and "\n" in node.value or (isinstance(node, ast.Constant) and isinstance(node.value, str) and len(node.value) > 12):
                    s = textwrap.dedent(node.value).strip("\n") + "\n"
                    if len(s) > 1500 or not s.strip():
                        continue
                    try:
                        ast.parse(s)
                    except SyntaxError:
                        continue
                    out.setdefault(cid, [])
                    if s not in out[cid]:
                        out[cid].append(s)
    return out

def changing(item):
    cid, snippets = item
    root = common.tmpdir("seed")
    try:
        files = {f"s{i:03d}.py": s for i, s in enumerate(snippets)}
        e2e.write_project(root / "p", files)
        r = e2e.run(root / "p", ["--codemod-include", cid, "--dry-run"])
        ch = set(e2e.changed_files(r["report"]).get(cid, []))
        # import statements the codemod adds (read off the diffs): used for the "import only in a nested scope" variant
        added = set()
        for res in (r["report"] or {}).get("results", []):
            for cs in res["changeset"]:
                for ln in cs["diff"].splitlines():
                    if ln.startswith("+") and not ln.startswith("+++"):
                        t = ln[1:].strip()
                        if (t.startswith("import ") or (t.startswith("from ") and " import " in t)) and "(" not in t and "__future__" not in t:
                            added.add(t)
        return cid, [s for i, s in enumerate(snippets) if f"s{i:03d}.py" in ch], r["rc"], sorted(added)
    finally:
        shutil.rmtree(root, ignore_errors=True)

h = harvest()
extra = V / "harness" / "corpus" / "extra_seeds.json"
EXTRA = json.loads(extra.read_text()) if extra.exists() else {}
if extra.exists():
    for k, v in EXTRA.items():
        h.setdefault(k, [])
        h[k] = [s for s in v if s not in h[k]] + h[k]
res = impl.pool_map(changing, list(h.items()))
seeds = {}
ADDED = {}
for r in res:
    assert r[0] == "ok", r
    cid, keep, rc, added = r[1]
    if added:
        ADDED[cid] = added
    keep.sort(key=len)
    prio = list(EXTRA.get(cid, []))          # the hand-written corner shapes are always kept, also those the codemod declines or fails on today
    seeds[cid] = prio + [x for x in keep if x not in prio][: max(0, 14 - len(prio))]
    print(f"{cid}: {len(h[cid])} harvested, {len(keep)} changing, rc={rc}")
(V / "harness" / "corpus" / "seeds.json").write_text(json.dumps(seeds, indent=0, sort_keys=True))
(V / "harness" / "corpus" / "added_imports.json").write_text(json.dumps(ADDED, indent=0, sort_keys=True))
print(len(seeds), "codemods,", sum(map(len, seeds.values())), "seeds")
