#!/bin/bash
# usage: tools/refactor_sweep.sh <file with lines "<patch dir> <check ids...>">  — behaviour-preserving changes: every check should stay quiet
cd "$(dirname "$0")/.." || exit 2
while read -r dir ids; do
  [ -z "$dir" ] && continue
  case "$dir" in /*) ;; *) dir="$PWD/$dir";; esac
  git -C /repo status --porcelain | grep -q . && { echo "/repo not clean"; exit 2; }
  git -C /repo apply "$dir/patch.diff" || { echo "$dir: patch does not apply"; continue; }
  for id in $ids; do
    out=$(VERIF_SEED=${VERIF_SEED:-0} ./check $id --tier quick 2>&1); rc=$?
    echo "$dir $id rc=$rc $(echo "$out" | grep -E 'tier=' | cut -c1-160)"
    [ $rc -ne 0 ] && echo "$out" | grep -E "VIOLATION|infrastructure" | head -3 | cut -c1-300
  done
  git -C /repo checkout -- . && git -C /repo clean -fdq src
done < "$1"
