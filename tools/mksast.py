#!/venv/bin/python
"""Developer tool: harvests (input code, tool result document) pairs from /repo/tests/codemods/{sonar,semgrep,defectdojo}
and keeps those for which the SAST codemod, run through the real CLI on the clean tree, changes the file.
Writes harness/corpus/sast_seeds.json. The pairs are only inputs; no oracle assumes a particular output."""
import ast, importlib, json, shutil, sys, textwrap, uuid
from pathlib import Path
V = Path(__file__).resolve().parent.parent
sys.path.insert(0, str(V / "harness"))
import common, e2e, impl
common.setup_env()
TESTS = common.REPO / "tests" / "codemods"

def harvest():
    out = []
    for f in sorted(list((TESTS / "sonar").glob("test_*.py")) + list((TESTS / "semgrep").glob("test_*.py")) + list((TESTS / "defectdojo").rglob("test_*.py"))):
        tree = ast.parse(f.read_text())
        imports = {}
        for n in tree.body:
            if isinstance(n, ast.ImportFrom) and n.module:
                for a in n.names:
                    imports[a.asname or a.name] = (n.module, a.name)
        for cls in [n for n in tree.body if isinstance(n, ast.ClassDef)]:
            cm = tool = None
            for st in cls.body:
                if isinstance(st, ast.Assign) and isinstance(st.targets[0], ast.Name):
                    if st.targets[0].id == "codemod" and isinstance(st.value, ast.Name): cm = st.value.id
                    if st.targets[0].id == "tool" and isinstance(st.value, ast.Constant): tool = st.value.value
            if cm is None or cm not in imports or tool is None:
                continue
            try:
                obj = getattr(importlib.import_module(imports[cm][0]), imports[cm][1])
                obj = obj() if isinstance(obj, type) else obj
                cid = obj.id
            except Exception:
                continue
            for fn in [n for n in cls.body if isinstance(n, ast.FunctionDef)]:
                strs, dicts = {}, {}
                for st in ast.walk(fn):
                    if isinstance(st, ast.Assign):
                        for t in st.targets:
                            names = [t.id] if isinstance(t, ast.Name) else []
                            for nm in names:
                                if isinstance(st.value, ast.Constant) and isinstance(st.value.value, str):
                                    strs[nm] = st.value.value
                                elif isinstance(st.value, ast.Dict):
                                    try: dicts[nm] = ast.literal_eval(st.value)
                                    except Exception: pass
                code = strs.get("input_code") or strs.get("original_code")
                if code is None or not dicts:
                    continue
                code = textwrap.dedent(code)
                try: ast.parse(code)
                except SyntaxError: continue
                for nm, d in dicts.items():
                    if tool == "sonar" and not ({"issues", "hotspots"} & set(d)): continue
                    if tool == "semgrep" and "runs" not in d: continue
                    if tool == "defectdojo" and "results" not in d: continue
                    if tool == "semgrep":
                        for run in d["runs"]:
                            run.setdefault("tool", {"driver": {"name": "Semgrep OSS"}})
                    out.append({"codemod": cid, "tool": tool, "code": code, "results": d, "test": f"{f.name}::{fn.name}"})
    return out

FLAG = {"sonar": "--sonar-issues-json", "semgrep": "--sarif", "defectdojo": "--defectdojo-findings-json"}

def works(item):
    root = common.tmpdir("sast")
    try:
        e2e.write_project(root / "p", {"code.py": item["code"]})
        rf = root / f"res-{uuid.uuid4().hex}.json"
        rf.write_text(json.dumps(item["results"]))
        flag = FLAG[item["tool"]]
        if item["tool"] == "sonar" and "hotspots" in item["results"] and "issues" not in item["results"]:
            flag = "--sonar-hotspots-json"
        args = ["--codemod-include", item["codemod"], flag, str(rf)]
        if item["tool"] == "defectdojo" or flag == "--sonar-hotspots-json":
            pass
        r = e2e.run(root / "p", args)
        changed = (root / "p" / "code.py").read_text() != item["code"]
        return changed, flag
    finally:
        shutil.rmtree(root, ignore_errors=True)

items = harvest()
res = impl.pool_map(works, items)
keep = []
for it, r in zip(items, res):
    ok = r[0] == "ok" and r[1][0]
    print(("OK   " if ok else "skip ") + it["codemod"], it["test"], "" if r[0] == "ok" else r[1][:200])
    if ok:
        it["flag"] = r[1][1]
        keep.append(it)
(V / "harness" / "corpus" / "sast_seeds.json").write_text(json.dumps(keep, indent=0, sort_keys=True))
print(len(keep), "of", len(items), "kept;", len({k['codemod'] for k in keep}), "codemods")
