#!/usr/bin/env python3
"""Runs the pinned baseline (command from /root/.vp/BASELINE.json) and compares with stable_pass."""
import json, subprocess, sys, tempfile, xml.etree.ElementTree as ET, os
b = json.load(open("/root/.vp/BASELINE.json"))
out = tempfile.mktemp(suffix=".xml", dir="/var/tmp")
cmd = b["cmd"].replace("<file>", out)
env = dict(os.environ)
for k in list(env):
    if k.startswith("CODEMODDER_VERIF"):
        env.pop(k)
p = subprocess.run(cmd, shell=True, stdout=subprocess.PIPE, stderr=subprocess.STDOUT, env=env)
passed = set()
for tc in ET.parse(out).getroot().iter("testcase"):
    if not any(ch.tag in ("failure", "error", "skipped") for ch in tc):
        passed.add(f"{tc.get('classname')}::{tc.get('name')}")
os.unlink(out)
want = set(b["stable_pass"])
missing = sorted(want - passed)
print(f"baseline: {len(want & passed)}/{len(want)} stable tests pass; {len(passed)} passed in total")
for m in missing[:30]:
    print("  NOT PASSING:", m)
sys.exit(1 if missing else 0)
