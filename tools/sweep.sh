#!/bin/bash
# usage: tools/sweep.sh "<ids>" "<seeds>" [tier]   — runs the checks and prints one summary line per run (+ violations)
cd "$(dirname "$0")/.." || exit 2
(cd lean && lake build >/dev/null 2>&1)
tier=${3:-quick}
for id in $1; do for s in $2; do
  out=$(VERIF_SEED=$s ./check $id --tier $tier 2>&1); rc=$?
  echo "$out" | grep -E "tier=" | sed "s/^/rc=$rc /"
  if [ $rc -ne 0 ]; then echo "$out" | grep -E "VIOLATION|infrastructure" | head -5
    for f in evidence/replays/$id-*.json; do python3 -c "
import json,sys; d=json.load(open('$f')); print('   ', json.dumps(d.get('sig') or [b['name'] for b in d.get('broken',[])])[:200], (d.get('what') or '')[:200])"; done 2>/dev/null | sort | uniq -c | sort -rn | head -12
  fi
done; done
