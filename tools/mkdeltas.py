#!/venv/bin/python
"""Developer tool: records, for every hardening codemod of C16, the tokens it adds to / removes from the programs of the
program space on the clean tree (names, attribute names, keywords, numbers, strings). The table harness/corpus/deltas.json
is reviewed by hand against the codemod's documentation; the C16 check flags any token outside it."""
import json, sys
from pathlib import Path
V = Path(__file__).resolve().parent.parent
sys.path.insert(0, str(V / "harness"))
import common
common.setup_env()
import progspace
sys.path.insert(0, str(V / "harness" / "props"))
import c16
res = progspace.run_pass("thorough", 0)
table = {}
for cid in c16.HARDENING:
    r = res.get(cid)
    if not r or "error" in r:
        print("no records for", cid); continue
    add, rem = set(), set()
    for name, rec in r["records"].items():
        if rec["after"] == rec["before"]:
            continue
        a, b = c16.token_delta(rec["before"], rec["after"])
        if a is None: continue
        add |= set(a); rem |= set(b)
    table[cid] = {"added": sorted(add), "removed": sorted(rem)}
    print(cid, table[cid])
(V / "harness" / "corpus" / "deltas.json").write_text(json.dumps(table, indent=1, sort_keys=True))
