#!/usr/bin/env python3
"""Normalises the `fixed` entries of known_findings.json: `commit` becomes the hash of the /repo commit whose subject it names
(or already is), and `what` reads "fixed: property=<id> <hash> <what failed>"."""
import json, os, re, subprocess
P = "/verif/known_findings.json"
log = subprocess.run(["git", "-C", "/repo", "log", "--format=%h\t%s"], stdout=subprocess.PIPE, text=True).stdout.splitlines()
by_subject = {l.split("\t", 1)[1]: l.split("\t", 1)[0] for l in log}
hashes = {l.split("\t", 1)[0] for l in log}
d = json.load(open(P))
bad = []
for f in d["findings"]:
    if f["status"] != "fixed":
        continue
    c = f.get("commit", "")
    h = c if c in hashes else by_subject.get(c)
    if h is None:
        # an older hash from before a rebase: find by the subject recorded in "subject", else leave
        h = by_subject.get(f.get("subject", ""))
    if h is None:
        bad.append((f["property"], c)); continue
    subject = next(l.split("\t", 1)[1] for l in log if l.startswith(h + "\t"))
    f["commit"], f["subject"] = h, subject
    rest = re.sub(r"^fixed: property=\S+\s+([0-9a-f]{7}\s+)?", "", f["what"])
    f["what"] = f"fixed: property={f['property']} {h} {rest}"
tmp = P + ".tmp"
json.dump(d, open(tmp, "w"), indent=1)
os.replace(tmp, P)
print("normalised", sum(1 for f in d["findings"] if f["status"] == "fixed"), "fixed entries; unresolved:", bad)
