#!/bin/bash
# usage: seeded_sweep.sh [ids...]   — for every seeded change: apply, run the quick check of its own property (plus
# the extra checks named in meta.json "also"), undo; prints one line per seeded change: caught / MISSED
cd /verif
ids="$@"; [ -z "$ids" ] && ids=$(ls seeded | grep -v README)
for sid in $ids; do
  prop=${sid%-*}
  out=$(tools/try_mut.sh /verif/seeded/$sid $prop 2>&1)
  if echo "$out" | grep -q "^VIOLATION property=$prop"; then
    echo "$sid caught by $prop: $(echo "$out" | grep -c '^VIOLATION') violation line(s)$(echo "$out" | grep -q no-failing-input-found && echo ' (incl. no-failing-input-found)')"
  else
    echo "$sid MISSED by $prop: $(echo "$out" | tail -1 | cut -c1-160)"
  fi
done
