#!/usr/bin/env python3
"""usage: confirm_mut.py <dir with patch.diff demo.py meta.json> <seed-id> [--no-baseline]
Confirms a seeded change in a scratch worktree of /repo (demo passes clean, fails patched, the pinned
baseline still passes) and, if confirmed, stores it under /verif/seeded/<seed-id>/."""
import json, os, shutil, subprocess, sys
src, sid = sys.argv[1], sys.argv[2]
nobase = "--no-baseline" in sys.argv
wt = f"/var/tmp/cm-{sid}"
def sh(cmd, **kw):
    return subprocess.run(cmd, shell=True, stdout=subprocess.PIPE, stderr=subprocess.STDOUT, text=True, **kw)
subprocess.run(f"git -C /repo worktree remove --force {wt}", shell=True, stdout=subprocess.DEVNULL, stderr=subprocess.DEVNULL)
assert sh(f"git -C /repo worktree add -q {wt} HEAD").returncode == 0
try:
    shutil.copy("/repo/src/codemodder/_version.py", f"{wt}/src/codemodder/_version.py")
    env = dict(os.environ, PYTHONPATH=f"{wt}/src", PATH="/venv/bin:" + os.environ["PATH"], SEMGREP_ENABLE_VERSION_CHECK="0", SEMGREP_SEND_METRICS="off")
    demo = os.path.abspath(f"{src}/demo.py")
    text = open(demo).read().replace("/tmp/mut/" + os.path.basename(os.path.dirname(os.path.dirname(os.path.abspath(src)))), wt)
    open(f"{wt}/_demo.py", "w").write(text)
    clean = sh(f"cd {wt} && /venv/bin/python _demo.py", env=env, timeout=1200)
    ap = sh(f"git -C {wt} apply {os.path.abspath(src)}/patch.diff")
    if ap.returncode != 0:
        print("PATCH DOES NOT APPLY on current HEAD:", ap.stdout[-500:]); sys.exit(1)
    patched = sh(f"cd {wt} && /venv/bin/python _demo.py", env=env, timeout=1200)
    res = {"demo_clean_rc": clean.returncode, "demo_patched_rc": patched.returncode, "demo_patched_tail": patched.stdout[-600:]}
    ok = clean.returncode == 0 and patched.returncode != 0
    if ok and not nobase:
        b = sh(f"/tmp/mut/baseline.py {wt}", timeout=3000)
        res["baseline"] = b.stdout.strip().splitlines()[0] if b.stdout.strip() else ""
        ok = b.returncode == 0
    print(json.dumps(res, indent=1))
    if ok:
        dst = f"/verif/seeded/{sid}"
        os.makedirs(dst, exist_ok=True)
        shutil.copy(f"{src}/patch.diff", dst); shutil.copy(f"{src}/demo.py", dst)
        meta = json.load(open(f"{src}/meta.json"))
        meta["confirmed"] = res
        meta["confirmed_how"] = "tools/confirm_mut.py: scratch worktree of /repo HEAD; demo.py exit 0 on the clean tree and non-zero with patch.diff applied; pinned baseline 1175/1175 with the patch"
        json.dump(meta, open(f"{dst}/meta.json", "w"), indent=1)
        print("CONFIRMED ->", dst)
    else:
        print("NOT CONFIRMED")
    sys.exit(0 if ok else 1)
finally:
    subprocess.run(f"git -C /repo worktree remove --force {wt}", shell=True)
