#!/bin/bash
# usage: try_mut.sh <seeded-dir-or-patch> <check id>...   — applies the patch to /repo, runs the quick checks, undoes it
p="$1"; shift
[ -d "$p" ] && p="$p/patch.diff"
git -C /repo status --porcelain | grep -q . && { echo "/repo not clean"; exit 2; }
git -C /repo apply "$p" || { echo "patch does not apply"; exit 2; }
for id in "$@"; do (cd /verif && ./check "$id" --tier quick 2>&1 | grep -E "VIOLATION|KNOWN|tier=" | cut -c1-250); done
git -C /repo checkout -- . && git -C /repo clean -fdq src
